//! Correspondence and monitors for the multiplexor properties (C02–C08, C10, C11, C15):
//! two real endpoints (`pvh::muxsim::Sim`) whose transports are moved by the harness, against the
//! Lean endpoint model (`drv_mux`), stimulus by stimulus; property monitors run on the
//! implementation's own trace (independent of the model).
//!
//! Wire-level and end-of-case monitors (each demands only what the property text demands, and is
//! judged only while no frame was injected and no flow id was used twice in the case, so that a hit
//! cannot be a consequence of the known flow-id-reuse finding):
//! * C06 `abort-not-signalled`: an application drops a stream it has not shut down, the peer
//!   application has not let go of it, no Reset of the flow has passed either way, the connection is
//!   up and the sink open ⇒ the endpoint's Reset is on the wire when it is quiescent again;
//!   `peer-read-pending-after-abort`: at the end of the case (everything delivered, read and
//!   accepted) the peer's read of an aborted stream has reported end-of-stream.
//! * C07 `open-ok-without-accept`: at the end of the case every open that resolved Ok has come out
//!   of `accept` on the other endpoint (both Multiplexors alive, both tasks running). Generator: in a
//!   quarter of the C07 cases a burst of opens against an accept queue of capacity 1–2 that is not
//!   being emptied.
//! * C15 `reset-after-bind-accept`: an endpoint that answered Bind(id) with Finish(id) sends no
//!   Reset(id) unless another stream frame with that id has reached or left it in between.
//!
//! * C03 `write-credit-units`: with the sink open, an accepted write with a payload (any accepted
//!   frame-level write) puts exactly one Push on the wire in its step, a write left pending none.
//! * C10 `ack-owed` (PROTOCOL.md: an Acknowledge MUST be sent once rwnd frames have been processed since
//!   the last one): at the end of a completion phase that ran to quiescence, for every stream known to be
//!   established and held at an endpoint with no Reset either way: Push frames delivered since the
//!   handshake minus frames acknowledged < rwnd.
//!
//! Stimuli beyond the plain application calls: `wpush h <bytes>` = the public frame-level writer
//! `MuxStream::poll_write_push` (zero-length Push frames, as a foreign / older peer sends);
//! `deliver E closeerr` = the peer's Close followed by an error from the receive half (connection reset
//! after Close), `deliver E err2` = the receive half reports its failure twice (a second fault while
//! the wind-down is running). Byte strings may be written `<hex>z:<n>:<k>` (n pattern bytes k, k+1, …
//! mod 251 after the hex prefix): the huge-write family (one write of 1–3.5 MiB into a window of 2–4
//! frames) keeps its lines, traces and replays short that way.
//!
//! (wave 9b) `sinkfail E` = the outbound direction of the transport fails (every sink operation reports an
//! error; the task is polled); `new E … unstarted` + `start E` = a connection task that is created but polled
//! for the first time only at `start` (calls, deliveries and faults before that meet a task that has not run).
//! Monitors: C06 `abort-not-announced`, C15 / C08 `bind-unresolved-at-end`, C08 `open-unresolved-at-end` —
//! see the block `==== wave 9b ====`.
//!
//! (wave 9a) Size dimensions. `writemany E h n k` = up to n one-octet writes back to back, cut at the first that
//! is not accepted (answer `many <accepted> <done|pending|…>`; the driver iterates the model's `appWrite`);
//! `wiredrop E` = a scripted peer has taken what E sent and keeps silent (the harness forgets E's wire; the
//! case counts as one with a foreign peer from then on); `read E h 0` = a read into a buffer without room (its
//! completion is written `eof` on both sides: the caller cannot tell, only the reads after it are judged);
//! one in five fresh `write` stimuli of every family is made through `poll_write_vectored` with the same bytes
//! cut into slices (`vec_mix`), a pending `writev` is retried with the same slices; datagram payloads may be
//! `z` tokens. Monitors: C07 `credit-differs-from-advertised-window` (writes accepted before the first pending
//! one, with no further Acknowledge delivered = the window in the peer's Connect / handshake Acknowledge; judged
//! for scripted peers too), C04 `pending-with-credit` (a write pending although advertised window + acknowledged
//! frames exceed the Push frames on the wire). Families: `large-vectored` (C04, C02), `zero-room-read` (C05,
//! C02), `window-boundary` (C07), `dgram-boundary` (C11) — see the block `==== wave 9a ====`.
//!
//! `--focus Cxx` biases generation and selects which monitor failures / disagreements this run
//! reports. Non-trivial case: at least one stream or datagram or bind exchange completed end to end
//! (a frame sent by one endpoint was processed by the other).

use pvh::muxsim::{Sim, SimOpts, hexz, unhexz};
use pvh::{Args, Driver, FailKind, Report, Rng, Tier, catch, fnv, hexd, json, shrink_list};

/// Byte strings in stimulus lines and answers: hex, `-`, or the compact form of a long pattern run
/// (`pvh::muxsim::hexz`).
fn unhex(s: &str) -> Option<Vec<u8>> {
    unhexz(s)
}

/// For messages: a long byte string is shown by its length, head and tail.
fn abbr(b: &[u8]) -> String {
    if b.len() <= 48 { hexd(b) } else { format!("{}…{} ({} bytes)", pvh::hex(&b[..16]), pvh::hex(&b[b.len() - 8..]), b.len()) }
}
use std::collections::{HashMap, VecDeque};

#[derive(Clone, Debug)]
struct StepRec {
    line: String, // full stimulus line incl. endpoint name (driver form)
    src: String,  // replay form: `next E` for "deliver the head of the peer's wire", else = line
    out: String,  // `<res> | <events>`
}

#[derive(Clone, Debug, Default)]
struct HInfo {
    alive: bool,
    shutdown: bool,
    eof: bool,
    broken: bool,
    port: Option<u64>, // pairing key (unique per open)
    written: Vec<u8>,
    read: Vec<u8>,
    /// leading bytes of `read` already found equal to `written`
    verified: usize,
    pending_write: Option<Vec<u8>>,
    /// the call that is pending: `write`, `writev` or `wpush`
    pending_op: &'static str,
    /// (wave 9a) the slices of a pending `writev`, as given: the retry passes the same slices again
    pending_toks: Vec<String>,
}

#[derive(Default)]
struct EpView {
    handles: Vec<HInfo>,
    opens: HashMap<u64, (Vec<u8>, u64)>, // req -> (host, port)
    binds: HashMap<u64, u32>,            // req -> outcome count
    held: Vec<bool>,
    mux_alive: bool,
    exited: bool,
    terminated_by: Option<String>,
    rng_left: usize,
    dg_sent: Vec<String>,
    dg_recv: Vec<String>,
}

struct World {
    sims: [Sim; 2],
    opts: [SimOpts; 2],
    view: [EpView; 2],
    wire: [VecDeque<String>; 2], // wire[i] = messages sent by endpoint i, not yet delivered to 1-i
    steps: Vec<StepRec>,
    next_req: u64,
    injected: bool,
    faulted: bool,
    exchanged: bool,
    fails: Vec<(String, String, String)>, // (property, key, description)
    // C03 accounting, per direction (sender endpoint) and flow id
    credit: [HashMap<u32, i64>; 2],
    open_ports: HashMap<u64, (usize, u64)>, // port -> (opener endpoint, req)
    connects_sent: HashMap<(usize, u64), usize>, // (opener endpoint, port) -> Connect frames seen on the wire
    dg_owed: [std::collections::VecDeque<String>; 2], // datagrams accepted by send_datagram, not yet seen on the wire
    dg_q: [std::collections::VecDeque<String>; 2], // receiving side: the datagrams the endpoint's buffer must hold (shadow)
    dg_q_ok: [bool; 2], // … as long as the shadow is certain
    tabled: [std::collections::BTreeSet<u32>; 2], // ids of Connects this endpoint has taken in (not refused) and its application has not accepted yet
    abandoned: [std::collections::BTreeSet<u32>; 2], // ids of own stream requests whose caller gave up and which the peer has not answered yet
    fin_seen: [std::collections::BTreeSet<(usize, usize)>; 2], // (e) handles whose peer's Finish reached e's task while it was running or winding down after a LOCAL drop
    delivered_bytes: HashMap<(usize, usize), Vec<u8>>, // payloads of the Push frames that reached e's task for the stream of handle h, in order
    delivered_unsure: std::collections::BTreeSet<(usize, usize)>,
    closed_by_task: std::collections::BTreeSet<(usize, usize)>, // streams the connection task has certainly closed (a Reset of the peer processed, the task finished)
    free_ids: [std::collections::HashSet<u32>; 2],   // flow ids an endpoint has certainly let go of (and not taken up again)
    bind_ids: [std::collections::HashSet<u32>; 2],   // flow ids under which an endpoint has a bind request out
    port_handle: HashMap<u64, [Option<usize>; 2]>,
    finished_cleanly: HashMap<(usize, usize), bool>,
    aborted: HashMap<(usize, usize), bool>,
    done_hosts: HashMap<u64, Vec<u8>>,
    /// the peer never answers again and its transport never closes (fault mode)
    silent: bool,
    eof_given: [bool; 2],
    /// flow ids that have appeared in any frame so far / a Connect or Bind re-used one of them
    seen_ids: std::collections::HashSet<u32>,
    reused: bool,
    /// bind requests by their (unique) port: requester (endpoint, req); peer's decision
    bind_ports: HashMap<u64, (usize, u64)>,
    bind_held: HashMap<(usize, usize), u64>,
    bind_decision: HashMap<u64, bool>,
    next_src: Option<String>,
    sink_blocked: [bool; 2],
    cancelled: bool,
    /// accepted non-empty writes / datagrams, and Push / Datagram frames that reached the wire, per endpoint
    acc_push: [u64; 2],
    acc_dgram: [u64; 2],
    /// a transport fault (error, end, peer Close) was given to this endpoint
    ep_faulted: [bool; 2],
    wire_push: [u64; 2],
    wire_dgram: [u64; 2],
    /// flow id -> pairing port (from the latest Connect with that id), and handles whose peer's Reset arrived
    fid_port: HashMap<u32, u64>,
    peer_reset: std::collections::HashSet<(usize, usize)>,
    answered: std::collections::HashSet<(usize, usize)>,
    /// Conservative shadow of "this flow id is in use at endpoint e": ids whose stream is known to be
    /// established at e and held by the application (`est`: id -> handle), ids e has proposed in a
    /// Connect that is still unanswered (`pend`: id -> req), Connects delivered to e and not yet
    /// accepted (`inc`: port -> id). Entries are removed on anything that might end the flow, so an
    /// entry present means the id IS in use (the monitors that consult them can only under-report).
    drawn_seen: [usize; 2],
    est: [HashMap<u32, usize>; 2],
    pend: [HashMap<u32, u64>; 2],
    inc: [HashMap<u64, u32>; 2],
    /// wire-level bookkeeping per endpoint: flow ids of `Reset` frames delivered to / emitted by it
    rst_in: [std::collections::HashSet<u32>; 2],
    rst_out: [std::collections::HashSet<u32>; 2],
    /// `Bind(id)` delivered to the endpoint and not yet answered (1) / answered with `Finish(id)` (2);
    /// the entry is forgotten as soon as any other stream frame with that id reaches or leaves the endpoint
    bind_wire: [HashMap<u32, u8>; 2],
    /// the application answered one bind request object twice (then a second answer frame is its doing)
    replied: std::collections::HashSet<(usize, usize)>,
    double_reply: bool,
    /// how often the premises of the wire-level / end-of-case monitors held (reported in the distribution)
    mon: std::collections::BTreeMap<&'static str, u64>,
    /// a payload of the case is written as a `z` token (a write of megabytes): reads of the completion
    /// phase are large, the case is not projected onto the link model
    huge: bool,
    any_reuse: bool,   // some flow id was taken a second time in this case (with or without leftovers)
    oracle_only: bool, // the case uses stimuli the model does not have (scheduling of application tasks): monitors only
    /// the frame-level writer was used (`wpush`)
    raw_push: bool,
    /// the completion phase ended because nothing moved any more (not because its rounds ran out)
    quiesced: bool,
    /// parked writers are polled again after every stimulus that lets the task run (off while a recorded
    /// list is replayed: the recorded polls are in the list)
    probe: bool,
    /// while the calls of a `batch` are observed one by one: the events of the step are processed with the last one only
    skip_events: bool,
    /// a call of a `batch` is being observed (the events are those of all its calls together)
    in_batch: bool,
    /// over-estimates of the streams / bind requests delivered to an endpoint that its application has not
    /// taken yet (every delivered Connect / Bind counts): below the queue capacity means the receive loop
    /// is certainly not parked on a full queue
    backlog: [[usize; 2]; 2],
    /// C03 `over-acknowledged`: per endpoint and flow id, Push frames delivered to it and frames it has
    /// acknowledged since the handshake; ids whose handshake Acknowledge (the answer to a Connect) is still to come
    pushes_in: [HashMap<u32, u64>; 2],
    acked_out: [HashMap<u32, u64>; 2],
    hs_pending: [std::collections::HashSet<u32>; 2],
    /// C15 `bind-request-withheld`: Bind requests that are certainly waiting in the endpoint's bind queue
    /// (delivered while it was up, binds enabled, application present, receive loop certainly not parked,
    /// queue with room) and not taken yet; `bind_unsure`: some delivery did not meet those conditions
    bind_due: [usize; 2],
    bind_unsure: [bool; 2],
    /// (wave 9a) a share of the plain `write` stimuli is passed to `poll_write_vectored` instead, the same
    /// bytes cut into slices (off while a recorded list is replayed: the list has them as they were made)
    vec_mix: bool,
    /// (wave 9a) C07 "initial send credit equals the window the other side advertised": per endpoint and flow
    /// id, the window in the Connect delivered to it / in the Acknowledge that answered its own Connect, and
    /// the writes with a payload accepted on that stream since — as long as no further Acknowledge of that
    /// flow has been delivered. Kept for injected (scripted-peer) frames too.
    init_win: [HashMap<u32, (u64, u64)>; 2],
    /// (wave 9b) unstarted endpoints, the exact flow-ownership shadow, see `W9b`
    w9b: W9b,
}

const NAMES: [&str; 2] = ["A", "B"];

/// Armed in `main`: a stimulus that never returns ends the run with the stimulus list as failing input.
static WATCH: std::sync::OnceLock<pvh::Watchdog> = std::sync::OnceLock::new();

/// Validity under PROTOCOL.md (same rules as the reference codec of the codec harness).
fn frame_valid(hexs: &str) -> bool {
    let Some(b) = unhex(hexs) else { return false };
    if b.len() < 5 || !(b[0] >> 4 == 7 || b[0] >> 4 == 0) {
        return false;
    }
    let p = &b[5..];
    match b[0] & 15 {
        0 => p.len() >= 6,
        1 => p.len() >= 4,
        2 | 3 | 4 => true,
        5 => p.len() >= 3 && (p[0] == 1 || p[0] == 3),
        6 => p.len() >= 3 && p.len() - 3 >= usize::from(p[0]),
        _ => false,
    }
}

fn parse_frame(hexs: &str) -> Option<(u8, u32, Vec<u8>)> {
    let b = unhex(hexs)?;
    if b.len() < 5 {
        return None;
    }
    Some((b[0] & 0x0f, u32::from_be_bytes([b[1], b[2], b[3], b[4]]), b[5..].to_vec()))
}

/// Opcode and flow id of a frame given as a (possibly compact) token, without expanding the payload.
fn parse_head(hexs: &str) -> Option<(u8, u32)> {
    let head = hexs.split("z:").next().unwrap_or("");
    if head.len() < 10 { return None; }
    let op = u8::from_str_radix(head.get(0..2)?, 16).ok()? & 0x0f;
    Some((op, u32::from_str_radix(head.get(2..10)?, 16).ok()?))
}

fn parse_op(hexs: &str) -> Option<u8> {
    parse_head(hexs).map(|x| x.0)
}

impl World {
    fn new(opts: [SimOpts; 2]) -> Self {
        Self::new_with(opts, [false, false])
    }

    /// (wave 9b) `unstarted[e]`: the connection task of endpoint `e` is created but not polled until `start e`
    fn new_with(opts: [SimOpts; 2], unstarted: [bool; 2]) -> Self {
        let mk = |e: usize| if unstarted[e] { Sim::new_unstarted(NAMES[e], opts[e]) } else { Sim::new(NAMES[e], opts[e]) };
        let mut sims = [mk(0), mk(1)];
        for sim in &mut sims { sim.compact = true; }
        let mut w = Self {
            sims,
            opts,
            view: [EpView::default(), EpView::default()],
            wire: [VecDeque::new(), VecDeque::new()],
            steps: vec![],
            next_req: 1,
            injected: false,
            faulted: false,
            exchanged: false,
            fails: vec![],
            credit: [HashMap::new(), HashMap::new()],
            open_ports: HashMap::new(),
            connects_sent: HashMap::new(),
            dg_owed: [std::collections::VecDeque::new(), std::collections::VecDeque::new()],
            dg_q: [std::collections::VecDeque::new(), std::collections::VecDeque::new()],
            dg_q_ok: [true; 2],
            tabled: [std::collections::BTreeSet::new(), std::collections::BTreeSet::new()],
            abandoned: [std::collections::BTreeSet::new(), std::collections::BTreeSet::new()],
            fin_seen: [std::collections::BTreeSet::new(), std::collections::BTreeSet::new()],
            delivered_bytes: HashMap::new(),
            delivered_unsure: std::collections::BTreeSet::new(),
            closed_by_task: std::collections::BTreeSet::new(),
            free_ids: [std::collections::HashSet::new(), std::collections::HashSet::new()],
            bind_ids: [std::collections::HashSet::new(), std::collections::HashSet::new()],
            port_handle: HashMap::new(),
            finished_cleanly: HashMap::new(),
            aborted: HashMap::new(),
            done_hosts: HashMap::new(),
            silent: false,
            eof_given: [false, false],
            seen_ids: std::collections::HashSet::new(),
            reused: false,
            bind_ports: HashMap::new(),
            bind_held: HashMap::new(),
            bind_decision: HashMap::new(),
            next_src: None,
            sink_blocked: [false, false],
            cancelled: false,
            acc_push: [0, 0],
            acc_dgram: [0, 0],
            ep_faulted: [false, false],
            wire_push: [0, 0],
            wire_dgram: [0, 0],
            fid_port: HashMap::new(),
            peer_reset: std::collections::HashSet::new(),
            answered: std::collections::HashSet::new(),
            drawn_seen: [0, 0],
            est: [HashMap::new(), HashMap::new()],
            pend: [HashMap::new(), HashMap::new()],
            inc: [HashMap::new(), HashMap::new()],
            rst_in: [std::collections::HashSet::new(), std::collections::HashSet::new()],
            rst_out: [std::collections::HashSet::new(), std::collections::HashSet::new()],
            bind_wire: [HashMap::new(), HashMap::new()],
            replied: std::collections::HashSet::new(),
            double_reply: false,
            mon: std::collections::BTreeMap::new(),
            huge: false,
            oracle_only: false,
            any_reuse: false,
            raw_push: false,
            quiesced: false,
            probe: true,
            skip_events: false,
            in_batch: false,
            backlog: [[0; 2]; 2],
            pushes_in: [HashMap::new(), HashMap::new()],
            acked_out: [HashMap::new(), HashMap::new()],
            hs_pending: [std::collections::HashSet::new(), std::collections::HashSet::new()],
            bind_due: [0; 2],
            bind_unsure: [false; 2],
            vec_mix: true,
            init_win: [HashMap::new(), HashMap::new()],
            w9b: W9b { unstarted, created_unstarted: unstarted, ..W9b::default() },
        };
        for e in 0..2 {
            // (wave 9b) nothing delivered to an endpoint whose task has not run yet is dispatched: the shadows of
            // its queues are not kept
            if unstarted[e] { w.dg_q_ok[e] = false; w.bind_unsure[e] = true; }
        }
        for v in &mut w.view {
            v.mux_alive = true;
        }
        w
    }

    fn fail(&mut self, prop: &str, key: &str, desc: String) {
        let key = if self.reused { format!("{key}+flow-id-reuse") } else { key.to_string() };
        let key = key.as_str();
        if !self.fails.iter().any(|f| f.0 == prop && f.1 == key) {
            self.fails.push((prop.into(), key.into(), desc));
        }
    }

    fn header_lines(&self) -> Vec<String> {
        // (wave 9b: `new E … unstarted` = the task of E is created but not polled until `start E`)
        (0..2).map(|e| format!("{}{}", self.opts[e].line(NAMES[e]), if self.w9b.created_unstarted[e] { " unstarted" } else { "" })).collect()
    }

    /// Apply one stimulus to endpoint `e`; returns the implementation's answer.
    fn stim(&mut self, e: usize, toks: &[String]) -> String {
        // (wave 9a) both entry points of the writer in every family: a share of the fresh plain writes is
        // made through `poll_write_vectored`, the same bytes cut into slices (the model has one `write`)
        if self.vec_mix && toks.len() == 3 && toks[0] == "write" {
            if let Some(t2) = self.vectored_form(e, toks) { return self.stim(e, &t2); }
        }
        let t: Vec<&str> = toks.iter().map(String::as_str).collect();
        if t.iter().any(|x| x.contains("z:")) { self.huge = true; }
        if t[0] == "wpush" { self.raw_push = true; }
        let mut line = format!("{} {}", t[0], NAMES[e]);
        for x in &t[1..] {
            line.push(' ');
            line.push_str(x);
        }
        // C12 (and C04 / C08): no lost wake-up. A writer that is parked with its waker not woken and is
        // polled again with the same data — a spurious poll, which any executor may make — must still be
        // pending: had the poll become ready (credit arrived, the stream or the connection was closed),
        // the task owed the writer a wake-up. (Not judged after the application's own shutdown.)
        let parked_before = matches!(t[0], "write" | "writev" | "wpush") && t.len() >= 3 && t[1].parse::<usize>().ok().and_then(|h| self.view[e].handles.get(h).map(|hi| (h, hi))).is_some_and(|(h, hi)| {
            hi.alive && !hi.shutdown && hi.pending_op == t[0] && hi.pending_write.is_some() && self.sims[e].wstate(h) == "parked" && hi.pending_write == write_data(&t)
        });
        if let Some(wd) = WATCH.get() {
            if self.steps.is_empty() { wd.begin(self.header_lines()); }
            wd.stimulus(&line);
        }
        let out = if t[0] == "wstate" {
            self.sims[e].wstate(t[1].parse().unwrap_or(0))
        } else {
            match catch(|| self.sims[e].apply(&t)) {
                Ok(o) if t[0] == "rng" => o.split(" | ").next().unwrap_or("ok").to_string(),
                Ok(o) => o,
                Err(p) => {
                    self.fail("C10", "panic", format!("the implementation panicked on `{line}`: {p}"));
                    format!("panic | ")
                }
            }
        };
        if self.sims[e].livelock {
            self.fail("C08", "livelock", format!("executor did not reach quiescence after `{line}`"));
        }
        let src = self.next_src.take().unwrap_or_else(|| line.clone());
        self.steps.push(StepRec { line: line.clone(), src, out: out.clone() });
        // (wave 9b) what held before the stimulus; a failing sink ends the connection before its events are read
        let pre9b = self.w9b_pre(e, &t);
        if t[0] == "wiredrop" {
            // (wave 9a) a scripted peer has taken what this endpoint sent and keeps silent: the other endpoint
            // of the case never sees those frames — from here on the case is one with a foreign peer
            self.wire[e].clear();
            self.injected = true;
        }
        if t[0] == "deliver" && t.get(1) == Some(&"many") {
            // each frame is observed as a delivery of its own (bookkeeping of credit and of the in-use
            // shadows); the monitors that relate ONE delivered frame to the events of its step are off
            let (_, evs) = out.split_once(" | ").unwrap_or((out.as_str(), ""));
            self.in_batch = true;
            let n = t.len() - 2;
            for (k, h) in t[2..].iter().enumerate() {
                self.skip_events = k + 1 < n;
                let o = format!("unit | {evs}");
                self.observe(e, &["deliver", "bin", h], &o);
            }
            self.skip_events = false;
            self.in_batch = false;
        } else if t[0] == "batch" {
            // each call is observed with its own answer; the events of the step (the task ran once, after
            // all of them) are processed with the last one
            let (rs, evs) = out.split_once(" | ").unwrap_or((out.as_str(), ""));
            let rs: Vec<&str> = rs.split(" , ").collect();
            let calls: Vec<&[&str]> = t[1..].split(|x| *x == ";").collect();
            // (a frame that arrives in the same poll as a call: what the datagram buffer holds is not tracked)
            if calls.iter().any(|c| matches!(c.first(), Some(&"deliver") | Some(&"dropmux"))) { self.dg_q_ok[e] = false; }
            self.in_batch = true;
            for (k, call) in calls.iter().enumerate() {
                if call.is_empty() { continue; }
                self.skip_events = k + 1 < calls.len();
                let o = format!("{} | {}", rs.get(k).copied().unwrap_or("?"), evs);
                self.observe(e, call, &o);
            }
            self.skip_events = false;
            self.in_batch = false;
        } else {
            self.observe(e, &t, &out);
        }
        // (wave 9b) flow ownership, `abort-not-announced`, `…-unresolved-at-end`
        self.w9b_post(e, &t, &out, &pre9b);
        // C11, the sending side: a datagram `send_datagram` accepted goes onto the wire, in order, as long
        // as the connection is up (it is lost only at a full receiver or when the connection ends). The
        // outbound queue is FIFO: a later datagram on the wire while an earlier one never appeared means
        // the earlier one was discarded by the sender.
        {
            let (_, evs) = out.split_once(" | ").unwrap_or((out.as_str(), ""));
            for ev in evs.split("; ") {
                let Some(h) = ev.strip_prefix("wire ") else { continue };
                let Some((6, id, p)) = parse_frame(h) else { continue };
                if p.len() < 3 || p.len() < 3 + p[0] as usize { continue; }
                let hl = p[0] as usize;
                let dg = format!("{} {} {} {}", id, hexd(&p[3..3 + hl]), u16::from_be_bytes([p[1], p[2]]), hexz(&p[3 + hl..]));
                match self.dg_owed[e].iter().position(|x| *x == dg) {
                    Some(0) => { self.dg_owed[e].pop_front(); }
                    Some(j) => {
                        let skipped: Vec<String> = self.dg_owed[e].drain(..j).collect();
                        self.dg_owed[e].pop_front();
                        if !self.view[e].exited && self.view[e].terminated_by.is_none() && !self.ep_faulted[e] {
                            *self.mon.entry("dgram-sent-in-order/judged").or_insert(0) += 1;
                            let msg = format!("endpoint {} put the datagram `{dg}` on the wire although {} datagram(s) its `send_datagram` had accepted before it never went out (first: `{}`): the sender discarded them while the connection was up", NAMES[e], skipped.len(), skipped[0]);
                            self.fail("C11", "dgram-not-sent", msg);
                        }
                    }
                    None => {}
                }
            }
            if self.view[e].exited || self.view[e].terminated_by.is_some() || !self.view[e].mux_alive { self.dg_owed[e].clear(); }
        }
        if parked_before {
            *self.mon.entry("parked-writer-polled-again").or_insert(0) += 1;
            if !out.starts_with("pending") {
                let ended = self.view[e].exited || self.view[e].terminated_by.is_some() || self.ep_faulted[e] || !self.view[e].mux_alive;
                let msg = format!("the writer of stream {}#{} was parked with its waker not woken, yet polling it again (`{line}`) gives `{}`: the wake-up it was owed (credit arrived, or the stream / the connection was closed) was lost, a real writer would sleep for ever",
                    NAMES[e], t[1], out.split(" | ").next().unwrap_or(""));
                self.fail("C12", "lost-wakeup", msg.clone());
                self.fail(if ended { "C08" } else { "C04" }, "lost-wakeup", msg);
            }
        }
        // C12: a writer that was parked when ANOTHER holder of the stream shut its write side down still
        // sleeps (`do_shutdown` wakes nobody); when the connection task then closes the flow — the peer's Reset
        // is processed, or the connection ends — it wakes that writer, whoever set the closed flag first.
        if t[0] == "deliver" || t[0] == "dropmux" {
            let reset_for: Option<u32> = if t[0] == "deliver" && t.get(1) == Some(&"bin") { t.get(2).and_then(|h| parse_frame(h)).filter(|f| f.0 == 2 && frame_valid(t[2])).map(|f| f.1) } else { None };
            let exited_now = out.split(" | ").nth(1).is_some_and(|evs| evs.split("; ").any(|ev| ev.starts_with("exit ")));
            for h in 0..self.view[e].handles.len() {
                let Some(woken) = self.sims[e].shut_while_parked_woken(h) else { continue };
                let this_flow = reset_for.is_some_and(|id| self.fid_port.get(&id).and_then(|p| self.port_handle.get(p)).and_then(|ent| ent[e]) == Some(h)) && !self.any_reuse;
                let held_up = self.backlog[e][0] >= self.opts[e].accept_cap || (self.opts[e].bind_cap > 0 && self.backlog[e][1] >= self.opts[e].bind_cap);
                if (this_flow && !held_up && !self.sink_blocked[e]) || exited_now {
                    *self.mon.entry("writer-parked-across-shutdown/judged").or_insert(0) += 1;
                    if !woken && !self.closed_by_task.contains(&(e, h)) {
                        let msg = format!("the writer of stream {}#{h} was parked for credit when the write side was shut down through another handle; the connection task has now closed the flow (`{}`) and did not wake it: it sleeps for ever although its write can only fail", NAMES[e], t.join(" ").chars().take(60).collect::<String>());
                        self.fail("C12", "parked-writer-not-woken-by-close", msg);
                    }
                    self.closed_by_task.insert((e, h));
                }
            }
        }
        // … and such a poll is made after every stimulus that lets the connection task run
        if self.probe && matches!(t[0], "deliver" | "dropmux" | "sinkunblock" | "sinkgrant") && !self.huge {
            for h in 0..self.view[e].handles.len() {
                let hi = &self.view[e].handles[h];
                if !hi.alive || hi.shutdown { continue; }
                let Some(rt) = self.retry_toks(e, h) else { continue };
                if self.sims[e].wstate(h) != "parked" { continue; }
                self.stim(e, &rt);
            }
        }
        out
    }

    /// A flow id that has been used before is taken again while NOTHING of its previous incarnation is left
    /// anywhere: no frame under that id on either wire, no stream of it that an application still holds, no
    /// request pending under it, nothing held back by a sink or waiting in the inbox of a parked receive
    /// loop. Such a reuse is like a fresh id (C06: "nothing of the old stream leaks into it"): the monitors
    /// stay strict. Only a reuse that meets leftovers of the previous incarnation is the known protocol
    /// weakness (flow ids carry no epoch) recorded in known_findings.txt.
    fn reuse_is_clean(&self, id: u32) -> bool {
        let r = self.reuse_is_clean_why(id);
        if std::env::var("PVH_DBG_REUSE").is_ok() { eprintln!("reuse {id:08x}: {r:?}"); }
        r.is_none()
    }

    /// `None` = clean; otherwise what of the previous incarnation is still around.
    fn reuse_is_clean_why(&self, id: u32) -> Option<&'static str> {
        if self.in_batch || self.sink_blocked[0] || self.sink_blocked[1] { return Some("batch or sink blocked"); }
        for e in 0..2 {
            if self.wire[e].iter().any(|m| parse_head(m).is_some_and(|(op, fid)| op != 6 && fid == id)) { return Some("frames in flight"); }
            if self.backlog[e][0] >= self.opts[e].accept_cap || (self.opts[e].bind_cap > 0 && self.backlog[e][1] >= self.opts[e].bind_cap) { return Some("receive loop parked"); }
            // (a stream that sits unaccepted in an accept queue is a handle of its flow that nobody has dropped yet)
            if self.backlog[e][0] > 0 { return Some("unaccepted streams"); }
            if self.pend[e].contains_key(&id) || self.bind_ids[e].contains(&id) || self.inc[e].values().any(|v| *v == id) { return Some("request pending / unaccepted"); }
            if self.view[e].exited || self.view[e].terminated_by.is_some() || !self.view[e].mux_alive { return Some("endpoint not running"); }
        }
        if let Some(port) = self.fid_port.get(&id) {
            for e in 0..2 {
                // (an endpoint whose application still holds the stream and that has neither received nor sent a
                // Reset for the id still has the flow in its table: it refuses a Connect on it and nothing of the
                // held stream can act on a new one — no excuse there. Only after a Reset has passed is a held
                // handle a leftover of a flow the endpoint has already let go of.)
                let reset_passed = self.rst_in[e].contains(&id) || self.rst_out[e].contains(&id);
                if reset_passed && self.view[e].handles.iter().any(|h| h.alive && h.port == Some(*port)) { return Some("stream still held"); }
            }
        }
        None
    }

    #[allow(clippy::too_many_lines)]
    fn observe(&mut self, e: usize, t: &[&str], out: &str) {
        // flow-id reuse is noticed when the id is drawn (the frame that carries it may be held back
        // by the sink): an id the generator hands out that has already appeared in a frame
        if !self.reused && t[0] != "rng" {
            let n = self.drawn_seen[e];
            let drawn: Vec<u32> = self.sims[e].rng.drawn.lock().map(|d| d[n.min(d.len())..].to_vec()).unwrap_or_default();
            self.drawn_seen[e] += drawn.len();
            if std::env::var("PVH_DBG").is_ok() { eprintln!("drawn {e} {:x?} seen {:x?}", drawn, self.seen_ids); }
            if drawn.iter().any(|id| self.seen_ids.contains(id)) { self.any_reuse = true; }
            // (an id the endpoint itself holds an unaccepted incoming stream for is not a *re*-use: nothing has
            // let go of it — proposing it is judged by `connect-id-in-use`)
            if drawn.iter().any(|id| self.seen_ids.contains(id) && !self.tabled[e].contains(id) && !self.abandoned[e].contains(id) && !self.reuse_is_clean(*id)) {
                self.reused = true;
            }
        }
        let (res, evs) = out.split_once(" | ").unwrap_or((out, ""));
        let res_t: Vec<&str> = res.split(' ').collect();
        let clean = !self.injected;
        // C07: a requester makes at most `max_flow_id_retries` attempts per stream request — one Connect
        // each, all carrying the request's port (the harness gives every request its own port); the events
        // of a step with several deliveries / calls are looked at once
        if !self.skip_events {
            let this_port: Option<u64> = if t[0] == "open" { t.get(3).and_then(|x| x.parse().ok()) } else { None };
            for ev in evs.split("; ") {
                let Some(h) = ev.strip_prefix("wire ") else { continue };
                let Some((0, id, p)) = parse_frame(h) else { continue };
                if p.len() < 6 { continue; }
                let port = u64::from(u16::from_be_bytes([p[4], p[5]]));
                let mine = self.open_ports.get(&port).is_some_and(|x| x.0 == e) || this_port == Some(port);
                if !mine { continue; }
                let c = self.connects_sent.entry((e, port)).or_insert(0);
                *c += 1;
                if *c > self.opts[e].max_retries {
                    let msg = format!("endpoint {} has put {} Connect frames on the wire for its stream request to port {port} (the latest with flow id {id:08x}); max_flow_id_retries is {}: a rejected requester makes at most that many attempts before failing with FlowIdRejected", NAMES[e], *c, self.opts[e].max_retries);
                    if !self.fails.iter().any(|f| f.0 == "C07" && f.1 == "retry-bound") {
                        self.fails.push(("C07".into(), "retry-bound".into(), msg));
                    }
                }
            }
        }
        // while the sink holds frames back, the wire lags behind the flow table: the in-use shadow
        // is not maintained then (nor on the stimulus that releases the held frames)
        // (wave 9b: nor while the task of the endpoint has not run yet — nothing delivered is dispatched, nothing
        // queued goes out — nor on the stimulus that is its first poll)
        let lagging = self.sink_blocked[e] || matches!(t[0], "sinkblock" | "sinkgrant" | "sinkunblock") || self.w9b.unstarted[e] || t[0] == "start";
        if lagging {
            self.est[e].clear();
            self.pend[e].clear();
            self.inc[e].clear();
            self.tabled[e].clear(); self.abandoned[e].clear();
            self.bind_wire[e].clear();
            self.tabled[e].clear(); self.abandoned[e].clear();
        }
        // endpoint e is running: no terminating stimulus so far, task not finished
        let up_e = !self.view[e].exited && self.view[e].terminated_by.is_none();
        let both_up = up_e && !self.view[1 - e].exited && self.view[1 - e].terminated_by.is_none();
        // C11, the receiving side: "a datagram is lost only when the receiver's datagram buffer is full or the
        // connection ends". A shadow of the buffer: a valid Datagram frame that reaches a running endpoint
        // whose receive loop is certainly not held up goes into the buffer if it has room (it is dropped,
        // legitimately, if it has none); `get_datagram` hands the buffer out in order. The shadow is given up
        // as soon as anything makes its content uncertain.
        if t[0] == "deliver" && self.dg_q_ok[e] {
            let held_up = self.backlog[e][0] >= self.opts[e].accept_cap || (self.opts[e].bind_cap > 0 && self.backlog[e][1] >= self.opts[e].bind_cap);
            if !(up_e && self.view[e].mux_alive) || held_up {
                self.dg_q_ok[e] = false;
            } else if t.get(1) == Some(&"bin") {
                if let Some((6, id, p)) = t.get(2).and_then(|h| parse_frame(h)) {
                    if frame_valid(t[2]) && p.len() >= 3 && p.len() >= 3 + p[0] as usize {
                        let hl = p[0] as usize;
                        if self.dg_q[e].len() < self.opts[e].dgram_cap {
                            self.dg_q[e].push_back(format!("{} {} {} {}", id, hexd(&p[3..3 + hl]), u16::from_be_bytes([p[1], p[2]]), hexz(&p[3 + hl..])));
                        }
                    } else {
                        self.dg_q_ok[e] = false;
                    }
                } else if t.get(2).is_some_and(|h| !frame_valid(h)) {
                    self.dg_q_ok[e] = false;
                }
            } else if !matches!(t[1], "ping" | "pong") {
                self.dg_q_ok[e] = false;
            }
        }
        if t[0] == "deliver" && t.get(1) == Some(&"bin") {
            if let Some((op, id, _)) = t.get(2).and_then(|h| parse_frame(h)) {
                if op != 6 {
                    // any stream frame for this id that reaches e may be the reason for a later Reset
                    self.bind_wire[e].remove(&id);
                    if op == 2 {
                        self.rst_in[e].insert(id);
                    }
                    if op == 5 && frame_valid(t[2]) && clean && !lagging && up_e {
                        self.bind_wire[e].insert(id, 1);
                    }
                    if op == 5 {
                        let sure = frame_valid(t[2]) && self.opts[e].bind_cap > 0 && up_e && self.view[e].mux_alive && !self.in_batch
                            && self.backlog[e][0] < self.opts[e].accept_cap && self.backlog[e][1] < self.opts[e].bind_cap;
                        if sure { self.bind_due[e] += 1; } else { self.bind_unsure[e] = true; }
                    }
                    if op == 2 && frame_valid(t[2]) && up_e && !lagging && !self.in_batch
                        && self.backlog[e][0] < self.opts[e].accept_cap && (self.opts[e].bind_cap == 0 || self.backlog[e][1] < self.opts[e].bind_cap) {
                        // C05: the peer's Reset of an established stream reaches a running endpoint whose receive
                        // loop is not held up: from now on writes on that stream fail with BrokenPipe — also when
                        // the peer had finished its own direction before (half-close, then abort)
                        if let Some(h) = self.est[e].get(&id).copied() {
                            self.peer_reset.insert((e, h));
                            *self.mon.entry("reset-delivered-to-stream/watched").or_insert(0) += 1;
                        }
                    }
                    if (op == 2 || op == 3) && frame_valid(t[2]) { self.bind_ids[e].remove(&id); }
                    if op == 2 && frame_valid(t[2]) && up_e && !lagging { self.free_ids[e].insert(id); }
                    if op == 0 && frame_valid(t[2]) && id != 0 && self.free_ids[e].contains(&id) && up_e && self.view[e].mux_alive && !self.in_batch && !lagging {
                        // C06: once an endpoint has let go of a flow id, the id is free there - a Connect on it is
                        // a new stream, to be acknowledged, not "in use"
                        *self.mon.entry("connect-on-released-id/judged").or_insert(0) += 1;
                        let reset_id = format!("wire {}", hexd(&[&[0x72u8][..], &id.to_be_bytes()[..]].concat()));
                        if evs.split("; ").any(|x| x == reset_id) {
                            let msg = format!("endpoint {} had let go of flow id {id:08x} (it reset the flow itself, or was told the peer reset it) and has not taken it up again, yet it answers a Connect on that id with a Reset as if the id were in use: its flow table still holds state for a stream neither application has", NAMES[e]);
                            if !self.fails.iter().any(|f| f.0 == "C06" && f.1 == "id-not-released") {
                                self.fails.push(("C06".into(), "id-not-released".into(), msg));
                            }
                        }
                    }
                    if op == 0 { self.free_ids[e].remove(&id); }
                    if op == 0 {
                        // the Connect is dispatched at once (the receive loop is not waiting on an earlier item): unless
                        // it is refused in this very step, the flow is the endpoint's from now on — also while the
                        // hand-over to a full accept queue is still waiting
                        let waiting = self.backlog[e][0] > self.opts[e].accept_cap || (self.opts[e].bind_cap > 0 && self.backlog[e][1] > self.opts[e].bind_cap);
                        let reset_id = format!("wire {}", hexd(&[&[0x72u8][..], &id.to_be_bytes()[..]].concat()));
                        let refused = evs.split("; ").any(|x| x == reset_id);
                        let known = self.est[e].contains_key(&id) || self.pend[e].contains_key(&id) || self.tabled[e].contains(&id);
                        if frame_valid(t[2]) && id != 0 && up_e && self.view[e].mux_alive && !lagging && !self.in_batch && !waiting && !refused && !known && clean {
                            self.tabled[e].insert(id);
                        }
                    }
                    if op == 2 { self.tabled[e].remove(&id); }
                    if matches!(op, 1 | 2 | 3) { self.abandoned[e].remove(&id); }
                    if op == 0 { self.backlog[e][0] += 1; }
                    if op == 5 { self.backlog[e][1] += 1; }
                    if op == 0 {
                        // a Connect delivered to e: accounting for this id restarts, its answer is the handshake
                        self.hs_pending[e].insert(id);
                        self.pushes_in[e].remove(&id);
                        self.acked_out[e].remove(&id);
                    }
                    if op == 4 { *self.pushes_in[e].entry(id).or_insert(0) += 1; }
                    // what reaches the task of an endpoint that is running — or winding down after a LOCAL drop of
                    // its Multiplexor, which keeps dispatching what the peer still sends — for a stream its
                    // application holds: the reader is owed exactly these bytes, then the end
                    if matches!(op, 3 | 4) && frame_valid(t[2]) {
                        let held_up = self.backlog[e][0] >= self.opts[e].accept_cap || (self.opts[e].bind_cap > 0 && self.backlog[e][1] >= self.opts[e].bind_cap);
                        let local_only = !self.view[e].exited && matches!(self.view[e].terminated_by.as_deref(), None | Some("dropmux")) && !self.ep_faulted[e] && !held_up;
                        // (the handle of this flow at e: the in-use shadow, or — it is emptied by a local drop — the
                        // pairing of the stream request's port with the handles both applications got)
                        let hh = self.est[e].get(&id).copied().or_else(|| {
                            if self.any_reuse { return None; }
                            let port = self.fid_port.get(&id)?;
                            self.port_handle.get(port).and_then(|ent| ent[e])
                        }).filter(|h| self.view[e].handles.get(*h).is_some_and(|hi| hi.alive));
                        if let Some(h) = hh {
                            if local_only && !lagging && !self.in_batch {
                                if op == 4 {
                                    if let Some((_, _, p)) = parse_frame(t[2]) { self.delivered_bytes.entry((e, h)).or_default().extend_from_slice(&p); }
                                } else {
                                    self.fin_seen[e].insert((e, h));
                                }
                            } else {
                                self.delivered_unsure.insert((e, h));
                            }
                        }
                    }
                }
            }
        }
        match (t[0], res_t.as_slice()) {
            ("open", ["started"]) => {
                let req: u64 = t[1].parse().unwrap();
                let port: u64 = t[3].parse().unwrap();
                self.view[e].opens.insert(req, (unhex(t[2]).unwrap(), port));
                self.open_ports.insert(port, (e, req));
            }
            ("cancelopen", ["unit"]) => {
                let req: u64 = t[1].parse().unwrap();
                self.view[e].opens.remove(&req);
                self.cancelled = true;
                // (the request's slot stays in the table until the peer answers: its id is still in use)
                let ids: Vec<u32> = self.pend[e].iter().filter(|(_, r)| **r == req).map(|(id, _)| *id).collect();
                if up_e && !lagging { self.abandoned[e].extend(ids); }
                self.pend[e].clear();
            }
            ("accept", ["stream", h, host, port]) => {
                self.backlog[e][0] = self.backlog[e][0].saturating_sub(1);
                let h: usize = h.parse().unwrap();
                let port: u64 = port.parse().unwrap();
                // (from now on the application holds the stream: `est` / the handle views take over)
                match self.inc[e].get(&port) { Some(id) => { self.tabled[e].remove(id); } None => self.tabled[e].clear() }
                let mut hi = HInfo { alive: true, ..HInfo::default() };
                if let Some((oe, req)) = self.open_ports.get(&port).copied() {
                    if clean {
                        hi.port = Some(port);
                        let want = self.view[oe].opens.get(&req).map(|x| x.0.clone());
                        // the opener may already have completed; keep host in open_hosts
                        let want = want.or_else(|| self.done_hosts.get(&port).cloned());
                        if let Some(w) = want {
                            if hexd(&w) != *host {
                                self.fail("C07", "accept-host", format!("accepted stream shows host {host}, requested {}", hexd(&w)));
                            }
                        }
                        let dup = self.port_handle.get(&port).is_some_and(|ent| ent[e].is_some());
                        if dup {
                            self.fail("C07", "double-accept", format!("two streams accepted for one request (port {port})"));
                        }
                        self.port_handle.entry(port).or_insert([None, None])[e] = Some(h);
                    }
                }
                while self.view[e].handles.len() <= h {
                    self.view[e].handles.push(HInfo::default());
                }
                self.view[e].handles[h] = hi;
                self.exchanged = true;
                if let Some(id) = self.inc[e].remove(&port) {
                    self.est[e].insert(id, h);
                }
            }
            ("write" | "writev" | "wpush", r) => {
                let h: usize = t[1].parse().unwrap();
                let data: Vec<u8> = t[2..].iter().flat_map(|p| unhex(p).unwrap()).collect();
                // C03, "one write consumes exactly one unit of credit": with the sink open the task hands
                // every queued frame to the transport before it is quiescent again, so the Push frames of
                // this call are the Push frames among the events of this step — exactly one for a call
                // that was accepted with a payload (any accepted `wpush`), none for a call left pending
                if both_up && !lagging && self.view[e].mux_alive && !self.in_batch {
                    let pushes = evs.split("; ").filter(|ev| ev.strip_prefix("wire ").and_then(parse_op) == Some(4)).count();
                    let want = match r {
                        ["wrote", n] if t[0] == "wpush" || *n != "0" => Some(1),
                        ["wrote", _] | ["pending"] => Some(0),
                        _ => None,
                    };
                    if let Some(want) = want {
                        *self.mon.entry("write-credit-units/judged").or_insert(0) += 1;
                        if pushes != want {
                            let msg = format!("`{} {} {h} ({} bytes)` on {} answered `{res}` and put {pushes} Push frame(s) on the wire: one write costs exactly one unit of the peer's window, a write that is left pending none", t[0], NAMES[e], data.len(), NAMES[e]);
                            self.fail("C03", "write-credit-units", msg);
                        }
                    }
                }
                match r {
                    ["wrote", n] => {
                        let n: usize = n.parse().unwrap();
                        if clean && !self.reused && (!data.is_empty() || t[0] == "wpush") && self.peer_reset.contains(&(e, h)) {
                            let msg = format!("a write (`{}`) on {}#{h} was accepted ({n} bytes) after the peer's Reset of that stream had been processed", t[0], NAMES[e]);
                            self.fail("C05", "write-after-peer-abort", msg.clone());
                            // C06: "the peer's later writes fail with a broken-pipe error"
                            self.fail("C06", "write-after-peer-abort", msg);
                        }
                        if n != data.len() {
                            self.fail("C02", "short-write", format!("write of {} bytes reported {n}", data.len()));
                        }
                        if n > 0 || t[0] == "wpush" { self.acc_push[e] += 1; }
                        self.view[e].handles[h].written.extend_from_slice(&data[..n.min(data.len())]);
                        self.view[e].handles[h].pending_write = None;
                        if self.view[e].handles[h].shutdown && !data.is_empty() {
                            self.fail("C05", "write-after-shutdown", "a write after local shutdown was accepted".into());
                        }
                    }
                    ["pending"] => {
                        if clean && !self.reused && self.peer_reset.contains(&(e, h)) {
                            self.fail("C05", "writer-parked-after-peer-abort", format!("a write on {}#{h} is left pending although the peer's Reset of that stream had been processed", NAMES[e]));
                        }
                        self.view[e].handles[h].pending_write = Some(data);
                        self.view[e].handles[h].pending_op = match t[0] { "wpush" => "wpush", "writev" => "writev", _ => "write" };
                        self.view[e].handles[h].pending_toks = if t[0] == "writev" { t[2..].iter().map(|x| (*x).to_string()).collect() } else { vec![] };
                    }
                    ["brokenpipe"] => {
                        self.view[e].handles[h].broken = true;
                        self.view[e].handles[h].pending_write = None;
                    }
                    _ => {}
                }
                // (wave 9a) the window monitors: what the writer was allowed against what the peer advertised
                match r {
                    ["wrote", n] if t[0] == "wpush" || *n != "0" => self.window_watch(e, h, 1, false, lagging, up_e),
                    ["pending"] => self.window_watch(e, h, 0, true, lagging, up_e),
                    _ => {}
                }
            }
            // (wave 9a) a run of one-byte writes made back to back, cut at the first that is not accepted
            ("writemany", ["many", cnt, last @ ..]) if last.first() != Some(&"badhandle") => {
                let h: usize = t[1].parse().unwrap();
                let k: usize = t[3].parse().unwrap_or(0);
                let cnt: usize = cnt.parse().unwrap_or(0);
                if both_up && !lagging && self.view[e].mux_alive && !self.in_batch {
                    let pushes = evs.split("; ").filter(|ev| ev.strip_prefix("wire ").and_then(parse_op) == Some(4)).count();
                    *self.mon.entry("write-credit-units/judged").or_insert(0) += 1;
                    if pushes != cnt {
                        let msg = format!("`{}` on {} answered `{res}` and put {pushes} Push frame(s) on the wire: one accepted write costs exactly one unit of the peer's window and sends one frame", t.join(" "), NAMES[e]);
                        self.fail("C03", "write-credit-units", msg);
                    }
                }
                if h < self.view[e].handles.len() {
                    if cnt > 0 && clean && !self.reused && self.peer_reset.contains(&(e, h)) {
                        let msg = format!("writes (`{}`) on {}#{h} were accepted ({cnt}) after the peer's Reset of that stream had been processed", t.join(" "), NAMES[e]);
                        self.fail("C05", "write-after-peer-abort", msg.clone());
                        self.fail("C06", "write-after-peer-abort", msg);
                    }
                    if cnt > 0 && self.view[e].handles[h].shutdown {
                        self.fail("C05", "write-after-shutdown", "a write after local shutdown was accepted".into());
                    }
                    self.acc_push[e] += cnt as u64;
                    self.view[e].handles[h].written.extend((0..cnt).map(|j| ((k + j) % 251) as u8));
                    self.view[e].handles[h].pending_write = None;
                    match last.first().copied() {
                        Some("pending") => {
                            self.view[e].handles[h].pending_write = Some(vec![((k + cnt) % 251) as u8]);
                            self.view[e].handles[h].pending_op = "write";
                            self.view[e].handles[h].pending_toks = vec![];
                        }
                        Some("brokenpipe") => { self.view[e].handles[h].broken = true; }
                        _ => {}
                    }
                    self.window_watch(e, h, cnt as u64, last.first() == Some(&"pending"), lagging, up_e);
                }
            }
            // (wave 9a) a read into a buffer without room (`read(&mut [])`, the readiness probe) hands out nothing
            // whatever the state of the stream: at the `AsyncRead` level its completion looks like end-of-stream
            // and says nothing — what it must not do is change what the reads after it return
            ("read", _) if t.get(2) == Some(&"0") => {
                *self.mon.entry("zero-room-read").or_insert(0) += 1;
            }
            ("read", r) => {
                let h: usize = t[1].parse().unwrap();
                match r {
                    ["data", d] => {
                        let d = unhex(d).unwrap();
                        if self.view[e].handles[h].eof && clean {
                            self.fail("C05", "data-after-eof", "a read returned data after end-of-stream".into());
                        }
                        self.view[e].handles[h].read.extend_from_slice(&d);
                        self.check_prefix(e, h);
                    }
                    ["eof"] => {
                        self.view[e].handles[h].eof = true;
                        // end-of-stream caused by the peer's abort proves that its Reset has been processed
                        // here: from now on writes on this handle must fail
                        if let Some((pe, ph)) = self.peer_handle(e, h) {
                            if self.aborted.get(&(pe, ph)) == Some(&true) {
                                self.peer_reset.insert((e, h));
                            }
                        }
                        self.check_eof(e, h);
                    }
                    _ => {}
                }
            }
            ("shutdown", ["unit"]) => {
                let h: usize = t[1].parse().unwrap();
                if !self.view[e].handles[h].shutdown && !self.view[e].handles[h].broken {
                    self.finished_cleanly.insert((e, h), true);
                }
                self.view[e].handles[h].shutdown = true;
            }
            ("dropstream" | "dropmany", ["unit"]) => {
              for h in t[1..].iter().filter_map(|x| x.parse::<usize>().ok()) {
                if h >= self.view[e].handles.len() || !self.view[e].handles[h].alive { continue; }
                // the notification is matched by flow id only (known finding): forget everything
                self.est[e].clear();
                self.pend[e].clear();
                self.inc[e].clear();
                self.tabled[e].clear(); self.abandoned[e].clear();
                // C06, "the peer is told": the application lets go of a stream it has not shut down while
                // the peer application may still be reading it. Unless a Reset of that flow has already
                // passed in either direction, only a Reset from this endpoint can end the peer's reads,
                // and with the sink open it is on the wire when the endpoint is quiescent again.
                let hi = self.view[e].handles[h].clone();
                if clean && !self.reused && !lagging && both_up && !hi.shutdown && !hi.broken {
                    if let Some(p) = hi.port {
                        let mut ids: Vec<u32> = self.fid_port.iter().filter(|(_, pp)| **pp == p).map(|(f, _)| *f).collect();
                        ids.sort_unstable();
                        let peer_gone = self.port_handle.get(&p).and_then(|ent| ent[1 - e]).is_some_and(|ph| !self.view[1 - e].handles[ph].alive);
                        let told_before = ids.iter().any(|id| self.rst_in[e].contains(id) || self.rst_out[e].contains(id));
                        let told_now = ids.iter().any(|id| {
                            let m = format!("wire {}", hexd(&[&[0x72u8][..], &id.to_be_bytes()[..]].concat()));
                            evs.split("; ").any(|ev| ev == m)
                        });
                        if !ids.is_empty() && !peer_gone && !told_before {
                            *self.mon.entry("abort-signalled/judged").or_insert(0) += 1;
                        }
                        if !ids.is_empty() && !peer_gone && !told_before && !told_now {
                            let msg = format!("the application of {} dropped stream #{h} (flow {}) without shutting it down while the connection is up and no Reset of that flow had passed; endpoint {} is quiescent and has put no Reset for it on the wire: the peer is never told of the abort (events of the step: {})",
                                NAMES[e], ids.iter().map(|i| format!("{i:08x}")).collect::<Vec<_>>().join("/"), NAMES[e], if evs.is_empty() { "none" } else { evs });
                            self.fail("C06", "abort-not-signalled", msg);
                        }
                    }
                }
                self.view[e].handles[h].alive = false;
                if !self.view[e].handles[h].shutdown {
                    self.aborted.insert((e, h), true);
                }
                self.aborted.entry((e, h)).or_insert(false);
              }
            }
            ("dgsend", ["unit"]) => {
                self.acc_dgram[e] += 1;
                self.view[e].dg_sent.push(format!("{} {} {} {}", t[1], t[2], t[3], t[4]));
                if up_e && self.view[e].mux_alive {
                    self.dg_owed[e].push_back(format!("{} {} {} {}", t[1], t[2], t[3], t[4]));
                }
            }
            ("dgsend", ["toolong"]) => {
                if unhex(t[2]).unwrap().len() <= 255 {
                    self.fail("C11", "toolong-wrong", "send_datagram refused a host of at most 255 bytes".into());
                }
            }
            ("dgrecv", ["dgram", fid, host, port, d]) => {
                self.view[e].dg_recv.push(format!("{fid} {host} {port} {d}"));
                self.exchanged = true;
                if self.dg_q_ok[e] && up_e {
                    *self.mon.entry("dgram-buffer-shadow/judged").or_insert(0) += 1;
                    let got = format!("{fid} {host} {port} {d}");
                    match self.dg_q[e].pop_front() {
                        Some(x) if x == got => {}
                        Some(x) => {
                            let msg = format!("endpoint {}: `get_datagram` returned `{got}` while the oldest datagram that reached the endpoint with room in its datagram buffer (capacity {}), and has not been handed out, is `{x}`: that one was lost although the buffer was not full and the connection is up (or the order changed)", NAMES[e], self.opts[e].dgram_cap);
                            self.fail("C11", "dgram-lost-with-room", msg);
                            self.dg_q_ok[e] = false;
                        }
                        None => { self.dg_q_ok[e] = false; }
                    }
                }
                if clean && !self.faulted {
                    // subsequence of what the peer sent
                    let sent = &self.view[1 - e].dg_sent;
                    let mut it = sent.iter();
                    let ok = self.view[e].dg_recv.iter().all(|r| it.any(|s| s == r));
                    if !ok {
                        self.fail("C11", "dgram-subsequence", format!("received datagrams {:?} are not a subsequence of those sent {:?}", self.view[e].dg_recv, sent));
                    }
                }
            }
            ("dgrecv", ["pending"]) => {
                if self.dg_q_ok[e] && up_e && self.view[e].mux_alive {
                    *self.mon.entry("dgram-buffer-shadow/judged").or_insert(0) += 1;
                    if let Some(x) = self.dg_q[e].front().cloned() {
                        let msg = format!("endpoint {}: `get_datagram` has nothing to return although the datagram `{x}` reached the endpoint while its datagram buffer (capacity {}) had room and the connection is up: it was lost", NAMES[e], self.opts[e].dgram_cap);
                        self.fail("C11", "dgram-lost-with-room", msg);
                        self.dg_q_ok[e] = false;
                    }
                }
            }
            ("bindreq", ["started"]) => {
                self.view[e].binds.insert(t[1].parse().unwrap(), 0);
                self.bind_ports.insert(t[4].parse().unwrap(), (e, t[1].parse().unwrap()));
            }
            ("bindreply", ["unit"]) => {
                let k: usize = t[1].parse().unwrap();
                if !self.replied.insert((e, k)) {
                    self.double_reply = true;
                }
                if let Some(port) = self.bind_held.get(&(e, k)).copied() {
                    // the first answer counts
                    self.bind_decision.entry(port).or_insert(t[2] == "1");
                }
            }
            ("bindnext", ["pending"]) => {
                // C15: a Bind request that reached a running endpoint with binds enabled, its application
                // present and room in the bind queue is shown to the application when it asks
                if self.bind_due[e] > 0 && !self.bind_unsure[e] && up_e && self.view[e].mux_alive && !self.in_batch {
                    let msg = format!("`next_bind_request` on {} is pending although {} Bind request(s) were delivered to it while it was running with binds enabled (queue capacity {}), its application present and room in the queue, and have not been shown yet: the request is withheld from the application", NAMES[e], self.bind_due[e], self.opts[e].bind_cap);
                    if !self.fails.iter().any(|f| f.0 == "C15" && f.1 == "bind-request-withheld") {
                        self.fails.push(("C15".into(), "bind-request-withheld".into(), msg));
                    }
                }
            }
            ("bindnext", ["bindreq", k, _fid, ty, host, port]) => {
                self.backlog[e][1] = self.backlog[e][1].saturating_sub(1);
                self.bind_due[e] = self.bind_due[e].saturating_sub(1);
                *self.mon.entry("bind-shown/judged").or_insert(0) += 1;
                let k: usize = k.parse().unwrap();
                let port: u64 = port.parse().unwrap();
                if clean {
                    if let Some((re, _req)) = self.bind_ports.get(&port).copied() {
                        if re == 1 - e {
                            self.bind_held.insert((e, k), port);
                            let sent = self.steps.iter().rev().find(|st| st.line.starts_with(&format!("bindreq {} ", NAMES[re])) && st.line.ends_with(&format!(" {port}")));
                            if let Some(st) = sent {
                                let f: Vec<&str> = st.line.split(' ').collect();
                                if f[3] != *ty || f[4] != *host {
                                    self.fail("C15", "bind-fields", format!("the peer application is shown type {ty} host {host}, requested was `{}`", st.line));
                                }
                            }
                        }
                    }
                }
                while self.view[e].held.len() <= k {
                    self.view[e].held.push(false);
                }
                self.view[e].held[k] = true;
                self.exchanged = true;
            }
            ("binddrop", ["unit"]) => {
                let k: usize = t[1].parse().unwrap();
                self.view[e].held[k] = false;
                if let Some(port) = self.bind_held.get(&(e, k)).copied() {
                    self.bind_decision.entry(port).or_insert(false);
                }
            }
            ("dropmux", ["unit"]) => {
                self.tabled[e].clear(); self.abandoned[e].clear();
                self.view[e].mux_alive = false;
                self.view[e].terminated_by = Some("dropmux".into());
                self.est[e].clear();
                self.pend[e].clear();
                self.inc[e].clear();
                self.tabled[e].clear(); self.abandoned[e].clear();
            }
            ("deliver", _) => {
                let invalid_frame = t[1] == "bin" && t.get(2).is_some_and(|h| !frame_valid(h));
                if matches!(t[1], "err" | "eof" | "close" | "closeerr" | "err2" | "closemany") || invalid_frame {
                    // C08: the end of the connection is acted on at once — the peer closed or the transport
                    // failed, the source yields nothing more — without waiting for the application to do
                    // anything (take a stream, read, …). Judged when the task was certainly not parked on a
                    // full accept / bind queue, the sink is not held and this is the first such event.
                    let not_parked = self.backlog[e][0] < self.opts[e].accept_cap && (self.opts[e].bind_cap == 0 || self.backlog[e][1] < self.opts[e].bind_cap);
                    // (an end by error — an undecodable frame, a failing transport — is acted on whether or not the sink
                    // takes anything: nothing is flushed then, the close is tried once and not waited for)
                    let error_end = invalid_frame || matches!(t[1], "err" | "err2");
                    if !self.view[e].exited && self.view[e].terminated_by.is_none() && (!self.sink_blocked[e] || error_end) && not_parked && !self.in_batch && !self.w9b.unstarted[e] {
                        *self.mon.entry("exit-at-end/judged").or_insert(0) += 1;
                        if !evs.split("; ").any(|ev| ev.starts_with("exit ")) {
                            let msg = format!("endpoint {} was given `{}` (the connection has ended, its source yields nothing more; its receive loop was not waiting on a full queue, its sink accepts messages) and its task did not finish: every pending operation now waits for something the application may never do (events of the step: {})", NAMES[e], t.join(" "), if evs.is_empty() { "none" } else { evs });
                            if invalid_frame {
                                // C10: a message that is not a valid frame ends the connection, with an error
                                // every pending operation observes — whether or not the peer goes on to close
                                let msg = format!("{msg} [the message is not a valid frame: PROTOCOL.md has the connection end with an error here, whatever the peer does next]");
                                self.fail("C10", "end-not-acted-on", msg.clone());
                                self.fail("C08", "end-not-acted-on", msg);
                            } else {
                                self.fail("C08", "end-not-acted-on", msg);
                            }
                        }
                    }
                    self.view[e].terminated_by = Some(if invalid_frame { "bad".into() } else { t[1].into() });
                    self.faulted = true;
                    self.ep_faulted[e] = true;
                }
                if t[1] != "bin" || !frame_valid(t[2]) {
                    if !matches!(t[1], "ping" | "pong") {
                        self.est[e].clear();
                        self.pend[e].clear();
                        self.inc[e].clear();
                        self.tabled[e].clear(); self.abandoned[e].clear();
                    }
                } else if let Some((op, id, p)) = parse_frame(t[2]) {
                    let evl: Vec<&str> = evs.split("; ").filter(|s| !s.is_empty()).collect();
                    let reset_id = format!("wire {}", hexd(&[&[0x72u8][..], &id.to_be_bytes()[..]].concat()));
                    let in_use = self.est[e].contains_key(&id) || self.pend[e].contains_key(&id) || self.inc[e].values().any(|v| *v == id);
                    let up = !self.view[e].exited && self.view[e].terminated_by.is_none();
                    if !self.in_batch && op == 5 && frame_valid(t[2]) && up && self.view[e].mux_alive && self.opts[e].bind_cap > 0 && evl.contains(&reset_id.as_str()) {
                        // C15: with binds enabled and the Multiplexor alive, a Bind request is the application's
                        // to decide — whatever its flow id (the reply carries nothing but the id; the acceptor's
                        // own flow table is not consulted). A Reset in the very step that receives it is a
                        // refusal nobody made.
                        let msg = format!("endpoint {} (binds enabled, application present) answered the Bind frame {} with a Reset at once, without handing the request to its application: {}", NAMES[e], t[2], evl.join("; "));
                        if !self.fails.iter().any(|f| f.0 == "C15" && f.1 == "bind-reset-unasked") {
                            self.fails.push(("C15".into(), "bind-reset-unasked".into(), msg));
                        }
                    }
                    if !self.in_batch && op == 2 && evl.contains(&reset_id.as_str()) {
                        // C10 / PROTOCOL.md: never a Reset in reply to a Reset (whatever the id, 0 included)
                        let msg = format!("endpoint {} answered the Reset frame {} with a Reset of the same flow ({}): two such endpoints would bounce it for ever", NAMES[e], t[2], evl.join("; "));
                        if !self.fails.iter().any(|f| f.0 == "C10" && f.1 == "reset-answered-with-reset") {
                            self.fails.push(("C10".into(), "reset-answered-with-reset".into(), msg));
                        }
                    }
                    if !self.in_batch && op == 6 && up && !evl.is_empty() {
                        // C11: a datagram is queued for the application or dropped; nothing else happens
                        let msg = format!("endpoint {} reacted to the datagram frame {} with: {}", NAMES[e], t[2], evl.join("; "));
                        self.fail("C11", "dgram-disturbs", msg);
                    }
                    match op {
                        0 if in_use && up && !self.in_batch => {
                            // C07 / C10: a Connect whose id is in use is answered with a Reset and nothing else
                            // happens (the Reset may be held back by a blocked sink)
                            let ok = evl.len() <= 1 && evl.iter().all(|x| **x == reset_id);
                            if !ok {
                                let how = if self.pend[e].contains_key(&id) { "a pending open request" } else { "an established stream" };
                                let msg = format!("endpoint {} received a Connect on flow {id:08x}, which is in use by {how}; besides the rejecting Reset it did: {}", NAMES[e], evl.join("; "));
                                // recorded without the reuse suffix: the flow that owns the id is current
                                // (for an established stream this is also C06: the id is not free while the
                                // application holds the stream)
                                let props: &[&str] = if self.pend[e].contains_key(&id) { &["C07", "C10"] } else { &["C07", "C10", "C06"] };
                                for prop in props.iter().copied() {
                                    if !self.fails.iter().any(|f| f.0 == prop && f.1 == "collision-disturbs-existing") {
                                        self.fails.push((prop.into(), "collision-disturbs-existing".into(), msg.clone()));
                                    }
                                }
                            }
                        }
                        0 => {
                            if p.len() >= 6 && up && evl.iter().all(|x| !x.starts_with("wire 72")) {
                                self.inc[e].insert(u64::from(u16::from_be_bytes([p[4], p[5]])), id);
                            }
                        }
                        4 => {
                            if let Some(hi) = self.est[e].get(&id).copied().and_then(|h| self.view[e].handles.get(h)) {
                                if !self.in_batch && clean && !self.reused && up && hi.alive && !hi.eof && evl.contains(&reset_id.as_str()) {
                                    let msg = format!("endpoint {} reset flow {id:08x} on receiving a Push although its application holds the stream open for reading and both ends are conforming endpoints (receive window overrun)", NAMES[e]);
                                    self.fail("C03", "reset-for-overrun", msg.clone());
                                    // C06: … and whatever the reason, a stream both applications hold is reset
                                    // by a frame of its own conforming peer: state that belongs to no current
                                    // stream (a previous holder of the id, a stale cache) decided its fate
                                    self.fail("C06", "live-stream-reset-on-push", msg);
                                }
                            }
                        }
                        1 => {
                            // the answer to e's Connect: the handle is learnt at `opendone`
                            if let Some(req) = self.pend[e].remove(&id) {
                                for ev in &evl {
                                    let et: Vec<&str> = ev.split(' ').collect();
                                    if let ["opendone", r, "ok", h] = et.as_slice() {
                                        if r.parse::<u64>().ok() == Some(req) {
                                            if let Ok(h) = h.parse::<usize>() { self.est[e].insert(id, h); }
                                        }
                                    }
                                }
                            }
                        }
                        _ => {}
                    }
                    // an established flow stays in the table through Finish in either direction (until
                    // the application drops the stream or a Reset passes)
                    if op == 2 {
                        self.est[e].remove(&id);
                    }
                    if matches!(op, 2 | 3 | 5) {
                        self.pend[e].remove(&id);
                        self.inc[e].retain(|_, v| *v != id);
                    }
                }
                if t[1] == "bin" {
                    match parse_frame(t[2]) {
                        Some((1, id, p)) if p.len() >= 4 => {
                            // Acknowledge delivered to e: credit for e's pushes on `id`
                            let n = i64::from(u32::from_be_bytes([p[0], p[1], p[2], p[3]]));
                            *self.credit[e].entry(id).or_insert(0) += n;
                        }
                        Some((0, id, p)) if p.len() >= 4 => {
                            // Connect delivered to e: the peer's window is e's initial credit
                            let n = i64::from(u32::from_be_bytes([p[0], p[1], p[2], p[3]]));
                            self.credit[e].insert(id, n);
                        }
                        _ => {}
                    }
                    // (wave 9a) C07: the window the other side advertised for the stream — the number in the
                    // Connect that reaches e (unless e refuses it on the spot), or in the Acknowledge that
                    // completes e's own request; any later Acknowledge of the flow ends the watch
                    self.init_window_note(e, t[2], evs, up_e);
                }
            }
            _ => {}
        }
        let skip_events = self.skip_events;
        for ev in evs.split("; ").filter(|s| !s.is_empty() && !skip_events) {
            let et: Vec<&str> = ev.split(' ').collect();
            match et.as_slice() {
                ["wire", m] => {
                    // (judged before the frame itself joins the wire: is anything of a previous holder of its id left?)
                    if parse_frame(m).is_some_and(|(op, id, _)| (op == 0 || op == 5) && self.seen_ids.contains(&id)) { self.any_reuse = true; }
                    let reuse_meets_leftovers = parse_frame(m).is_some_and(|(op, id, _)| (op == 0 || op == 5) && self.seen_ids.contains(&id) && !self.reuse_is_clean(id));
                    self.wire[e].push_back((*m).to_string());
                    if let Some((op, id, _)) = parse_frame(m) {
                        if op == 4 { self.wire_push[e] += 1; }
                        if op == 6 { self.wire_dgram[e] += 1; }
                        // the certainly-free shadow (C06): e takes the id up when it proposes it or acknowledges a
                        // Connect on it; e has let go of it when it resets it on a local drop, or answers an
                        // Acknowledge with a Reset (nothing there, or a request its caller gave up on whose stream
                        // is closed at once) unless the id carries a bind request of e
                        match op {
                            0 | 1 => { self.free_ids[e].remove(&id); }
                            5 => { self.free_ids[e].remove(&id); self.bind_ids[e].insert(id); }
                            2 if up_e && !self.in_batch && !lagging => {
                                let local_drop = matches!(t[0], "dropstream" | "dropmany");
                                let to_ack = t[0] == "deliver" && t.get(1) == Some(&"bin") && t.get(2).and_then(|h| parse_frame(h)).is_some_and(|f| f.0 == 1 && f.1 == id) && frame_valid(t[2]);
                                if (local_drop || to_ack) && !self.bind_ids[e].contains(&id) { self.free_ids[e].insert(id); }
                            }
                            _ => {}
                        }
                        let reused_before = self.reused;
                        if reuse_meets_leftovers {
                            self.reused = true;
                        }
                        if op != 6 {
                            self.seen_ids.insert(id);
                        }
                        if op == 4 && clean {
                            let c = self.credit[e].entry(id).or_insert(0);
                            *c -= 1;
                            if *c < 0 {
                                let msg = format!("endpoint {} put a Push on flow {id:08x} on the wire without credit (window exceeded by {})", NAMES[e], -*c);
                                self.fail("C03", "window-exceeded", msg);
                            }
                        }
                        if op == 0 {
                            // e proposes the id itself: accounting restarts, every Acknowledge of e on it is a credit grant
                            self.hs_pending[e].remove(&id);
                            self.pushes_in[e].remove(&id);
                            self.acked_out[e].remove(&id);
                        }
                        if op == 1 {
                            if self.hs_pending[e].remove(&id) {
                                // the answer to a Connect: carries the window, acknowledges nothing
                            } else if let Some((_, _, p)) = parse_frame(m).filter(|(_, _, p)| p.len() >= 4) {
                                let n = u64::from(u32::from_be_bytes([p[0], p[1], p[2], p[3]]));
                                let a = self.acked_out[e].entry(id).or_insert(0);
                                *a += n;
                                let acked = *a;
                                let got = self.pushes_in[e].get(&id).copied().unwrap_or(0);
                                if clean && !self.reused {
                                    *self.mon.entry("acked-within-received/judged").or_insert(0) += 1;
                                    if acked > got {
                                        let msg = format!("endpoint {} has acknowledged {acked} frames on flow {id:08x} but only {got} Push frames of that flow have been delivered to it since the handshake: it acknowledges frames it has not consumed, or the same frames twice (the sender's credit exceeds the window)", NAMES[e]);
                                        self.fail("C03", "over-acknowledged", msg);
                                    }
                                }
                            }
                        }
                        if op == 2 {
                            self.est[e].remove(&id);
                        }
                        if op == 2 || op == 3 {
                            self.pend[e].remove(&id);
                            self.inc[e].retain(|_, v| *v != id);
                        }
                        // C15, "the flow id is free for reuse afterwards": once e has answered Bind(id) with
                        // Finish(id) the exchange is over; the requester may give the id to a new flow at once.
                        // A Reset(id) that e sends after that, without having received or sent anything else
                        // on that id, belongs to no flow and hits whatever the requester does with the id next.
                        // (Only judged while no flow id has been used twice in the case: then the id has had
                        // no other owner, and the stray frame precedes any reuse.)
                        match op {
                            3 => {
                                if let Some(st) = self.bind_wire[e].get_mut(&id) {
                                    if *st == 1 { *st = 2; *self.mon.entry("bind-accept/watched").or_insert(0) += 1; } else { self.bind_wire[e].remove(&id); }
                                }
                            }
                            2 => {
                                self.tabled[e].remove(&id);
                                self.rst_out[e].insert(id);
                                if self.bind_wire[e].remove(&id) == Some(2) && clean && !self.reused && !self.double_reply && !lagging && up_e {
                                    let msg = format!("endpoint {} answered Bind on flow {id:08x} with Finish (accepted) and afterwards, having received nothing else on that id, put Reset {id:08x} on the wire (at `{}`): the stray Reset rejects or closes whatever the requester uses the freed id for next", NAMES[e], t.join(" "));
                                    self.fail("C15", "reset-after-bind-accept", msg);
                                }
                            }
                            6 => {}
                            _ => { self.bind_wire[e].remove(&id); }
                        }
                        if op == 0 {
                            // C07: an endpoint never proposes an id it already uses (the shadows hold only
                            // ids that ARE in use at e: a stream established and held, another request of
                            // its own that is still unanswered — a rejected request may retry with the id
                            // it has just been refused)
                            let this_req = if t[0] == "open" { t[1].parse::<u64>().ok() } else { None }.or_else(|| parse_frame(m).filter(|(_, _, p)| p.len() >= 6)
                                .and_then(|(_, _, p)| self.open_ports.get(&u64::from(u16::from_be_bytes([p[4], p[5]]))).copied())
                                .filter(|(oe, _)| *oe == e).map(|(_, req)| req));
                            let other_pending = self.pend[e].get(&id).is_some_and(|r| this_req.is_some_and(|q| q != *r));
                            if clean && !lagging && !reused_before && (self.est[e].contains_key(&id) || other_pending || self.tabled[e].contains(&id) || self.abandoned[e].contains(&id)) {
                                let how = if self.est[e].contains_key(&id) { "an established stream its application still holds" } else if other_pending { "another open request of its own that is still unanswered" } else if self.abandoned[e].contains(&id) { "an open request of its own whose caller has given up and which the peer has not answered yet (its Connect is still out)" } else { "a stream of the peer whose Connect it has taken in and not refused (it waits for the application in, or at, the accept queue)" };
                                let msg = format!("endpoint {} proposed flow id {id:08x} in a Connect (at `{}`) while it uses that id for {how}", NAMES[e], t.join(" "));
                                // (recorded under its own key: the id was in use, not released and drawn again)
                                if !self.fails.iter().any(|f| f.0 == "C07" && f.1 == "connect-id-in-use") {
                                    self.fails.push(("C07".into(), "connect-id-in-use".into(), msg));
                                }
                            }
                            if let Some((_, _, p)) = parse_frame(m) {
                                if p.len() >= 6 {
                                    let port = u64::from(u16::from_be_bytes([p[4], p[5]]));
                                    self.fid_port.insert(id, port);
                                    if let Some((oe, req)) = self.open_ports.get(&port).copied() {
                                        // (a request has ONE proposal outstanding: a Connect for it under another id means the
                                        // earlier proposal was given up — refused by the peer, or its slot taken away by a stale
                                        // drop notification of an earlier stream on that id, the flow-id-reuse finding — and that
                                        // id is no longer in use by this request)
                                        if oe == e && self.view[e].opens.contains_key(&req) { self.pend[e].retain(|_, r| *r != req); self.pend[e].insert(id, req); }
                                    }
                                }
                            }
                            // a new Connect from e: accounting for this id restarts
                            self.credit[e].remove(&id);
                            if id == 0 {
                                self.fail("C07", "connect-zero", "an endpoint proposed flow id 0".into());
                            }
                        }
                    }
                }
                ["wclose"] => {
                    self.wire[e].push_back("close".into());
                    // a local drop with a healthy transport: everything queued before the drop must have
                    // been transmitted before this Close
                    if self.view[e].terminated_by.as_deref() == Some("dropmux") && !self.injected && !self.ep_faulted[e] {
                        if self.wire_push[e] < self.acc_push[e] || self.wire_dgram[e] < self.acc_dgram[e] {
                            let msg = format!("endpoint {} closed the WebSocket after a local drop with {} of {} accepted writes and {} of {} accepted datagrams transmitted", NAMES[e], self.wire_push[e], self.acc_push[e], self.wire_dgram[e], self.acc_dgram[e]);
                            self.fail("C08", "drop-loses-queued-frames", msg);
                        }
                    }
                }
                ["opendone", req, "ok", h] => {
                    let req: u64 = req.parse().unwrap();
                    let h: usize = h.parse().unwrap();
                    let mut hi = HInfo { alive: true, ..HInfo::default() };
                    if let Some((host, port)) = self.view[e].opens.remove(&req) {
                        self.done_hosts.insert(port, host);
                        if clean {
                            hi.port = Some(port);
                            self.port_handle.entry(port).or_insert([None, None])[e] = Some(h);
                        }
                    } else {
                        self.fail("C07", "open-twice", format!("open request {req} resolved twice"));
                    }
                    while self.view[e].handles.len() <= h {
                        self.view[e].handles.push(HInfo::default());
                    }
                    self.view[e].handles[h] = hi;
                    self.exchanged = true;
                }
                ["opendone", req, other] => {
                    let req: u64 = req.parse().unwrap();
                    self.pend[e].retain(|_, r| *r != req);
                    // C07: a stream request ends with a stream, with FlowIdRejected after its bounded retries, or —
                    // only when the connection has ended — with Closed. `Closed` from a running endpoint whose
                    // Multiplexor is alive, between two conforming endpoints, is a request that was lost.
                    let conn_ended = self.view[0].exited || self.view[1].exited || self.view[0].terminated_by.is_some() || self.view[1].terminated_by.is_some() || self.faulted;
                    if *other == "closed" && clean && !conn_ended && self.view[e].mux_alive && self.view[e].opens.contains_key(&req) {
                        *self.mon.entry("open-closed-while-up/judged").or_insert(0) += 1;
                        let msg = format!("stream request {req} of endpoint {} resolved `Closed` while the connection is up, its Multiplexor is alive and both ends are conforming endpoints: the request got neither a stream nor FlowIdRejected — it was dropped (at `{}`)", NAMES[e], t.join(" "));
                        self.fail("C07", "open-closed-while-up", msg);
                    }
                    if self.view[e].opens.remove(&req).is_none() {
                        self.fail("C07", "open-twice", format!("open request {req} resolved twice"));
                    }
                }
                ["binddone", req, r] => {
                    let req: u64 = req.parse().unwrap();
                    let c = self.view[e].binds.entry(req).or_insert(0);
                    *c += 1;
                    if *c > 1 {
                        self.fail("C15", "bind-twice", format!("bind request {req} resolved twice"));
                    }
                    {
                        // C15 / C10 (whatever the peer sent before, whatever ids were used twice): the only frame that
                        // answers a bind request with `false` is a Reset. A request resolved `false` by the delivery of
                        // another well-formed frame (an Acknowledge, a Push … under its id) was answered by nobody:
                        // PROTOCOL.md has such a frame answered with a Reset and the request kept.
                        let port = self.bind_ports.iter().find(|(_, v)| **v == (e, req)).map(|(p, _)| *p);
                        let decision = port.and_then(|p| self.bind_decision.get(&p).copied());
                        let conn_ended = self.view[0].exited || self.view[1].exited || self.view[0].terminated_by.is_some() || self.view[1].terminated_by.is_some();
                        let foreign = t[0] == "deliver" && t.get(1) == Some(&"bin") && t.get(2).is_some_and(|h| frame_valid(h) && parse_op(h).is_some_and(|op| op != 2));
                        if *r == "false" && foreign && decision != Some(false) && !conn_ended && !self.in_batch {
                            *self.mon.entry("bind-false-on-foreign-frame/judged").or_insert(0) += 1;
                            let msg = format!("bind request {req} of {} resolved `false` on the delivery of the well-formed frame {} — not a Reset: the peer application neither rejected nor dropped that request (decision {decision:?}) and the connection is up", NAMES[e], t[2]);
                            for prop in ["C15", "C10"] {
                                if !self.fails.iter().any(|f| f.0 == prop && f.1 == "bind-false-on-foreign-frame") {
                                    self.fails.push((prop.into(), "bind-false-on-foreign-frame".into(), msg.clone()));
                                }
                            }
                        }
                    }
                    if clean {
                        let port = self.bind_ports.iter().find(|(_, v)| **v == (e, req)).map(|(p, _)| *p);
                        let decision = port.and_then(|p| self.bind_decision.get(&p).copied());
                        let conn_ended = self.view[0].exited || self.view[1].exited || self.view[0].terminated_by.is_some() || self.view[1].terminated_by.is_some();
                        match *r {
                            "true" if decision != Some(true) => {
                                self.fail("C15", "bind-true-unaccepted", format!("bind request {req} resolved `true` but the peer application did not accept that request (decision {decision:?})"));
                            }
                            "false" if decision != Some(false) && self.opts[1 - e].bind_cap > 0 && !conn_ended => {
                                self.fail("C15", "bind-false-undecided", format!("bind request {req} resolved `false` but the peer application neither rejected nor dropped that request (decision {decision:?}) and the connection is up"));
                            }
                            "closed" if !conn_ended => {
                                self.fail("C15", "bind-closed-while-up", format!("bind request {req} resolved `Closed` while the connection is up"));
                            }
                            _ => {}
                        }
                    }
                    self.exchanged = true;
                }
                ["exit", r] => {
                    self.view[e].exited = true;
                    self.tabled[e].clear(); self.abandoned[e].clear();
                    self.est[e].clear();
                    self.pend[e].clear();
                    self.inc[e].clear();
                    if t[0] == "deliver" && t.get(1) == Some(&"bin") && t.get(2).and_then(|h| parse_frame(h)).is_some_and(|f| f.0 == 6)
                        && self.view[e].terminated_by.is_none() {
                        // the datagram was sent by the peer endpoint through `send_datagram` or injected well-formed
                        let from_peer = self.view[1 - e].dg_sent.iter().any(|_| true) || self.injected;
                        if from_peer {
                            self.fail("C11", "dgram-ends-connection", format!("endpoint {} ended its connection ({r}) on receiving the datagram frame {}", NAMES[e], t[2]));
                        }
                    }
                    if self.view[e].terminated_by.is_none() && !self.injected {
                        self.fail("C10", "unexpected-exit", format!("endpoint {} task ended ({r}) without a terminating stimulus", NAMES[e]));
                    } else if self.view[e].terminated_by.is_none() && t[0] == "deliver" && t.get(1) == Some(&"bin")
                        && t.get(2).is_some_and(|h| frame_valid(h)) {
                        self.fail("C10", "wellformed-frame-ends-connection", format!("endpoint {} task ended ({r}) on the well-formed frame {}", NAMES[e], t[2]));
                    }
                }
                _ => {}
            }
        }
        if lagging {
            self.est[e].clear();
            self.pend[e].clear();
            self.inc[e].clear();
            self.tabled[e].clear(); self.abandoned[e].clear();
        }
    }

    /// Deliver the head of the peer's wire to `e` (recorded as `next E`). False when nothing is in flight.
    fn deliver_next(&mut self, e: usize) -> bool {
        let Some(m) = self.wire[1 - e].pop_front() else { return false };
        let t = if m == "ping" || m == "pong" || m == "close" { vec![s("deliver"), m] } else { vec![s("deliver"), s("bin"), m] };
        self.next_src = Some(format!("next {}", NAMES[e]));
        self.stim(e, &t);
        self.exchanged = true;
        true
    }

    fn peer_handle(&self, e: usize, h: usize) -> Option<(usize, usize)> {
        let port = self.view[e].handles.get(h)?.port?;
        let ent = self.port_handle.get(&port)?;
        ent[1 - e].map(|ph| (1 - e, ph))
    }

    fn check_prefix(&mut self, e: usize, h: usize) {
        if self.injected {
            return;
        }
        let Some((pe, ph)) = self.peer_handle(e, h) else { return };
        let read = &self.view[e].handles[h].read;
        let written = &self.view[pe].handles[ph].written;
        let from = self.view[e].handles[h].verified.min(read.len());
        if read.len() > written.len() || read[from..] != written[from..read.len()] {
            let at = (from..read.len()).find(|&i| written.get(i) != Some(&read[i])).unwrap_or(read.len());
            let msg = format!("bytes read on {}#{h} are not a prefix of the bytes accepted by writes on {}#{ph} (first difference at offset {at}): read {} written {}", NAMES[e], NAMES[pe], abbr(read), abbr(written));
            self.fail("C02", "not-prefix", msg);
        } else {
            let n = read.len();
            self.view[e].handles[h].verified = n;
        }
    }

    fn check_eof(&mut self, e: usize, h: usize) {
        if self.injected {
            return;
        }
        // C08 / C05: whatever ended the stream or the connection, "reads return the data already delivered, then
        // end-of-stream": every byte of the Push frames that reached this endpoint's task for this stream has
        // been returned when the reader sees the end (the stream was not reset either way and is still held).
        if !self.reused && !self.delivered_unsure.contains(&(e, h)) && !self.aborted.contains_key(&(e, h)) {
            let id = self.est[e].iter().find(|(_, hh)| **hh == h).map(|(id, _)| *id).or_else(|| {
                let port = self.view[e].handles[h].port?;
                self.fid_port.iter().find(|(_, p)| **p == port).map(|(id, _)| *id)
            });
            if let (Some(id), Some(want)) = (id, self.delivered_bytes.get(&(e, h)).cloned()) {
                if !self.rst_in[e].contains(&id) && !self.rst_out[e].contains(&id) {
                    *self.mon.entry("delivered-data-read-before-end/judged").or_insert(0) += 1;
                    let got = &self.view[e].handles[h].read;
                    if got.len() < want.len() {
                        let msg = format!("{}#{h} read end-of-stream after {} bytes, but {} bytes of Push frames had reached its endpoint's task for this stream (never reset, still held): data already delivered was not returned before the end", NAMES[e], got.len(), want.len());
                        self.fail("C08", "delivered-data-lost-at-end", msg.clone());
                        self.fail("C05", "delivered-data-lost-at-end", msg.clone());
                        self.fail("C02", "delivered-data-lost-at-end", msg);
                    }
                }
            }
        }
        let Some((pe, ph)) = self.peer_handle(e, h) else {
            return;
        };
        let peer = &self.view[pe].handles[ph];
        let conn_ended = self.view[e].exited || self.view[e].terminated_by.is_some() || self.view[pe].exited || self.view[pe].terminated_by.is_some();
        let peer_done = peer.shutdown || !peer.alive;
        // a local abort of the own write side also ends the flow; the own handle being reset by
        // the peer counts as the peer's abort
        if !peer_done && !conn_ended {
            let msg = format!("{}#{h} read end-of-stream although peer {}#{ph} neither shut down nor dropped the stream and the connection is up", NAMES[e], NAMES[pe]);
            self.fail("C05", "early-eof", msg);
            return;
        }
        // (the connection counts as up for this stream if the only thing that happened is a LOCAL drop of e's
        // Multiplexor and the peer's Finish still reached e's task: FIFO, so all the data before it did too)
        let local_drop_fin_seen = self.fin_seen[e].contains(&(e, h)) && !self.reused && !self.delivered_unsure.contains(&(e, h));
        let clean_finish = peer.shutdown && *self.finished_cleanly.get(&(pe, ph)).unwrap_or(&false) && (!conn_ended || local_drop_fin_seen)
            && !self.aborted.contains_key(&(pe, ph)) && !self.aborted.contains_key(&(e, h));
        if clean_finish && self.view[e].handles[h].read != peer.written {
            let msg = format!("{}#{h} read end-of-stream after {} bytes but peer {}#{ph} wrote {} bytes before finishing", NAMES[e], self.view[e].handles[h].read.len(), NAMES[pe], peer.written.len());
            self.fail("C05", "eof-before-data", msg.clone());
            self.fail("C02", "eos-not-equal", msg);
        }
    }
}


// ---------------------------------------------------------------------------------------------
// Generation
// ---------------------------------------------------------------------------------------------

#[derive(Clone, Copy, Debug, PartialEq, Eq)]
enum Focus {
    C02, C03, C04, C05, C06, C07, C08, C10, C11, C12, C15,
}

impl Focus {
    fn parse(s: &str) -> Self {
        match s {
            "C02" => Self::C02, "C03" => Self::C03, "C04" => Self::C04, "C05" => Self::C05, "C06" => Self::C06,
            "C07" => Self::C07, "C08" => Self::C08, "C10" => Self::C10, "C11" => Self::C11, "C12" => Self::C12, "C15" => Self::C15,
            other => panic!("unknown focus {other}"),
        }
    }
    fn name(self) -> &'static str {
        match self {
            Self::C02 => "C02", Self::C03 => "C03", Self::C04 => "C04", Self::C05 => "C05", Self::C06 => "C06",
            Self::C07 => "C07", Self::C08 => "C08", Self::C10 => "C10", Self::C11 => "C11", Self::C12 => "C12", Self::C15 => "C15",
        }
    }
}

fn gen_opts(r: &mut Rng, focus: Focus) -> SimOpts {
    let w = [1u32, 2, 3, 4, 8, 16];
    // (C12: small windows, so that writers park)
    let w = if matches!(focus, Focus::C12) { [1u32, 1, 2, 2, 3, 4] } else { w };
    SimOpts {
        rwnd: *r.pick(&w),
        threshold: *r.pick(&w),
        accept_cap: r.range(1, 4) as usize,
        dgram_cap: if matches!(focus, Focus::C11) { *r.pick(&[1usize, 2, 3, 4, 4, 5, 6, 8]) } else { r.range(1, 4) as usize },
        // (C15: mostly endpoints that take binds; now and then one that refuses them all)
        bind_cap: if if matches!(focus, Focus::C15) { r.chance(4, 5) } else { r.chance(1, 2) } { r.range(1, 3) as usize } else { 0 },
        max_retries: r.range(1, 3) as usize,
    }
}

fn s(x: impl ToString) -> String {
    x.to_string()
}

fn gen_payload(r: &mut Rng, tag: u8, off: usize) -> Vec<u8> {
    let n = match r.below(10) {
        0 => 0,
        1..=5 => r.range(1, 4) as usize,
        6..=8 => r.range(5, 24) as usize,
        _ => r.range(25, 300) as usize,
    };
    (0..n).map(|k| tag.wrapping_add(((off + k) % 251) as u8)).collect()
}

fn random_frame(r: &mut Rng, ids: &[u32]) -> String {
    let id = if ids.is_empty() || r.chance(1, 5) { *r.pick(&[0u32, 1, 2, 0xdead_beef]) } else { *r.pick(ids) };
    let mut v = vec![0x70 | (r.below(7) as u8)];
    v.extend_from_slice(&id.to_be_bytes());
    match v[0] & 15 {
        0 => { v.extend_from_slice(&(r.range(0, 5) as u32).to_be_bytes()); v.extend_from_slice(&(r.range(1, 9) as u16).to_be_bytes()); let n = r.range(0, 3) as usize; v.extend(r.bytes(n)); }
        1 => v.extend_from_slice(&(r.range(0, 6) as u32).to_be_bytes()),
        4 => { let n = r.range(0, 5) as usize; v.extend(r.bytes(n)); }
        5 => { v.push(if r.chance(1, 2) { 1 } else { 3 }); v.extend_from_slice(&[0, 9]); let n = r.range(0, 3) as usize; v.extend(r.bytes(n)); }
        6 => { let n = r.range(0, 3) as usize; v.push(n as u8); v.extend_from_slice(&[0, 53]); v.extend(r.bytes(n)); let m = r.range(0, 4) as usize; v.extend(r.bytes(m)); }
        _ => {}
    }
    hexd(&v)
}

/// One randomly generated case, run adaptively on the implementation. Returns the world (with its
/// recorded stimulus lines and answers).
#[allow(clippy::too_many_lines)]
fn run_case(r: &mut Rng, focus: Focus, len: usize) -> World {
    let mut oa = gen_opts(r, focus);
    let mut ob = gen_opts(r, focus);
    if focus == Focus::C04 && r.chance(1, 2) {
        // the configuration family the progress property is about: threshold above the own window
        oa.rwnd = *r.pick(&[1, 2, 4]);
        oa.threshold = oa.rwnd * 2;
        ob.rwnd = *r.pick(&[8, 16]);
    }
    // C07: a burst of opens against an acceptor that is momentarily not accepting, with more requests
    // than its accept queue holds (the receive loop then has to wait for the application)
    let burst = (focus == Focus::C07 && r.chance(1, 4)) || (focus == Focus::C04 && r.chance(1, 6));
    if burst {
        oa.accept_cap = r.range(1, 2) as usize;
        ob.accept_cap = r.range(1, 2) as usize;
    }
    // … and, in half of the bursts, the acceptor asks for a stream of its own while its receive loop is
    // waiting for room in the accept queue, and draws the very id of the Connect that is waiting
    let burst_e = r.below(2) as usize;
    let collide = burst && focus == Focus::C07 && r.chance(1, 2);
    let mut w = World::new([oa, ob]);
    w.silent = matches!(focus, Focus::C08) && r.chance(1, 4);
    // scripted ids: small alphabet so that collisions and reuse happen
    // forced id reuse only where flow-id discipline is the subject (C06, C07, C10, C15); elsewhere ids are
    // large random numbers (reuse of an id while frames of its previous incarnation are in flight is
    // the known protocol-level finding recorded under C06)
    let small_ids = matches!(focus, Focus::C06 | Focus::C07 | Focus::C10 | Focus::C15) && r.chance(2, 3) && !burst;
    // a third kind of script: pairwise distinct small ids (so no id is ever reused) with draws of the
    // reserved id 0 sprinkled in — what the generator does with a zero draw while low ids are in use
    let zero_ids = !small_ids && matches!(focus, Focus::C07 | Focus::C10) && r.chance(1, 2) && !burst;
    let mut scripts: Vec<Vec<String>> = vec![];
    for e in 0..2 {
        let ks: Vec<String> = if zero_ids {
            let mut ids: Vec<u64> = (1..=24).map(|k| k + 24 * e as u64).collect();
            for k in (1..ids.len()).rev() { let j = r.below(k as u64 + 1) as usize; ids.swap(k, j); }
            // (id 1 early, so that it is in use when a zero is drawn)
            if e == 0 { if let Some(p) = ids.iter().position(|&x| x == 1) { ids.swap(0, p); } }
            ids.iter().enumerate().map(|(k, id)| if k > 0 && r.chance(1, 3) { s(0) } else { s(*id) }).collect()
        } else {
            (0..24).map(|_| if small_ids { s(r.range(0, 4)) } else { s(r.range(1, 0xffff_ffff)) }).collect()
        };
        scripts.push(ks);
    }
    if collide {
        // the Connect that finds the accept queue full is the (capacity + 1)-th of the burst
        let cap = w.opts[1 - burst_e].accept_cap;
        let x = scripts[burst_e][cap].clone();
        scripts[1 - burst_e][0] = x;
    }
    for (e, ks) in scripts.into_iter().enumerate() {
        let mut t = vec![s("rng")];
        t.extend(ks);
        w.stim(e, &t);
        w.view[e].rng_left = 24;
    }
    let mut tags = [0u8; 2];
    tags[0] = r.next() as u8;
    tags[1] = r.next() as u8;
    if burst {
        let e = burst_e;
        let n = w.opts[1 - e].accept_cap as u64 + r.range(1, 2);
        for _ in 0..n {
            let req = w.next_req; w.next_req += 1; w.view[e].rng_left -= 4;
            let hl = r.range(1, 6) as usize;
            w.stim(e, &[s("open"), s(req), hexd(&r.bytes(hl)), s(1000 + req)]);
        }
        // the Connects arrive back to back; the acceptor's application is busy (it rarely accepts now)
        while w.deliver_next(1 - e) {
            if !collide && r.chance(1, 8) { w.stim(1 - e, &[s("accept")]); }
        }
        if collide {
            // the acceptor's own request, made while a Connect of the peer waits for room in the accept queue
            let req = w.next_req; w.next_req += 1; w.view[1 - e].rng_left -= 4;
            w.stim(1 - e, &[s("open"), s(req), hexd(&r.bytes(2)), s(1000 + req)]);
            // its application now takes the streams; everything travels
            for _ in 0..n { w.stim(1 - e, &[s("accept")]); }
            for _ in 0..3 { while w.deliver_next(e) {} while w.deliver_next(1 - e) {} }
            w.stim(1 - e, &[s("accept")]);
        }
        while w.deliver_next(e) {}
    }
    for _ in 0..len {
        let e = r.below(2) as usize;
        if w.view[e].exited && r.chance(3, 4) {
            continue;
        }
        let live: Vec<usize> = (0..w.view[e].handles.len()).filter(|&h| w.view[e].handles[h].alive).collect();
        let (wd, ws_, wf, wdg, wb, wo, wdrop) = match focus {
            Focus::C02 | Focus::C03 => (40, 30, 1, 2, 1, 8, 3),
            Focus::C04 => (40, 30, 0, 2, 0, 8, 1),
            Focus::C05 => (30, 30, 1, 1, 1, 8, 6),
            Focus::C06 | Focus::C07 => (25, 15, 1, 1, 1, 25, 12),
            Focus::C08 => (25, 22, 12, 4, 4, 10, 4),
            Focus::C10 => (25, 15, 25, 3, 3, 10, 4),
            Focus::C11 => (20, 10, 1, 40, 1, 5, 2),
            // writers parked on small windows, with acknowledgements, resets and connection ends
            Focus::C12 => (30, 40, 3, 1, 1, 8, 3),
            Focus::C15 => (20, 10, 1, 2, 45, 5, 2),
        };
        // now and then: several application calls back to back before the task runs again (distinct
        // streams, plus a call on the Multiplexor)
        if r.chance(1, 12) && !w.view[e].exited && w.view[e].mux_alive && !live.is_empty() {
            let mut hs = live.clone();
            for k in (1..hs.len()).rev() { let j = r.below(k as u64 + 1) as usize; hs.swap(k, j); }
            hs.truncate(r.range(1, 3) as usize);
            let mut t = vec![s("batch")];
            for h in hs {
                if t.len() > 1 { t.push(s(";")); }
                let hi = &w.view[e].handles[h];
                match r.below(8) {
                    0..=2 if hi.pending_write.is_none() && !hi.shutdown => {
                        let data = gen_payload(r, tags[e].wrapping_add(h as u8 * 37), hi.written.len());
                        t.extend([s("write"), s(h), hexd(&data)]);
                    }
                    3..=5 => { t.extend([s("read"), s(h), s(*r.pick(&[0u64, 1, 3, 64, 1024]))]); }
                    6 if hi.pending_write.is_none() => { t.extend([s("shutdown"), s(h)]); }
                    _ => { t.extend([s("dropstream"), s(h)]); }
                }
            }
            // (no `open` inside a batch: a stream request is a future of its own, whose first round runs
            // when the executor does — in a stimulus of its own that is right after the call, as the
            // model has it; behind other calls its place relative to the task is the executor's choice)
            match r.below(6) {
                0 => { t.extend([s(";"), s("accept")]); }
                1 | 2 => { t.extend([s(";"), s("dgrecv")]); }
                _ => {}
            }
            if t.iter().filter(|x| x.as_str() == ";").count() >= 1 {
                w.stim(e, &t);
                continue;
            }
        }
        let total = wd + ws_ + wf + wdg + wb + wo + wdrop;
        let mut k = r.below(total);
        // deliver
        if k < wd {
            // now and then two or three of the peer's frames become available at once
            if r.chance(1, 8) && w.wire[1 - e].len() >= 2 && !w.view[e].exited {
                let mut t = vec![s("deliver"), s("many")];
                let n = r.range(2, 3);
                for _ in 0..n {
                    match w.wire[1 - e].front() {
                        Some(m) if !matches!(m.as_str(), "ping" | "pong" | "close") => { t.push(w.wire[1 - e].pop_front().unwrap()); }
                        _ => break,
                    }
                }
                if t.len() >= 4 {
                    w.exchanged = true;
                    w.stim(e, &t);
                    continue;
                }
                // (fewer than two frames at the head: put back what was taken)
                for m in t.drain(2..).rev() { w.wire[1 - e].push_front(m); }
            }
            w.deliver_next(e);
            continue;
        }
        k -= wd;
        // stream ops
        if k < ws_ {
            if live.is_empty() || !w.view[e].mux_alive && false {
                continue;
            }
            let h = *r.pick(&live);
            // (C12: mostly writes, so that writers park on the small windows)
            let sel = if focus == Focus::C12 && r.chance(1, 2) { 0 } else { r.below(10) };
            match sel {
                0..=3 => {
                    let hi = &w.view[e].handles[h];
                    // (a pending frame-level or vectored call is made again as it was: same entry point, same slices)
                    if let Some(rt) = w.retry_toks(e, h).filter(|_| matches!(hi.pending_op, "wpush" | "writev")) {
                        w.stim(e, &rt);
                        continue;
                    }
                    // the frame-level writer (`poll_write_push`), mostly with an empty payload: what an older
                    // or a foreign peer puts on the wire for an empty write
                    if matches!(focus, Focus::C02 | Focus::C03 | Focus::C04 | Focus::C05 | Focus::C06 | Focus::C10) && hi.pending_write.is_none() && r.chance(1, 8) {
                        let d = if r.chance(3, 4) { vec![] } else { gen_payload(r, tags[e].wrapping_add(h as u8 * 37), hi.written.len()) };
                        w.stim(e, &[s("wpush"), s(h), hexz(&d)]);
                        continue;
                    }
                    // a vectored write of very many small slices (more than any helper hands over at once)
                    if matches!(focus, Focus::C02 | Focus::C03 | Focus::C04 | Focus::C05) && hi.pending_write.is_none() && r.chance(1, 30) {
                        let n = r.range(65, 200) as usize;
                        let tag = tags[e].wrapping_add(h as u8 * 37);
                        let off = hi.written.len();
                        let mut t = vec![s("writev"), s(h)];
                        let mut k = 0;
                        while k < n {
                            let len = (r.range(1, 3) as usize).min(n - k);
                            let piece: Vec<u8> = (k..k + len).map(|j| tag.wrapping_add(((off + j) % 251) as u8)).collect();
                            t.push(hexd(&piece));
                            if r.chance(1, 10) { t.push(s("-")); }
                            k += len;
                        }
                        w.stim(e, &t);
                        continue;
                    }
                    let data = hi.pending_write.clone().unwrap_or_else(|| gen_payload(r, tags[e].wrapping_add(h as u8 * 37), hi.written.len()));
                    if r.chance(1, 6) && data.len() >= 2 && hi.pending_write.is_none() {
                        let cut = r.range(0, data.len() as u64) as usize;
                        let mut t = vec![s("writev"), s(h), hexd(&data[..cut]), hexd(&data[cut..])];
                        if r.chance(1, 3) { t.insert(3, s("-")); }
                        w.stim(e, &t);
                    } else {
                        w.stim(e, &[s("write"), s(h), hexd(&data)]);
                    }
                }
                4..=7 => { w.stim(e, &[s("read"), s(h), s(*r.pick(&[0u64, 1, 2, 3, 8, 64, 1024]))]); }
                8 => { w.stim(e, &[s("shutdown"), s(h)]); }
                _ => {
                    if r.chance(1, 3) { w.stim(e, &[s("dropstream"), s(h)]); } else { w.stim(e, &[s("wstate"), s(h)]); }
                }
            }
            continue;
        }
        k -= ws_;
        // faults / injections
        if k < wf {
            match r.below(8) {
                // a second fault while the wind-down is already running: the peer's Close followed by a
                // reset of the connection, a receive half that reports its failure twice
                // the peer opens more streams than this endpoint's accept queue holds and closes right behind
                // them: the wind-down dispatches Connects it has no room for
                0 | 1 if matches!(focus, Focus::C08) && r.chance(1, 6) && !w.view[e].exited && !w.view[1 - e].exited
                    && w.view[1 - e].mux_alive && w.view[1 - e].rng_left >= 12 && w.opts[e].accept_cap <= 2 && !w.sink_blocked[1 - e] => {
                    while w.deliver_next(e) {}
                    let n = w.opts[e].accept_cap + 1;
                    for _ in 0..n {
                        let req = w.next_req; w.next_req += 1; w.view[1 - e].rng_left -= 4;
                        let hl = r.range(0, 4) as usize;
                        w.stim(1 - e, &[s("open"), s(req), hexd(&r.bytes(hl)), s(1000 + req)]);
                    }
                    let mut t = vec![s("deliver"), s("closemany")];
                    for _ in 0..3 {
                        match w.wire[1 - e].front() {
                            Some(m) if !matches!(m.as_str(), "ping" | "pong" | "close") => { t.push(w.wire[1 - e].pop_front().unwrap()); }
                            _ => break,
                        }
                    }
                    w.exchanged = true;
                    w.stim(e, &t);
                }
                // the peer's Close with up to three of its frames right behind it (whatever it has on the
                // wire: answers to this endpoint's requests, data), dispatched by the wind-down
                0 | 1 if matches!(focus, Focus::C08 | Focus::C12) && r.chance(1, 3) && w.wire[1 - e].front().is_some_and(|m| !matches!(m.as_str(), "ping" | "pong" | "close")) => {
                    let mut t = vec![s("deliver"), s("closemany")];
                    let n = r.range(1, 3);
                    for _ in 0..n {
                        match w.wire[1 - e].front() {
                            Some(m) if !matches!(m.as_str(), "ping" | "pong" | "close") => { t.push(w.wire[1 - e].pop_front().unwrap()); }
                            _ => break,
                        }
                    }
                    w.exchanged = true;
                    w.stim(e, &t);
                }
                0 if matches!(focus, Focus::C08) && r.chance(1, 2) => { w.stim(e, &[s("deliver"), s("closeerr")]); }
                1 if matches!(focus, Focus::C08) && r.chance(1, 2) => { w.stim(e, &[s("deliver"), s("err2")]); }
                0 => { w.stim(e, &[s("deliver"), s("close")]); }
                1 => { w.stim(e, &[s("deliver"), s("err")]); }
                2 => { w.stim(e, &[s("deliver"), s("eof")]); }
                // a peer that ignores the window: more Push frames on an established flow than it was granted
                3 | 7 if matches!(focus, Focus::C10 | Focus::C03 | Focus::C06 | Focus::C02) && r.chance(1, 2) && !w.est[e].is_empty() && !w.view[e].exited => {
                    let mut ids: Vec<u32> = w.est[e].keys().copied().collect();
                    ids.sort_unstable();
                    let id = *r.pick(&ids);
                    w.injected = true;
                    let n = w.opts[e].rwnd + r.range(1, 3) as u32;
                    for k in 0..n {
                        let mut f = vec![0x74u8];
                        f.extend_from_slice(&id.to_be_bytes());
                        f.push(0xe0 | (k as u8 & 15));
                        w.stim(e, &[s("deliver"), s("bin"), hexd(&f)]);
                    }
                }
                // a well-formed stream frame on the id of a pending bind request of this endpoint (a stale frame of an
                // earlier holder of the id, a confused peer): answered with a Reset, the request stays
                3 | 7 if matches!(focus, Focus::C15 | Focus::C10) && !w.bind_ids[e].is_empty() && !w.view[e].exited && r.chance(2, 3) => {
                    let mut ids: Vec<u32> = w.bind_ids[e].iter().copied().collect();
                    ids.sort_unstable();
                    let id = *r.pick(&ids);
                    w.injected = true;
                    let mut f = vec![if r.chance(1, 2) { 0x71u8 } else { 0x74 }];
                    f.extend_from_slice(&id.to_be_bytes());
                    if f[0] == 0x71 { f.extend_from_slice(&(r.range(1, 4) as u32).to_be_bytes()); } else { f.extend(r.bytes(2)); }
                    w.stim(e, &[s("deliver"), s("bin"), hexd(&f)]);
                }
                3 => { w.injected = true; let n = r.range(0, 6) as usize; let mut b = r.bytes(n); if !b.is_empty() { b[0] = 0x79; } w.stim(e, &[s("deliver"), s("bin"), hexd(&b)]); }
                4 if w.sims[e].pending_futures() == 0 && w.view[e].mux_alive => { w.stim(e, &[s("dropmux")]); }
                5 | 6 if !matches!(focus, Focus::C10) => {
                    // back-pressure: the sink stops / resumes accepting messages
                    if w.sink_blocked[e] && r.chance(1, 2) { w.sink_blocked[e] = false; w.stim(e, &[s("sinkunblock")]); }
                    else if r.chance(1, 2) { w.sink_blocked[e] = true; w.stim(e, &[s("sinkblock")]); }
                    else { w.sink_blocked[e] = true; w.stim(e, &[s("sinkgrant"), s(r.range(1, 3))]); }
                }
                _ => {
                    if matches!(focus, Focus::C10) {
                        w.injected = true;
                        let ids: Vec<u32> = w.sims[e].rng.drawn.lock().unwrap().clone();
                        let f = random_frame(r, &ids);
                        w.stim(e, &[s("deliver"), s("bin"), f]);
                    }
                }
            }
            continue;
        }
        k -= wf;
        if !w.view[e].mux_alive {
            continue;
        }
        if k < wdg {
            if focus == Focus::C11 && r.chance(1, 10) && !w.view[e].exited && w.view[e].mux_alive && w.view[e].terminated_by.is_none() {
                // a burst of datagrams queued while the transport takes nothing: more than either side's
                // datagram buffer holds, sometimes with stream frames behind them
                let n = w.opts[e].dgram_cap.max(w.opts[1 - e].dgram_cap) + r.range(1, 4) as usize;
                let was_blocked = w.sink_blocked[e];
                if !was_blocked { w.sink_blocked[e] = true; w.stim(e, &[s("sinkblock")]); }
                for j in 0..n {
                    let hl = r.range(0, 4) as usize;
                    w.stim(e, &[s("dgsend"), s(r.range(0, 9)), hexd(&r.bytes(hl)), s(r.range(0, 65535)), hexd(&[j as u8, r.below(256) as u8])]);
                }
                if !was_blocked { w.sink_blocked[e] = false; w.stim(e, &[s("sinkunblock")]); }
                continue;
            }
            if r.chance(3, 5) {
                let hl = match r.below(8) { 0 => 0, 1 => 255, 2 => 256, 3 => r.range(257, 300) as usize, _ => r.range(1, 12) as usize };
                let dl = match r.below(6) { 0 => 0, 1 => 1, 2 => 2, 3 => 3, 4 => r.range(4, 40) as usize, _ => r.range(41, 2000) as usize };
                // (C11: now and then several KiB — a buffer that is bounded by anything but the NUMBER of datagrams shows)
                let dl = if focus == Focus::C11 && r.chance(1, 4) { r.range(3000, 12000) as usize } else { dl };
                // under C11 half of the datagrams carry the flow id of a stream (the two id spaces overlap)
                let stream_ids: Vec<u32> = if focus == Focus::C11 { let mut v: Vec<u32> = w.fid_port.keys().copied().collect(); v.sort_unstable(); v } else { vec![] };
                let fid = if !stream_ids.is_empty() && r.chance(1, 2) { u64::from(*r.pick(&stream_ids)) } else if r.chance(1, 5) { 0 } else { r.range(1, 9) };
                // (wave 9a) C11, "payload length 0..64 KiB": now and then a payload at the top of the range and a
                // little beyond (nothing in PROTOCOL.md or `send_datagram` bounds it) — a pattern run, so that the
                // lines stay short
                if focus == Focus::C11 && r.chance(1, 40) {
                    let dl = *r.pick(&DGRAM_TOP_LENGTHS);
                    let k = r.below(251) as u8;
                    w.stim(e, &[s("dgsend"), s(fid), hexd(&r.bytes(hl)), s(r.range(0, 65535)), hexz(&pvh::muxsim::pattern(dl, k))]);
                    continue;
                }
                w.stim(e, &[s("dgsend"), s(fid), hexd(&r.bytes(hl)), s(r.range(0, 65535)), hexd(&r.bytes(dl))]);
            } else {
                w.stim(e, &[s("dgrecv")]);
            }
            continue;
        }
        k -= wdg;
        if k < wb {
            match r.below(6) {
                0 | 1 if w.view[e].rng_left > 6 => {
                    let req = w.next_req; w.next_req += 1; w.view[e].rng_left -= 3;
                    // (hosts of any length: the Bind frame carries them as they are, whatever the bind type)
                    let n = match r.below(10) { 0 => 255, 1 => 256, 2 => r.range(257, 400) as usize, _ => r.range(0, 6) as usize };
                    w.stim(e, &[s("bindreq"), s(req), s(if r.chance(1, 2) { 1 } else { 3 }), hexd(&r.bytes(n)), s(2000 + req)]);
                }
                2 | 3 => { w.stim(e, &[s("bindnext")]); }
                k2 => {
                    let alive: Vec<usize> = (0..w.view[e].held.len()).filter(|&i| w.view[e].held[i]).collect();
                    if !alive.is_empty() {
                        let i = *r.pick(&alive);
                        // one answer per request: after a reply the request object can only be dropped
                        let answered = w.answered.contains(&(e, i));
                        if k2 == 4 && !answered { w.answered.insert((e, i)); w.stim(e, &[s("bindreply"), s(i), s(r.below(2))]); } else { w.stim(e, &[s("binddrop"), s(i)]); }
                    }
                }
            }
            continue;
        }
        k -= wb;
        if k < wo {
            if r.chance(1, 2) && w.view[e].rng_left > 8 {
                let req = w.next_req; w.next_req += 1; w.view[e].rng_left -= 4;
                let hl = match r.below(8) { 0 => 0, 1 => 255, 2 => 300, _ => r.range(1, 10) as usize };
                // the port is the pairing key: unique per request
                w.stim(e, &[s("open"), s(req), hexd(&r.bytes(hl)), s(1000 + req)]);
            } else if matches!(focus, Focus::C10 | Focus::C07 | Focus::C08 | Focus::C06) && r.chance(1, 6) && !w.view[e].opens.is_empty() {
                // the application gives up on a pending open request (a timeout around the call)
                let mut reqs: Vec<u64> = w.view[e].opens.keys().copied().collect();
                reqs.sort_unstable();
                let req = *r.pick(&reqs);
                w.stim(e, &[s("cancelopen"), s(req)]);
            } else {
                w.stim(e, &[s("accept")]);
            }
            continue;
        }
        // drop: one stream, or several back to back before the task runs again
        if !live.is_empty() {
            if live.len() >= 2 && r.chance(1, 3) {
                let mut hs = live.clone();
                // (random order, 2 or 3 of them)
                for k in (1..hs.len()).rev() { let j = r.below(k as u64 + 1) as usize; hs.swap(k, j); }
                hs.truncate(r.range(2, 3) as usize);
                let mut t = vec![s("dropmany")];
                t.extend(hs.iter().map(s));
                w.stim(e, &t);
            } else {
                let h = *r.pick(&live);
                w.stim(e, &[s("dropstream"), s(h)]);
            }
        }
    }
    if matches!(focus, Focus::C08) && r.chance(1, 3) {
        backpressure_drop_script(&mut w, r);
    }
    if matches!(focus, Focus::C06 | Focus::C07) && r.chance(1, 2) {
        // both applications take what is waiting for them and let go of every stream: nothing may stay behind
        fair_completion(&mut w, 40);
        for e in 0..2 {
            let live: Vec<usize> = (0..w.view[e].handles.len()).filter(|&h| w.view[e].handles[h].alive).collect();
            for h in live { w.stim(e, &[s("dropstream"), s(h)]); }
        }
    }
    completion_phase(&mut w, r, focus);
    w
}

/// C08: the `Multiplexor` is dropped while a frame of the peer is readable in the very same poll of the
/// connection task (the receive loop is polled before the loop that notices the drop), with writes and
/// datagrams accepted just before: everything queued before the drop still goes out, in order, before the
/// Close. The arriving frame is whatever the peer had on the wire: a `Bind` request, a `Connect`, a
/// datagram, data or an acknowledgement of a stream.
fn drop_with_arrival_case(r: &mut Rng, focus: Focus) -> World {
    let mut opts = [gen_opts(r, focus), gen_opts(r, focus)];
    let e = r.below(2) as usize;
    let pe = 1 - e;
    if r.chance(3, 4) { opts[e].bind_cap = r.range(1, 2) as usize; }
    if r.chance(1, 2) { opts[pe].bind_cap = r.range(1, 2) as usize; }
    let mut w = World::new(opts);
    for k in 0..2 {
        let mut t = vec![s("rng")];
        t.extend((0..8).map(|_| s(r.range(1, 0xffff_ffff))));
        w.stim(k, &t);
        w.view[k].rng_left = 8;
    }
    // one or two streams, established and taken by both applications
    let n_streams = r.range(0, 2);
    for _ in 0..n_streams {
        let oe = r.below(2) as usize;
        let req = w.next_req; w.next_req += 1; w.view[oe].rng_left -= 1;
        w.stim(oe, &[s("open"), s(req), hexd(&r.bytes(2)), s(1000 + req)]);
        for _ in 0..3 { while w.deliver_next(1 - oe) {} while w.deliver_next(oe) {} }
        w.stim(1 - oe, &[s("accept")]);
    }
    // the peer puts something on the wire
    let live_p: Vec<usize> = (0..w.view[pe].handles.len()).filter(|&h| w.view[pe].handles[h].alive).collect();
    match r.below(6) {
        0 | 1 | 2 => {
            let req = w.next_req; w.next_req += 1; w.view[pe].rng_left -= 1;
            let n = r.range(0, 4) as usize;
            w.stim(pe, &[s("bindreq"), s(req), s(if r.chance(1, 2) { 1 } else { 3 }), hexd(&r.bytes(n)), s(2000 + req)]);
        }
        3 => {
            let req = w.next_req; w.next_req += 1; w.view[pe].rng_left -= 1;
            w.stim(pe, &[s("open"), s(req), hexd(&r.bytes(3)), s(1000 + req)]);
        }
        4 if !live_p.is_empty() => {
            let h = *r.pick(&live_p);
            let data = gen_payload(r, 0x90, w.view[pe].handles[h].written.len());
            w.stim(pe, &[s("write"), s(h), hexd(&data)]);
        }
        _ => { w.stim(pe, &[s("dgsend"), s(r.range(1, 9)), hexd(&r.bytes(2)), s(53), hexd(&r.bytes(3))]); }
    }
    if w.sims[e].pending_futures() > 0 || !w.view[e].mux_alive || w.view[e].exited {
        fair_completion(&mut w, 10);
        final_checks(&mut w);
        return w;
    }
    // the calls made just before the drop, the arriving frame, the drop: one poll of the task sees them all
    let live: Vec<usize> = (0..w.view[e].handles.len()).filter(|&h| w.view[e].handles[h].alive).collect();
    let mut t = vec![s("batch")];
    let n = r.range(1, 3);
    for k in 0..n {
        if t.len() > 1 { t.push(s(";")); }
        if !live.is_empty() && r.chance(1, 2) {
            let h = live[k as usize % live.len()];
            let hi = &w.view[e].handles[h];
            let data: Vec<u8> = { let d = gen_payload(r, 0x50 + k as u8, hi.written.len()); if d.is_empty() { vec![0x51] } else { d } };
            if k as usize >= live.len() { t.extend([s("dgsend"), s(r.range(1, 9)), hexd(&r.bytes(2)), s(53), hexd(&[k as u8])]); }
            else { t.extend([s("write"), s(h), hexd(&data)]); }
        } else {
            t.extend([s("dgsend"), s(r.range(1, 9)), hexd(&r.bytes(2)), s(53), hexd(&[k as u8, 0x33])]);
        }
    }
    if let Some(m) = w.wire[pe].front().cloned().filter(|m| !matches!(m.as_str(), "ping" | "pong" | "close")) {
        w.wire[pe].pop_front();
        t.extend([s(";"), s("deliver"), s("bin"), m]);
        w.exchanged = true;
    }
    t.extend([s(";"), s("dropmux")]);
    w.stim(e, &t);
    fair_completion(&mut w, 20);
    final_checks(&mut w);
    w
}

/// C10 / C08: the connection ends by an error (a message that is not a valid frame, a failing transport)
/// while replies and data are still queued behind a sink that takes nothing — the peer has stopped reading.
/// The end is acted on at once all the same: nothing queued is owed to a peer after such an end.
fn garbage_under_backpressure_case(r: &mut Rng, focus: Focus) -> World {
    let opts = [gen_opts(r, focus), gen_opts(r, focus)];
    let e = r.below(2) as usize;
    let pe = 1 - e;
    let mut w = World::new(opts);
    for k in 0..2 {
        let mut t = vec![s("rng")];
        t.extend((0..8).map(|_| s(r.range(1, 0xffff_ffff))));
        w.stim(k, &t);
        w.view[k].rng_left = 8;
    }
    let n_streams = r.range(0, 2);
    for _ in 0..n_streams {
        let oe = r.below(2) as usize;
        let req = w.next_req; w.next_req += 1; w.view[oe].rng_left -= 1;
        w.stim(oe, &[s("open"), s(req), hexd(&r.bytes(2)), s(1000 + req)]);
        for _ in 0..3 { while w.deliver_next(1 - oe) {} while w.deliver_next(oe) {} }
        w.stim(1 - oe, &[s("accept")]);
    }
    // the peer stops reading: e's sink takes nothing (or only a message or two) from now on
    w.sink_blocked[e] = true;
    if r.chance(2, 3) { w.stim(e, &[s("sinkblock")]); } else { w.stim(e, &[s("sinkgrant"), s(r.range(1, 2))]); }
    // things queue up at e: replies to the peer's frames, its own data
    let live: Vec<usize> = (0..w.view[e].handles.len()).filter(|&h| w.view[e].handles[h].alive).collect();
    let live_p: Vec<usize> = (0..w.view[pe].handles.len()).filter(|&h| w.view[pe].handles[h].alive).collect();
    for k in 0..r.range(1, 4) {
        match r.below(4) {
            0 if !live.is_empty() => {
                let h = *r.pick(&live);
                let d = gen_payload(r, 0x60 + k as u8, w.view[e].handles[h].written.len());
                let d = if d.is_empty() { vec![0x61] } else { d };
                w.stim(e, &[s("write"), s(h), hexd(&d)]);
            }
            1 => {
                // a request of the peer: its Acknowledge joins e's queue
                let req = w.next_req; w.next_req += 1; w.view[pe].rng_left -= 1;
                w.stim(pe, &[s("open"), s(req), hexd(&r.bytes(2)), s(1000 + req)]);
                while w.deliver_next(e) {}
            }
            2 if !live_p.is_empty() => {
                // data of the peer, read at once: the Acknowledge joins e's queue
                let h = *r.pick(&live_p);
                let d = gen_payload(r, 0x70 + k as u8, w.view[pe].handles[h].written.len());
                let d = if d.is_empty() { vec![0x71] } else { d };
                w.stim(pe, &[s("write"), s(h), hexd(&d)]);
                while w.deliver_next(e) {}
                for hh in live.clone() { w.stim(e, &[s("read"), s(hh), s(4096)]); }
            }
            _ => { w.stim(e, &[s("dgsend"), s(r.range(1, 9)), hexd(&r.bytes(2)), s(53), hexd(&[k as u8])]); }
        }
    }
    // … and then the end, by error
    match r.below(3) {
        0 => { w.stim(e, &[s("deliver"), s("err")]); }
        _ => {
            w.injected = true;
            let n = r.range(0, 5) as usize;
            let mut b = r.bytes(n);
            if !b.is_empty() { b[0] = *r.pick(&[0x79u8, 0x17, 0xf0, 0x78]); }
            w.stim(e, &[s("deliver"), s("bin"), hexd(&b)]);
        }
    }
    fair_completion(&mut w, 20);
    final_checks(&mut w);
    w
}

/// C02 / C05 / C08: data in flight or queued when the connection ends. The peer writes a backlog (up to the
/// reader's window, with or without a clean shutdown); then the reader's side ends — a LOCAL drop of its
/// Multiplexor before or after the frames arrive, the peer's Close, a failing transport — and only then the
/// application, which still holds the stream, reads: it gets every byte that reached its endpoint, then the
/// end; after a local drop with a healthy transport that is everything the peer wrote before it saw the Close.
fn backlog_at_end_case(r: &mut Rng, focus: Focus) -> World {
    let mut opts = [gen_opts(r, focus), gen_opts(r, focus)];
    let e = r.below(2) as usize; // the reading endpoint
    let pe = 1 - e;
    opts[e].rwnd = *r.pick(&[4u32, 8, 16, 16]);
    opts[e].threshold = *r.pick(&[1u32, 2, 2, 4, 8]);
    let mut w = World::new(opts);
    for k in 0..2 {
        let mut t = vec![s("rng")];
        t.extend((0..8).map(|_| s(r.range(1, 0xffff_ffff))));
        w.stim(k, &t);
        w.view[k].rng_left = 8;
    }
    let oe = r.below(2) as usize;
    let req = w.next_req; w.next_req += 1; w.view[oe].rng_left -= 1;
    w.stim(oe, &[s("open"), s(req), hexd(&r.bytes(2)), s(1000 + req)]);
    for _ in 0..3 { while w.deliver_next(1 - oe) {} while w.deliver_next(oe) {} }
    w.stim(1 - oe, &[s("accept")]);
    if w.view[0].handles.is_empty() || w.view[1].handles.is_empty() { fair_completion(&mut w, 10); final_checks(&mut w); return w; }
    // the peer writes its backlog: more frames than the reader's acknowledgement threshold, within its window
    let n = r.range(1, u64::from(w.opts[e].rwnd)) as usize;
    let tag = r.next() as u8;
    for k in 0..n {
        let d = gen_payload(r, tag.wrapping_add(k as u8), w.view[pe].handles[0].written.len());
        let d = if d.is_empty() { vec![tag] } else { d };
        let out = w.stim(pe, &[s("write"), s(0), hexd(&d)]);
        if !out.starts_with("wrote") { break; }
    }
    let fin = r.chance(2, 3);
    if fin && w.view[pe].handles[0].pending_write.is_none() { w.stim(pe, &[s("shutdown"), s(0)]); }
    // how much of it has arrived when the end comes
    let arrive_first = r.below(3);
    if arrive_first == 0 { while w.deliver_next(e) {} } else if arrive_first == 1 { for _ in 0..r.range(0, n as u64) { w.deliver_next(e); } }
    // now and then the reader has already taken a little
    if r.chance(1, 3) { w.stim(e, &[s("read"), s(0), s(*r.pick(&[0u64, 1, 3, 64]))]); }
    match r.below(5) {
        0 | 1 if w.sims[e].pending_futures() == 0 => {
            // local drop, transport healthy: what the peer still had on the wire keeps arriving
            w.stim(e, &[s("dropmux")]);
            while w.deliver_next(e) {}
        }
        2 => { while w.deliver_next(e) {} w.stim(e, &[s("deliver"), s("close")]); }
        3 => { w.stim(e, &[s("deliver"), s("err")]); }
        _ => { while w.deliver_next(e) {} w.stim(e, &[s("deliver"), s("eof")]); }
    }
    // the application reads what it is owed
    for _ in 0..(n + 4) {
        let out = w.stim(e, &[s("read"), s(0), s(*r.pick(&[7u64, 64, 4096]))]);
        if !out.starts_with("data") { break; }
    }
    fair_completion(&mut w, 20);
    final_checks(&mut w);
    w
}

/// C12: a writer parked for credit, the write side shut down through another handle to the stream
/// (`do_shutdown` takes `&self` and wakes nobody), then the connection task closes the flow — the peer resets
/// the stream, the connection ends, the Multiplexor is dropped: the parked writer is woken by that close.
fn foreign_shutdown_case(r: &mut Rng, focus: Focus) -> World {
    let mut opts = [gen_opts(r, focus), gen_opts(r, focus)];
    let e = r.below(2) as usize; // the writing endpoint
    let pe = 1 - e;
    opts[pe].rwnd = *r.pick(&[1u32, 1, 2, 3]);
    let mut w = World::new(opts);
    for k in 0..2 {
        let mut t = vec![s("rng")];
        t.extend((0..8).map(|_| s(r.range(1, 0xffff_ffff))));
        w.stim(k, &t);
        w.view[k].rng_left = 8;
    }
    let oe = r.below(2) as usize;
    let req = w.next_req; w.next_req += 1; w.view[oe].rng_left -= 1;
    w.stim(oe, &[s("open"), s(req), hexd(&r.bytes(2)), s(1000 + req)]);
    for _ in 0..3 { while w.deliver_next(1 - oe) {} while w.deliver_next(oe) {} }
    w.stim(1 - oe, &[s("accept")]);
    if w.view[0].handles.is_empty() || w.view[1].handles.is_empty() { fair_completion(&mut w, 10); final_checks(&mut w); return w; }
    // write until the window is used up and the writer parks
    let op = if r.chance(1, 2) { "wpush" } else { "write" };
    let mut parked = false;
    for k in 0..6u8 {
        let out = w.stim(e, &[s(op), s(0), hexd(&[0x30 + k, 0x31])]);
        if out.starts_with("pending") { parked = true; break; }
        if r.chance(1, 3) { w.deliver_next(pe); }
    }
    if parked {
        // another holder of the stream shuts the write side down
        w.stim(e, &[s("shutdown"), s(0)]);
        if r.chance(1, 2) { while w.deliver_next(pe) {} }
        match r.below(4) {
            0 | 1 => {
                // the peer's application lets go of the stream without finishing: its endpoint resets the flow
                w.stim(pe, &[s("dropstream"), s(0)]);
                while w.deliver_next(e) {}
            }
            2 => { w.stim(e, &[s("deliver"), s(*r.pick(&["close", "err", "eof"]))]); }
            _ => { if w.sims[e].pending_futures() == 0 { w.stim(e, &[s("dropmux")]); while w.deliver_next(pe) {} while w.deliver_next(e) {} } }
        }
    }
    fair_completion(&mut w, 20);
    final_checks(&mut w);
    w
}

/// One write of more than 1 MiB (up to 3.5 MiB) on a stream whose reader grants a window of 2–4
/// frames, possibly after small writes that have used part of the window, with deliveries, large reads
/// and retries of a pending write in random order; then a clean shutdown and the completion phase.
/// (C02: "plain and vectored writes of any size … window-exceeding bursts".) The payload is a pattern
/// run, written as a `z` token in every line.
fn huge_write_case(r: &mut Rng, focus: Focus) -> World {
    let mut opts = [gen_opts(r, focus), gen_opts(r, focus)];
    let we = r.below(2) as usize; // the writing endpoint
    let re = 1 - we;
    opts[re].rwnd = r.range(2, 4) as u32;
    let mut w = World::new(opts);
    for e in 0..2 {
        let mut t = vec![s("rng")];
        t.extend((0..8).map(|_| s(r.range(1, 0xffff_ffff))));
        w.stim(e, &t);
        w.view[e].rng_left = 8;
    }
    // either side opens the stream
    let oe = r.below(2) as usize;
    let req = w.next_req; w.next_req += 1;
    w.stim(oe, &[s("open"), s(req), hexd(&r.bytes(3)), s(1000 + req)]);
    w.deliver_next(1 - oe);
    w.stim(1 - oe, &[s("accept")]);
    w.deliver_next(oe);
    if w.view[0].handles.is_empty() || w.view[1].handles.is_empty() {
        completion_phase(&mut w, r, focus);
        return w;
    }
    let tag = r.below(251) as u8;
    // small writes first: part of the window is in use when the long write comes
    for _ in 0..r.below(3) {
        let d = pvh::muxsim::pattern(r.range(1, 200) as usize, ((usize::from(tag) + w.view[we].handles[0].written.len()) % 251) as u8);
        w.stim(we, &[s("write"), s(0), hexz(&d)]);
    }
    let longs = 1 + r.below(2);
    for _ in 0..longs {
        let n = r.range((1 << 20) + 1, 7 << 19) as usize;
        let d = pvh::muxsim::pattern(n, ((usize::from(tag) + w.view[we].handles[0].written.len()) % 251) as u8);
        w.stim(we, &[s("write"), s(0), hexz(&d)]);
        for _ in 0..r.range(2, 10) {
            match r.below(5) {
                0 | 1 => { w.deliver_next(re); }
                2 => { w.stim(re, &[s("read"), s(0), s(*r.pick(&[65_536u64, 1 << 20, 1 << 22]))]); }
                3 => { w.deliver_next(we); }
                _ => {
                    if let Some(d) = w.view[we].handles[0].pending_write.clone() {
                        w.stim(we, &[s("write"), s(0), hexz(&d)]);
                    }
                }
            }
        }
        // the writer does not start another write while one is pending
        for _ in 0..6 {
            let Some(d) = w.view[we].handles[0].pending_write.clone() else { break };
            while w.deliver_next(re) {}
            for _ in 0..8 {
                if !w.stim(re, &[s("read"), s(0), s(1u64 << 22)]).starts_with("data") { break; }
            }
            while w.deliver_next(we) {}
            w.stim(we, &[s("write"), s(0), hexz(&d)]);
        }
    }
    if w.view[we].handles[0].pending_write.is_none() {
        w.stim(we, &[s("shutdown"), s(0)]);
    }
    completion_phase(&mut w, r, focus);
    w
}

/// One stream between two conforming endpoints on which the frame-level writer is used as well as
/// `poll_write`: zero-length Push frames (what a foreign or an older peer sends for an empty write) mixed
/// with data frames, deliveries and reads in random order, both directions; then the completion phase
/// (run to quiescence, so that the liveness and acknowledgement monitors can judge).
fn frame_level_case(r: &mut Rng, focus: Focus) -> World {
    let mut w = World::new([gen_opts(r, focus), gen_opts(r, focus)]);
    for e in 0..2 {
        let mut t = vec![s("rng")];
        t.extend((0..8).map(|_| s(r.range(1, 0xffff_ffff))));
        w.stim(e, &t);
        w.view[e].rng_left = 8;
    }
    let oe = r.below(2) as usize;
    let req = w.next_req; w.next_req += 1;
    w.stim(oe, &[s("open"), s(req), hexd(&r.bytes(2)), s(1000 + req)]);
    w.deliver_next(1 - oe);
    w.stim(1 - oe, &[s("accept")]);
    w.deliver_next(oe);
    if !w.view[0].handles.is_empty() && !w.view[1].handles.is_empty() {
        let tag = r.next() as u8;
        for _ in 0..r.range(4, 28) {
            let e = r.below(2) as usize;
            let hi = &w.view[e].handles[0];
            match r.below(7) {
                0 | 1 => {
                    if let Some(d) = hi.pending_write.clone() {
                        w.stim(e, &[s(hi.pending_op), s(0), hexz(&d)]);
                    } else {
                        let d = if r.chance(4, 5) { vec![] } else { gen_payload(r, tag.wrapping_add(e as u8 * 91), hi.written.len()) };
                        w.stim(e, &[s("wpush"), s(0), hexz(&d)]);
                    }
                }
                2 => {
                    let (op, d) = match hi.pending_write.clone() {
                        Some(d) => (hi.pending_op, d),
                        None => ("write", gen_payload(r, tag.wrapping_add(e as u8 * 91), hi.written.len())),
                    };
                    w.stim(e, &[s(op), s(0), hexz(&d)]);
                }
                3 | 4 => { w.deliver_next(e); }
                _ => { w.stim(e, &[s("read"), s(0), s(*r.pick(&[0u64, 1, 8, 4096]))]); }
            }
        }
    }
    fair_completion(&mut w, 40);
    final_checks(&mut w);
    w
}

/// Half-close in the middle of an acknowledgement period, then a long reply drained slowly: one end
/// has consumed a few frames (fewer than its threshold) when it shuts its write side down; the peer
/// then writes as fast as its credit allows while the half-closed end does not read; finally
/// everything is read. The half-closed direction must stay fully usable: no reset, every byte, EOF last.
/// C06 / C07: an open request whose caller gives up (a timeout around `new_stream_channel`), the peer's
/// Acknowledge arriving afterwards, and then the same flow id proposed again by the peer once everything
/// of the first exchange has been delivered: the id is free on both endpoints.
fn abandoned_open_case(r: &mut Rng, focus: Focus) -> World {
    let oa = gen_opts(r, focus);
    let ob = gen_opts(r, focus);
    let mut w = World::new([oa, ob]);
    let x = r.range(1, 0xffff_fffe);
    for e in 0..2 {
        let mut t = vec![s("rng"), s(x), s(x)];
        t.extend((0..6).map(|_| s(r.range(1, 0xffff_ffff))));
        w.stim(e, &t);
        w.view[e].rng_left = 8;
    }
    let oe = r.below(2) as usize;
    let pe = 1 - oe;
    let req = w.next_req; w.next_req += 1;
    w.stim(oe, &[s("open"), s(req), hexd(&r.bytes(2)), s(1000 + req)]);
    let early = r.chance(1, 2);
    if early { w.stim(oe, &[s("cancelopen"), s(req)]); }
    if early && r.chance(1, 2) {
        // the caller asks again at once (a retry after its time-out): the abandoned request's id is still out
        let req1 = w.next_req; w.next_req += 1;
        w.stim(oe, &[s("open"), s(req1), hexd(&r.bytes(3)), s(1000 + req1)]);
    }
    while w.deliver_next(pe) {}
    if !early { w.stim(oe, &[s("cancelopen"), s(req)]); }
    // the late Acknowledge; whatever the requester answers travels back
    while w.deliver_next(oe) {}
    while w.deliver_next(pe) {}
    // the peer's application takes the stream and lets go of it (or never looks at it)
    if r.chance(2, 3) {
        w.stim(pe, &[s("accept")]);
        if !w.view[pe].handles.is_empty() {
            if r.chance(1, 2) { w.stim(pe, &[s("read"), s(0), s(64)]); }
            w.stim(pe, &[s("dropstream"), s(0)]);
        }
    }
    for _ in 0..3 { while w.deliver_next(oe) {} while w.deliver_next(pe) {} }
    // nobody holds the id any more: the peer's next request draws it
    let req2 = w.next_req; w.next_req += 1;
    w.stim(pe, &[s("open"), s(req2), hexd(&r.bytes(3)), s(1000 + req2)]);
    for _ in 0..3 { while w.deliver_next(oe) {} while w.deliver_next(pe) {} }
    w.stim(oe, &[s("accept")]);
    fair_completion(&mut w, 20);
    final_checks(&mut w);
    w
}

/// C03 / C04 / C07: windows far larger than the defaults — the writer's initial credit is the window the peer
/// advertised, whatever its size: it can send that many frames unacknowledged, and a reader that keeps
/// reading gets all of them (its acknowledgement comes only after `threshold` frames).
fn large_window_case(r: &mut Rng, focus: Focus) -> World {
    let mut oa = gen_opts(r, focus);
    let mut ob = gen_opts(r, focus);
    let wnd = *r.pick(&[600u32, 4096, 4097, 5000, 9000]);
    // the reader's side: a large window, acknowledged rarely (threshold up to the window itself)
    ob.rwnd = wnd;
    ob.threshold = match r.below(3) { 0 => wnd, 1 => wnd - r.range(0, u64::from(wnd / 8)) as u32, _ => r.range(1, u64::from(wnd)) as u32 };
    oa.rwnd = *r.pick(&[2u32, 8, wnd]);
    oa.threshold = oa.threshold.min(oa.rwnd).max(1);
    let mut w = World::new([oa, ob]);
    for e in 0..2 {
        let mut t = vec![s("rng")];
        t.extend((0..8).map(|_| s(r.range(1, 0xffff_ffff))));
        w.stim(e, &t);
        w.view[e].rng_left = 8;
    }
    let req = w.next_req; w.next_req += 1;
    w.stim(0, &[s("open"), s(req), hexd(&r.bytes(2)), s(1000 + req)]);
    w.deliver_next(1);
    w.stim(1, &[s("accept")]);
    w.deliver_next(0);
    if !w.view[0].handles.is_empty() && !w.view[1].handles.is_empty() {
        let tag = r.next() as u8;
        // the whole window in one-byte frames, the reader idle: every write is accepted
        let reads_early = r.chance(1, 2);
        for k in 0..wnd as usize {
            let off = w.view[0].handles[0].written.len();
            w.stim(0, &[s("write"), s(0), hexd(&[tag.wrapping_add((off % 251) as u8)])]);
            if k % 64 == 63 || k + 1 == wnd as usize {
                while w.deliver_next(1) {}
                if reads_early { w.stim(1, &[s("read"), s(0), s(4096)]); while w.deliver_next(0) {} }
            }
        }
        // one more: the window is used up unless the reader has acknowledged
        let off = w.view[0].handles[0].written.len();
        w.stim(0, &[s("write"), s(0), hexd(&[tag.wrapping_add((off % 251) as u8)])]);
        // the reader takes everything there is (one frame per read), its acknowledgements travel back
        for _ in 0..2 {
            while w.deliver_next(1) {}
            loop {
                let out = w.stim(1, &[s("read"), s(0), s(4096)]);
                if !out.starts_with("data") { break; }
            }
            while w.deliver_next(0) {}
            // a writer left waiting tries again
            if let Some(d) = w.view[0].handles[0].pending_write.clone() { w.stim(0, &[s("write"), s(0), hexd(&d)]); }
        }
        if r.chance(1, 2) && w.view[0].handles[0].pending_write.is_none() { w.stim(0, &[s("shutdown"), s(0)]); }
    }
    fair_completion(&mut w, 60);
    final_checks(&mut w);
    w
}

/// C15 / C07: the application task that awaits a request is scheduled late. The answer to bind request 1
/// is processed by the connection task while the future of request 1 is not polled; the application
/// starts request 2, whose flow id is the one request 1 has just released; only then request 1's future
/// runs to completion. Both requests resolve with their own answers. (Monitors only: the model has no
/// scheduler for application tasks.)
fn late_future_case(r: &mut Rng, focus: Focus) -> World {
    let mut oa = gen_opts(r, focus);
    let mut ob = gen_opts(r, focus);
    oa.bind_cap = oa.bind_cap.max(2);
    ob.bind_cap = ob.bind_cap.max(2);
    let mut w = World::new([oa, ob]);
    w.oracle_only = true;
    let x = r.range(1, 0xffff_fffe);
    let same_id = r.chance(3, 4);
    let e = r.below(2) as usize;
    let pe = 1 - e;
    for k in 0..2 {
        let mut t = vec![s("rng")];
        if k == e { t.push(s(x)); t.push(s(if same_id { x } else { r.range(1, 0xffff_fffe) })); }
        t.extend((0..6).map(|_| s(r.range(1, 0xffff_ffff))));
        w.stim(k, &t);
        w.view[k].rng_left = 8;
    }
    let answer = |w: &mut World, r: &mut Rng, accept: bool| {
        while w.deliver_next(pe) {}
        let out = w.stim(pe, &[s("bindnext")]);
        if out.starts_with("bindreq") {
            let k = w.view[pe].held.len() - 1;
            if accept || r.chance(1, 2) { w.answered.insert((pe, k)); w.stim(pe, &[s("bindreply"), s(k), s(u64::from(accept))]); }
            if !accept || r.chance(1, 2) { w.stim(pe, &[s("binddrop"), s(k)]); }
        }
    };
    let req1 = w.next_req; w.next_req += 1;
    w.stim(e, &[s("bindreq"), s(req1), s(if r.chance(1, 2) { 1 } else { 3 }), hexd(&r.bytes(3)), s(2000 + req1)]);
    let acc1 = r.chance(2, 3);
    answer(&mut w, r, acc1);
    // the answer reaches the requester's connection task; the task awaiting request 1 is not scheduled yet
    w.stim(e, &[s("holdreq"), s(req1)]);
    while w.deliver_next(e) {}
    let req2 = w.next_req; w.next_req += 1;
    w.stim(e, &[s("bindreq"), s(req2), s(if r.chance(1, 2) { 1 } else { 3 }), hexd(&r.bytes(2)), s(2000 + req2)]);
    let late = r.chance(1, 2);
    if !late { w.stim(e, &[s("releasereq"), s(req1)]); }
    let acc2 = r.chance(2, 3);
    answer(&mut w, r, acc2);
    if late { w.stim(e, &[s("releasereq"), s(req1)]); }
    for _ in 0..3 { while w.deliver_next(e) {} while w.deliver_next(pe) {} }
    fair_completion(&mut w, 20);
    final_checks(&mut w);
    w
}

/// C02 / C05 / C06: a stream is used and let go of on both endpoints (local abort, peer abort, or finished
/// and dropped), everything in flight is delivered, and then the SAME flow id is taken for a new stream by
/// either side: the id is free on both endpoints and nothing of the old stream leaks into the new one — its
/// data arrives complete, in order, and its end-of-stream comes only when its writer finishes.
fn reopen_same_id_case(r: &mut Rng, focus: Focus) -> World {
    let oa = gen_opts(r, focus);
    let ob = gen_opts(r, focus);
    let mut w = World::new([oa, ob]);
    let x = r.range(1, 0xffff_fffe);
    for e in 0..2 {
        let mut t = vec![s("rng"), s(x), s(x)];
        t.extend((0..6).map(|_| s(r.range(1, 0xffff_ffff))));
        w.stim(e, &t);
        w.view[e].rng_left = 8;
    }
    let drain = |w: &mut World| { for _ in 0..4 { while w.deliver_next(0) {} while w.deliver_next(1) {} } };
    let oe = r.below(2) as usize;
    let pe = 1 - oe;
    let req = w.next_req; w.next_req += 1;
    w.stim(oe, &[s("open"), s(req), hexd(&r.bytes(2)), s(1000 + req)]);
    drain(&mut w);
    w.stim(pe, &[s("accept")]);
    drain(&mut w);
    if w.view[0].handles.is_empty() || w.view[1].handles.is_empty() { fair_completion(&mut w, 10); final_checks(&mut w); return w; }
    // some traffic on the first incarnation, in both directions (the last frame received matters to
    // implementations that remember "the flow of the last Push")
    let tag = r.next() as u8;
    for e in [oe, pe, oe] {
        if r.chance(3, 4) {
            let d = gen_payload(r, tag, w.view[e].handles[0].written.len());
            let d = if d.is_empty() { vec![tag] } else { d };
            w.stim(e, &[s("write"), s(0), hexd(&d)]);
            drain(&mut w);
            w.stim(1 - e, &[s("read"), s(0), s(4096)]);
            drain(&mut w);
        }
    }
    // both ends let go of it — or, in the fifth variant, both finish it and only one lets go: the other keeps
    // holding its (finished) stream, so the id is still in use there; it must refuse the Connect that takes the
    // id again, and when it finally drops the old stream nothing may happen to any other stream
    let mut holder: Option<usize> = None;
    match r.below(5) {
        4 => {
            let (he, le) = if r.chance(1, 2) { (oe, pe) } else { (pe, oe) };
            w.stim(he, &[s("shutdown"), s(0)]); drain(&mut w);
            w.stim(le, &[s("shutdown"), s(0)]); drain(&mut w);
            for e in 0..2 { w.stim(e, &[s("read"), s(0), s(4096)]); w.stim(e, &[s("read"), s(0), s(4096)]); }
            w.stim(le, &[s("dropstream"), s(0)]);
            holder = Some(he);
        }
        0 => { w.stim(oe, &[s("dropstream"), s(0)]); drain(&mut w); w.stim(pe, &[s("read"), s(0), s(4096)]); w.stim(pe, &[s("dropstream"), s(0)]); }
        1 => { w.stim(pe, &[s("dropstream"), s(0)]); drain(&mut w); w.stim(oe, &[s("read"), s(0), s(4096)]); w.stim(oe, &[s("dropstream"), s(0)]); }
        2 => {
            w.stim(oe, &[s("shutdown"), s(0)]); w.stim(pe, &[s("shutdown"), s(0)]); drain(&mut w);
            for e in 0..2 { w.stim(e, &[s("read"), s(0), s(4096)]); w.stim(e, &[s("read"), s(0), s(4096)]); }
            w.stim(oe, &[s("dropstream"), s(0)]); w.stim(pe, &[s("dropstream"), s(0)]);
        }
        _ => { w.stim(oe, &[s("shutdown"), s(0)]); drain(&mut w); w.stim(pe, &[s("dropstream"), s(0)]); drain(&mut w); w.stim(oe, &[s("dropstream"), s(0)]); }
    }
    drain(&mut w);
    // the id again, for a new stream opened by either side (its script yields the id once more); with a
    // holder, by the side that let go
    let e2 = match holder { Some(he) => 1 - he, None => r.below(2) as usize };
    let p2 = 1 - e2;
    let req2 = w.next_req; w.next_req += 1;
    w.stim(e2, &[s("open"), s(req2), hexd(&r.bytes(3)), s(1000 + req2)]);
    drain(&mut w);
    w.stim(p2, &[s("accept")]);
    drain(&mut w);
    if let Some(he) = holder {
        // now, or after some traffic on the new stream, the holder lets go of the old one
        if r.chance(1, 2) && w.view[he].handles.first().is_some_and(|h| h.alive) { w.stim(he, &[s("dropstream"), s(0)]); drain(&mut w); }
    }
    let tag2 = tag.wrapping_add(101);
    for round in 0..4 {
        for e in [e2, p2] {
            let Some(h) = (0..w.view[e].handles.len()).rev().find(|&h| w.view[e].handles[h].alive) else { continue };
            if r.chance(3, 4) || round == 0 {
                let d = gen_payload(r, tag2, w.view[e].handles[h].written.len());
                let d = if d.is_empty() { vec![tag2] } else { d };
                w.stim(e, &[s("write"), s(h), hexd(&d)]);
                drain(&mut w);
            }
            if let Some(ph) = (0..w.view[1 - e].handles.len()).rev().find(|&h| w.view[1 - e].handles[h].alive) {
                w.stim(1 - e, &[s("read"), s(ph), s(4096)]);
                drain(&mut w);
            }
        }
    }
    if let Some(he) = holder {
        if w.view[he].handles.first().is_some_and(|h| h.alive) { w.stim(he, &[s("dropstream"), s(0)]); drain(&mut w); }
    }
    // both writers of the new stream finish; both readers read to the end: what was written is what is read
    if r.chance(3, 4) {
        for e in [e2, p2] {
            if let Some(h) = (0..w.view[e].handles.len()).rev().find(|&h| w.view[e].handles[h].alive) {
                if w.view[e].handles[h].pending_write.is_none() { w.stim(e, &[s("shutdown"), s(h)]); }
            }
        }
        drain(&mut w);
        for e in [e2, p2] {
            if let Some(h) = (0..w.view[e].handles.len()).rev().find(|&h| w.view[e].handles[h].alive) {
                for _ in 0..40 {
                    let out = w.stim(e, &[s("read"), s(h), s(4096)]);
                    drain(&mut w);
                    if !out.starts_with("data") { break; }
                }
            }
        }
    }
    fair_completion(&mut w, 30);
    final_checks(&mut w);
    w
}

fn half_close_reply_case(r: &mut Rng, focus: Focus) -> World {
    let mut oa = gen_opts(r, focus);
    let ob = gen_opts(r, focus);
    // the end that half-closes: a window of at least 2 and a threshold of at least 2 (so that "a few
    // frames consumed, none acknowledged yet" exists)
    oa.rwnd = *r.pick(&[2u32, 3, 4, 8]);
    oa.threshold = r.range(2, u64::from(oa.rwnd)) as u32;
    let mut w = World::new([oa, ob]);
    for e in 0..2 {
        let mut t = vec![s("rng")];
        t.extend((0..8).map(|_| s(r.range(1, 0xffff_ffff))));
        w.stim(e, &t);
        w.view[e].rng_left = 8;
    }
    // which side opens does not matter: both are tried
    let oe = r.below(2) as usize;
    let req = w.next_req; w.next_req += 1;
    w.stim(oe, &[s("open"), s(req), hexd(&r.bytes(2)), s(1000 + req)]);
    w.deliver_next(1 - oe);
    w.stim(1 - oe, &[s("accept")]);
    w.deliver_next(oe);
    if !w.view[0].handles.is_empty() && !w.view[1].handles.is_empty() {
        let tag = r.next() as u8;
        let th = w.opts[0].threshold.min(w.opts[0].rwnd).min(w.opts[1].rwnd).max(1);
        // B sends k frames (0 < k < threshold of A where possible), A consumes them
        let k = if th >= 2 { r.range(1, u64::from(th) - 1) } else { 1 };
        for _ in 0..k {
            let d = gen_payload(r, tag, w.view[1].handles[0].written.len());
            let d = if d.is_empty() { vec![tag] } else { d };
            w.stim(1, &[s("write"), s(0), hexd(&d)]);
            while w.deliver_next(0) {}
        }
        for _ in 0..k { w.stim(0, &[s("read"), s(0), s(4096)]); }
        // A may have written its request; then it half-closes
        if r.chance(1, 2) {
            let d = gen_payload(r, tag.wrapping_add(91), 0);
            w.stim(0, &[s("write"), s(0), hexd(&d)]);
        }
        w.stim(0, &[s("shutdown"), s(0)]);
        while w.deliver_next(1) {}
        // the long reply: B writes whenever it can, everything is delivered, A does not read
        let rounds = 3 * w.opts[0].rwnd + 4;
        for _ in 0..rounds {
            let hi = &w.view[1].handles[0];
            let d = hi.pending_write.clone().unwrap_or_else(|| { let d = gen_payload(r, tag, hi.written.len()); if d.is_empty() { vec![tag] } else { d } });
            w.stim(1, &[s("write"), s(0), hexd(&d)]);
            while w.deliver_next(0) {}
            while w.deliver_next(1) {}
            if r.chance(1, 4) { w.stim(0, &[s("read"), s(0), s(*r.pick(&[0u64, 1, 8, 4096]))]); while w.deliver_next(1) {} }
        }
        if r.chance(1, 2) { w.stim(1, &[s("shutdown"), s(0)]); }
    }
    fair_completion(&mut w, 40);
    final_checks(&mut w);
    w
}

/// A local drop under back-pressure: the sink stops, several messages are queued, the sink accepts a
/// few of them, the Multiplexor is dropped, the sink opens again. Everything queued before the drop
/// has to reach the wire, in order, before the close.
fn backpressure_drop_script(w: &mut World, r: &mut Rng) {
    let e = r.below(2) as usize;
    if !w.view[e].mux_alive || w.view[e].exited || w.sims[e].pending_futures() > 0 {
        return;
    }
    w.sink_blocked[e] = true;
    w.stim(e, &[s("sinkblock")]);
    let live: Vec<usize> = (0..w.view[e].handles.len()).filter(|&h| w.view[e].handles[h].alive).collect();
    let n = r.range(2, 5);
    for k in 0..n {
        match r.below(3) {
            0 | 1 if !live.is_empty() => {
                let h = *r.pick(&live);
                let hi = &w.view[e].handles[h];
                let data = hi.pending_write.clone().unwrap_or_else(|| gen_payload(r, 0x40 + k as u8, hi.written.len()));
                w.stim(e, &[s("write"), s(h), hexd(&data)]);
            }
            _ => {
                let dl = r.range(0, 6) as usize;
                w.stim(e, &[s("dgsend"), s(r.range(1, 9)), hexd(&r.bytes(2)), s(53), hexd(&r.bytes(dl))]);
            }
        }
    }
    if r.chance(2, 3) {
        w.stim(e, &[s("sinkgrant"), s(r.range(1, n))]);
    }
    w.stim(e, &[s("dropmux")]);
    if r.chance(1, 2) {
        w.stim(e, &[s("sinkgrant"), s(1)]);
    }
    w.sink_blocked[e] = false;
    w.stim(e, &[s("sinkunblock")]);
}

/// Fair completion: deliver everything in flight, let every reader read to the end and every
/// blocked writer retry, until nothing changes. Then the liveness monitors apply: with the
/// application reading and accepting, no writer may remain blocked (C04); after the connection
/// ended nothing may remain pending (C08).
fn completion_phase(w: &mut World, r: &mut Rng, focus: Focus) {
    let _ = r;
    fair_completion(w, if matches!(focus, Focus::C10) { 3 } else { 40 });
    final_checks(w);
}

fn fair_completion(w: &mut World, rounds: usize) {
    // (a case with writes of megabytes settles within a few rounds or — writer resending for ever — never)
    let rounds = if w.huge { rounds.min(6) } else { rounds };
    w.quiesced = false;
    for e in 0..2 {
        // (wave 9b) a task that was created is polled sooner or later
        if w.w9b.unstarted[e] { w.stim(e, &[s("start")]); }
    }
    for e in 0..2 {
        if w.sink_blocked[e] {
            w.sink_blocked[e] = false;
            w.stim(e, &[s("sinkunblock")]);
        }
    }
    for _ in 0..rounds {
        let before = w.steps.len();
        let mut progressed = false;
        for e in 0..2 {
            while w.deliver_next(e) {
                progressed = true;
            }
            if w.view[1 - e].exited && !w.view[e].exited && !w.silent && w.wire[1 - e].is_empty() && !w.eof_given[e] {
                // the peer's task is gone and with it its transport: this side sees the stream end
                w.eof_given[e] = true;
                w.stim(e, &[s("deliver"), s("eof")]);
                progressed = true;
            }
            if w.view[e].mux_alive {
                loop {
                    let out = w.stim(e, &[s("accept")]);
                    if !out.starts_with("stream") { break; }
                    progressed = true;
                }
                if w.opts[e].bind_cap > 0 {
                    // the application keeps taking bind requests too (it answers them or not, as generated)
                    loop {
                        let out = w.stim(e, &[s("bindnext")]);
                        if !out.starts_with("bindreq") { break; }
                        progressed = true;
                    }
                }
            }
            for h in 0..w.view[e].handles.len() {
                if !w.view[e].handles[h].alive { continue; }
                if let Some(rt) = w.retry_toks(e, h) {
                    let out = w.stim(e, &rt);
                    if !out.starts_with("pending") { progressed = true; }
                }
                if !w.view[e].handles[h].eof {
                    // (a case with a write of megabytes is read in pieces of 4 MiB)
                    let piece = if w.huge { 1u64 << 22 } else { 4096 };
                    for _ in 0..64 {
                        let out = w.stim(e, &[s("read"), s(h), s(piece)]);
                        if out.starts_with("data") { progressed = true; } else { break; }
                    }
                }
            }
        }
        let _ = before;
        if !progressed && w.wire[0].is_empty() && w.wire[1].is_empty() {
            w.quiesced = true;
            break;
        }
    }
}

/// Liveness monitors, evaluated at the end of a case (and at the end of a replay).
fn final_checks(w: &mut World) {
    // Judged only when both connection tasks are still running with their Multiplexors alive, nothing
    // was injected, no flow id was used twice, nothing is in flight and no sink is held: the completion
    // phase has then delivered every frame, emptied the accept queues and read every stream to its end.
    let settled = (0..2).all(|e| !w.view[e].exited && w.view[e].terminated_by.is_none() && w.view[e].mux_alive && !w.sink_blocked[e] && w.wire[e].is_empty())
        && !w.injected && !w.reused;
    // the size of each flow table, as the verification hook of penguin-mux reports it (compared with the
    // model's table in the correspondence run)
    let mut counts = [usize::MAX; 2];
    for e in 0..2 {
        let out = w.stim(e, &[s("flowcount")]);
        if let Some(n) = out.strip_prefix("count ").and_then(|x| x.split(' ').next()).and_then(|x| x.parse().ok()) { counts[e] = n; }
    }
    // C06: the flow table of a connection whose task has finished is empty, and stays empty whatever the
    // application still calls (Props C06 `ended_connection_table_is_empty`)
    for e in 0..2 {
        if w.view[e].exited && counts[e] != usize::MAX {
            *w.mon.entry("ended-table-empty/judged").or_insert(0) += 1;
            if counts[e] != 0 {
                let msg = format!("the connection task of endpoint {} has finished, yet its flow table holds {} entr{}: slots that nothing will ever release (a request made on the ended connection left its slot behind)", NAMES[e], counts[e], if counts[e] == 1 { "y" } else { "ies" });
                w.fail("C06", "slots-in-ended-table", msg.clone());
                w.fail("C15", "slots-in-ended-table", msg);
            }
        }
    }
    if settled {
        // C06: no sequence of opens and closes leaks slots. With both endpoints running and nothing in flight,
        // an endpoint whose application holds no stream any more (every handle dropped, nothing waiting in the
        // accept queue), has no stream or bind request pending or abandoned and holds no bind request of the
        // peer has an EMPTY flow table.
        for e in 0..2 {
            let idle = w.view[e].handles.iter().all(|h| !h.alive) && w.backlog[e] == [0, 0] && w.view[e].opens.is_empty()
                && !w.cancelled && w.view[e].binds.values().all(|c| *c > 0) && !w.any_reuse && w.quiesced;
            if idle && counts[e] != usize::MAX {
                *w.mon.entry("flow-table-empty-when-idle/judged").or_insert(0) += 1;
                if counts[e] != 0 {
                    let msg = format!("endpoint {} holds no stream (every handle dropped, accept queue empty), has no request pending, both endpoints are running and nothing is in flight, yet its flow table has {} entr{}: slots leaked", NAMES[e], counts[e], if counts[e] == 1 { "y" } else { "ies" });
                    w.fail("C06", "slots-leaked", msg);
                }
            }
        }
    }
    if settled {
        // C07: each successful stream request yields exactly one stream on each endpoint
        let mut ports: Vec<u64> = w.port_handle.keys().copied().collect();
        ports.sort_unstable();
        for port in ports {
            let Some((oe, req)) = w.open_ports.get(&port).copied() else { continue };
            let ent = w.port_handle[&port];
            if ent[oe].is_some() {
                *w.mon.entry("open-ok/judged").or_insert(0) += 1;
            }
            if let (Some(h), None) = (ent[oe], ent[1 - oe]) {
                let msg = format!("open request {req} of {} (port {port}) resolved Ok (stream {}#{h}), but the application of {} was never handed a stream for it although it accepted until its accept queue was empty, the connection is up and nothing is in flight (accept queue capacity of {}: {})",
                    NAMES[oe], NAMES[oe], NAMES[1 - oe], NAMES[1 - oe], w.opts[1 - oe].accept_cap);
                w.fail("C07", "open-ok-without-accept", msg.clone());
                // C04: "new stream requests … continue to make progress" while the application keeps accepting
                w.fail("C04", "open-ok-without-accept", msg);
            }
        }
        // C15: every bind request resolves — with `false` at once when the peer takes no binds, with the peer
        // application's decision once it has made one. Nothing is in flight any more: a request that is still
        // unresolved although the peer refuses binds, or has decided this very request, was never answered.
        for e in 0..2 {
            let mut reqs: Vec<u64> = w.view[e].binds.iter().filter(|(_, c)| **c == 0).map(|(r, _)| *r).collect();
            reqs.sort_unstable();
            for req in reqs {
                *w.mon.entry("bind-unresolved-at-quiescence/judged").or_insert(0) += 1;
                let port = w.bind_ports.iter().find(|(_, v)| **v == (e, req)).map(|(p, _)| *p);
                let decided = port.and_then(|p| w.bind_decision.get(&p).copied());
                if w.opts[1 - e].bind_cap == 0 {
                    let msg = format!("bind request {req} of {} is still unresolved at quiescence (both endpoints running, nothing in flight) although {} is not configured to accept binds: PROTOCOL.md has it answer every Bind with a Reset, so the request resolves `false`", NAMES[e], NAMES[1 - e]);
                    w.fail("C15", "bind-unanswered", msg);
                } else if let Some(d) = decided {
                    let msg = format!("bind request {req} of {} is still unresolved at quiescence (both endpoints running, nothing in flight) although the application of {} has decided it ({})", NAMES[e], NAMES[1 - e], if d { "accepted" } else { "rejected / dropped" });
                    w.fail("C15", "bind-unanswered", msg);
                }
            }
        }
        // C06: after an abort the peer's reads return what had been delivered and then end-of-stream
        let mut ab: Vec<(usize, usize)> = w.aborted.iter().filter(|(_, v)| **v).map(|(k, _)| *k).collect();
        ab.sort_unstable();
        for (e, h) in ab {
            let Some((pe, ph)) = w.peer_handle(e, h) else { continue };
            if w.view[pe].handles[ph].alive {
                *w.mon.entry("peer-read-after-abort/judged").or_insert(0) += 1;
            }
            let p = &w.view[pe].handles[ph];
            if p.alive && !p.eof {
                let msg = format!("the application of {} dropped stream #{h} without shutting it down; the peer application still holds {}#{ph} and has read everything that arrived, the connection is up and nothing is in flight, yet its read never reports end-of-stream", NAMES[e], NAMES[pe]);
                w.fail("C06", "peer-read-pending-after-abort", msg);
            }
        }
    }
    // C10 ("it answers as PROTOCOL.md requires"; PROTOCOL.md: "One end MUST send an Acknowledge frame when
    // it processes rwnd frames from the other end after sending the last Acknowledge frame"), judged on
    // the wire for every stream that is known to be established at e and held by its application (the
    // in-use shadow `est`; it is dropped whenever the sink lags), on which no Reset has passed either
    // way, at the end of a completion phase that ended because nothing moved any more: the application
    // has then read everything (its last read is pending), so every Push that was delivered to e on that
    // flow since the handshake — whoever sent it, whatever its length — has been processed, and all but
    // fewer than rwnd of them must have been acknowledged.
    if w.quiesced && !w.reused {
        for e in 0..2 {
            if w.view[e].exited || w.view[e].terminated_by.is_some() || !w.view[e].mux_alive || w.sink_blocked[e] || !w.wire[1 - e].is_empty() { continue; }
            let mut flows: Vec<(u32, usize)> = w.est[e].iter().map(|(id, h)| (*id, *h)).collect();
            flows.sort_unstable();
            for (id, h) in flows {
                let Some(hi) = w.view[e].handles.get(h) else { continue };
                if !hi.alive || hi.eof || w.rst_in[e].contains(&id) || w.rst_out[e].contains(&id) { continue; }
                let me = format!("deliver {} bin ", NAMES[e]);
                let own = format!(" {} ", NAMES[e]);
                // the handshake: the Connect that reached e, or the Acknowledge that completed e's own request
                let est_idx = w.steps.iter().rposition(|st| {
                    st.line.strip_prefix(&me).and_then(parse_head).is_some_and(|(op, fid)| fid == id && (op == 0 || (op == 1 && st.out.contains(&format!(" ok {h}")))))
                });
                let Some(est_idx) = est_idx else { continue };
                let mut pushes = 0u64;
                let mut acked = 0u64;
                for st in &w.steps[est_idx + 1..] {
                    if st.line.strip_prefix(&me).and_then(parse_head) == Some((4, id)) { pushes += 1; }
                    if !st.line.contains(&own) { continue; }
                    for ev in st.out.split_once(" | ").map_or("", |x| x.1).split("; ") {
                        if let Some((1, fid, p)) = ev.strip_prefix("wire ").filter(|m| parse_head(m) == Some((1, id))).and_then(parse_frame) {
                            if fid == id && p.len() >= 4 { acked += u64::from(u32::from_be_bytes([p[0], p[1], p[2], p[3]])); }
                        }
                    }
                }
                *w.mon.entry("ack-owed/judged").or_insert(0) += 1;
                if pushes >= acked + u64::from(w.opts[e].rwnd) {
                    let msg = format!("endpoint {} has processed {pushes} Push frames on flow {id:08x} since the handshake (its application holds stream #{h} and has read everything: the last read is pending, nothing is in flight) but has acknowledged only {acked}; its window is {}: PROTOCOL.md requires an Acknowledge once rwnd frames have been processed since the last one — the sender's window is used up for ever", NAMES[e], w.opts[e].rwnd);
                    w.fail("C10", "ack-owed", msg);
                }
            }
        }
    }
    for e in 0..2 {
        let both_up = !w.view[0].exited && !w.view[1].exited && w.view[0].terminated_by.is_none() && w.view[1].terminated_by.is_none();
        for h in 0..w.view[e].handles.len() {
            let hi = w.view[e].handles[h].clone();
            if !hi.alive { continue; }
            // (where the completion phase is cut short — cases with writes of megabytes — a writer is judged
            // only if the phase ended because nothing moved any more)
            if hi.pending_write.is_some() && both_up && !w.injected && (w.quiesced || !w.huge) {
                if let Some((pe, ph)) = w.peer_handle(e, h) {
                    if w.view[pe].handles[ph].alive && !w.view[pe].handles[ph].eof {
                        let msg = format!("writer {}#{h} is still blocked at quiescence although its peer {}#{ph} read everything available and nothing is in flight (options A={:?} B={:?})", NAMES[e], NAMES[pe], w.opts[0], w.opts[1]);
                        w.fail("C04", "stalled-writer", msg);
                    }
                }
            }
            // C04, "every byte written becomes readable": both tasks running, nothing injected, no id used
            // twice, nothing in flight, the case ran to quiescence with the peer application still holding
            // its stream and reading until its reads were pending — then it has read every byte this
            // writer's accepted writes carried.
            if both_up && !w.injected && !w.reused && w.quiesced && !w.sink_blocked[0] && !w.sink_blocked[1] && w.wire[0].is_empty() && w.wire[1].is_empty() {
                if let Some((pe, ph)) = w.peer_handle(e, h) {
                    let ri = &w.view[pe].handles[ph];
                    if ri.alive {
                        *w.mon.entry("written-readable/judged").or_insert(0) += 1;
                        if ri.read.len() < hi.written.len() {
                            let msg = format!("{} bytes were accepted by writes on {}#{h}, its peer {}#{ph} holds the stream and read until its reads {} — it got only {} bytes; both connection tasks are running and nothing is in flight: bytes written never become readable (options A={:?} B={:?})",
                                hi.written.len(), NAMES[e], NAMES[pe], if ri.eof { "returned end-of-stream" } else { "were pending" }, ri.read.len(), w.opts[0], w.opts[1]);
                            w.fail("C04", "written-not-readable", msg);
                        }
                    }
                }
            }
            if w.view[e].exited {
                // everything must resolve after the connection ended
                let out = w.stim(e, &[s("read"), s(h), s(4096)]);
                if out.starts_with("pending") {
                    w.fail("C08", "read-pending-after-end", format!("a read on {}#{h} stays pending after the connection task ended", NAMES[e]));
                }
                // (more writes than any window the peer may have granted: none may be accepted or block)
                for k in 0..w.opts[1 - e].rwnd + 2 {
                    let out = w.stim(e, &[s("write"), s(h), s("aa")]);
                    if !out.starts_with("brokenpipe") {
                        w.fail("C08", "write-after-end", format!("write #{} on {}#{h} after the connection ended answered `{out}` instead of BrokenPipe", k + 1, NAMES[e]));
                        break;
                    }
                }
            }
        }
        if let Some(why) = w.view[e].terminated_by.clone() {
            if !w.view[e].exited {
                w.fail("C08", &format!("no-exit-after-{why}"), format!("endpoint {} got `{why}` but its task never finished while the transport stays silent; pending operations cannot resolve", NAMES[e]));
            }
        }
        if w.view[e].exited {
            if !w.view[e].opens.is_empty() {
                w.fail("C08", "open-pending-after-end", format!("open requests {:?} on {} never resolved after the connection ended", w.view[e].opens.keys().collect::<Vec<_>>(), NAMES[e]));
            }
            if w.view[e].binds.values().any(|c| *c == 0) {
                w.fail("C08", "bind-pending-after-end", format!("a bind request on {} never resolved after the connection ended", NAMES[e]));
            }
            if w.view[e].mux_alive {
                for op in ["accept", "dgrecv"] {
                    for _ in 0..8 {
                        let out = w.stim(e, &[s(op)]);
                        if out.starts_with("closed") { break; }
                        if out.starts_with("pending") {
                            w.fail("C08", &format!("{op}-pending-after-end"), format!("`{op}` on {} stays pending after the connection ended", NAMES[e]));
                            break;
                        }
                    }
                }
            }
        }
    }
}

// ==== wave 9a ====================================================================================
// Size dimensions of the quantifiers that no family reached: vectored writes of more than 1 MiB in
// several slices (C04), reads into a buffer without room (C05), windows advertised by the peer at and
// beyond the boundaries of the 32-bit field (C07), datagram payloads at the top of the 64 KiB range (C11).
// Helpers of `World` used by the monitors and generators above, then the case families.

/// Datagram payload lengths at the top of the documented range (0..64 KiB) and a little beyond it
/// (neither PROTOCOL.md nor `send_datagram` bounds the payload).
const DGRAM_TOP_LENGTHS: [usize; 8] = [65_507, 65_527, 65_528, 65_535, 65_536, 65_537, 66_000, 70_000];

/// Windows a peer may advertise in a `Connect` / in the `Acknowledge` that answers one: the boundaries of
/// the field and of every power of two an implementation might clamp to.
const WINDOW_BOUNDS: [u32; 9] = [0, 1, 2, 65_535, 65_536, 65_537, 70_000, 1 << 31, u32::MAX];

/// The bytes of a write-like stimulus (`write h d`, `writev h p…`, `wpush h d`).
fn write_data(t: &[&str]) -> Option<Vec<u8>> {
    let mut v = vec![];
    for p in t.get(2..)? { v.extend(unhex(p)?); }
    Some(v)
}

/// `IoSlice::advance_slices`: take `n` bytes off the front of a list of slices.
fn advance_slices(rest: &mut Vec<Vec<u8>>, mut n: usize) {
    while n > 0 && !rest.is_empty() {
        if rest[0].len() <= n { n -= rest[0].len(); rest.remove(0); } else { rest[0].drain(..n); n = 0; }
    }
    while rest.first().is_some_and(Vec::is_empty) { rest.remove(0); }
}

impl World {
    /// The pending write call of handle `h`, as it is made again: same entry point, same slices.
    fn retry_toks(&self, e: usize, h: usize) -> Option<Vec<String>> {
        let hi = self.view[e].handles.get(h)?;
        let d = hi.pending_write.as_ref()?;
        let mut t = vec![s(if hi.pending_op.is_empty() { "write" } else { hi.pending_op }), s(h)];
        if hi.pending_op == "writev" && !hi.pending_toks.is_empty() { t.extend(hi.pending_toks.iter().cloned()); } else { t.push(hexz(d)); }
        Some(t)
    }

    /// For one in five fresh `write h d` stimuli (decided by a hash of the position and the data: no draw
    /// from the case's generator): the same bytes as a `writev` of two to four slices, empty ones included.
    fn vectored_form(&self, e: usize, toks: &[String]) -> Option<Vec<String>> {
        let h: usize = toks[1].parse().ok()?;
        let hi = self.view[e].handles.get(h)?;
        if !hi.alive || hi.pending_write.is_some() { return None; }
        let tok = &toks[2];
        let head: String = tok.chars().take(48).collect();
        let x = fnv(format!("{}|{e}|{h}|{}|{head}", self.steps.len(), tok.len()).as_bytes());
        if x % 5 != 0 { return None; }
        let d = unhex(tok)?;
        let mut cuts: Vec<usize> = (0..1 + (x >> 8) % 3).map(|i| ((x >> (16 + 8 * i)) % (d.len() as u64 + 1)) as usize).collect();
        cuts.sort_unstable();
        let mut t = vec![s("writev"), s(h)];
        let mut from = 0;
        for c in cuts.into_iter().chain([d.len()]) { t.push(hexz(&d[from..c])); from = c; }
        Some(t)
    }

    /// C07 bookkeeping at the delivery of a frame to `e` (see `init_win`).
    fn init_window_note(&mut self, e: usize, frame: &str, evs: &str, up_e: bool) {
        if !frame_valid(frame) { return; }
        let Some((op, id, p)) = parse_frame(frame) else { return };
        let held_up = self.backlog[e][0] > self.opts[e].accept_cap || (self.opts[e].bind_cap > 0 && self.backlog[e][1] > self.opts[e].bind_cap);
        match op {
            0 if p.len() >= 6 => {
                let refused = evs.split("; ").any(|ev| ev.strip_prefix("wire ").and_then(parse_head) == Some((2, id)));
                if self.in_batch || !up_e || held_up || refused || id == 0 {
                    self.init_win[e].remove(&id);
                } else {
                    self.init_win[e].insert(id, (u64::from(u32::from_be_bytes([p[0], p[1], p[2], p[3]])), 0));
                }
            }
            1 if p.len() >= 4 => {
                // the Acknowledge that completes a request of e: a stream comes into being in this very step
                let handshake = !self.in_batch && up_e && evs.split("; ").any(|ev| ev.starts_with("opendone ") && ev.contains(" ok "));
                if handshake {
                    self.init_win[e].insert(id, (u64::from(u32::from_be_bytes([p[0], p[1], p[2], p[3]])), 0));
                } else {
                    self.init_win[e].remove(&id);
                }
            }
            2 => { self.init_win[e].remove(&id); }
            _ => {}
        }
    }

    /// The window monitors, at a write-like call on handle `h` of `e` that was accepted with a payload
    /// (`accepted` of them, for a run) and / or left pending.
    ///
    /// * C07 `credit-differs-from-advertised-window`: "each side's initial send credit equals the window the
    ///   other side advertised". Until a further Acknowledge of the flow is delivered, the writes accepted on the
    ///   stream number at most that window, and a write is left pending exactly when they number the window (for
    ///   a window of 0: the first write is pending). Judged for scripted peers too (the numbers are on the wire).
    /// * C04 `pending-with-credit`: between conforming endpoints, a write is left pending although the window
    ///   the peer advertised plus everything it has acknowledged since exceeds the Push frames this endpoint has
    ///   put on the wire — the writer waits for an Acknowledge the peer does not owe.
    fn window_watch(&mut self, e: usize, h: usize, accepted: u64, pending: bool, lagging: bool, up_e: bool) {
        let Some(id) = self.est[e].iter().find(|(_, hh)| **hh == h).map(|(id, _)| *id) else { return };
        if !up_e || self.any_reuse || self.reused { self.init_win[e].remove(&id); return; }
        if let Some(ent) = self.init_win[e].get_mut(&id) {
            ent.1 += accepted;
            let (win, acc) = *ent;
            if pending || acc > win { *self.mon.entry("initial-credit/judged").or_insert(0) += 1; }
            if acc > win || (pending && acc != win) {
                let msg = if acc > win {
                    format!("the peer of {} advertised a window of {win} for flow {id:08x} (in its Connect, or in the Acknowledge that answered {}'s Connect) and has acknowledged nothing since; {acc} writes with a payload have been accepted on stream {}#{h}: the initial send credit exceeds the advertised window", NAMES[e], NAMES[e], NAMES[e])
                } else {
                    format!("the peer of {} advertised a window of {win} for flow {id:08x} (in its Connect, or in the Acknowledge that answered {}'s Connect) and has acknowledged nothing since; a write on stream {}#{h} is left pending after only {acc} accepted writes: the initial send credit is smaller than the advertised window", NAMES[e], NAMES[e], NAMES[e])
                };
                self.init_win[e].remove(&id);
                if !self.fails.iter().any(|f| f.0 == "C07" && f.1 == "credit-differs-from-advertised-window") {
                    self.fails.push(("C07".into(), "credit-differs-from-advertised-window".into(), msg));
                }
            }
        }
        let held_up = self.backlog[e][0] >= self.opts[e].accept_cap || (self.opts[e].bind_cap > 0 && self.backlog[e][1] >= self.opts[e].bind_cap);
        if pending && !self.injected && !lagging && !self.sink_blocked[e] && !self.in_batch && !held_up && self.view[e].mux_alive {
            if let Some(c) = self.credit[e].get(&id).copied() {
                *self.mon.entry("pending-with-credit/judged").or_insert(0) += 1;
                if c > 0 {
                    let msg = format!("a write on stream {}#{h} (flow {id:08x}) is left pending although the window its peer advertised plus the frames the peer has acknowledged since exceed the Push frames {} has put on the wire by {c}: units of the window were spent without a frame, the writer waits for an Acknowledge the peer does not owe", NAMES[e], NAMES[e]);
                    self.fail("C04", "pending-with-credit", msg);
                }
            }
        }
    }
}

/// Set up two endpoints with scripted ids and one stream between them (either side opens); false when the
/// stream did not come into being on both ends.
fn one_stream(w: &mut World, r: &mut Rng) -> bool {
    for e in 0..2 {
        let mut t = vec![s("rng")];
        t.extend((0..8).map(|_| s(r.range(1, 0xffff_ffff))));
        w.stim(e, &t);
        w.view[e].rng_left = 8;
    }
    let oe = r.below(2) as usize;
    let req = w.next_req; w.next_req += 1;
    w.stim(oe, &[s("open"), s(req), hexd(&r.bytes(2)), s(1000 + req)]);
    w.deliver_next(1 - oe);
    w.stim(1 - oe, &[s("accept")]);
    w.deliver_next(oe);
    !w.view[0].handles.is_empty() && !w.view[1].handles.is_empty()
}

/// C04 (C02): records handed to the stream as vectored writes of several slices — header, body in one to
/// three pieces, empty slices in between — whose total is more than 1 MiB (also exactly 1 MiB, 1 MiB + 1, and
/// small ones), into a window of 2–8 frames that the reader acknowledges late or early; a call left pending
/// is made again with the same slices after the reader has read and its acknowledgement has travelled; a call
/// accepted in part (`write_vectored` may be partial) is continued with the rest, as `write_all_vectored` does.
/// Then a clean shutdown and the completion phase: every writer completes, every byte becomes readable.
fn large_vectored_case(r: &mut Rng, focus: Focus) -> World {
    let mut opts = [gen_opts(r, focus), gen_opts(r, focus)];
    let we = r.below(2) as usize;
    let re = 1 - we;
    let wnd = *r.pick(&[2u32, 3, 4, 4, 6, 8]);
    opts[re].rwnd = wnd;
    opts[re].threshold = match r.below(3) { 0 => wnd, 1 => wnd.div_ceil(2), _ => r.range(1, u64::from(wnd)) as u32 };
    // (the reader's threshold is capped by the window of the writer's side)
    opts[we].rwnd = opts[we].rwnd.max(wnd);
    let mut w = World::new(opts);
    if !one_stream(&mut w, r) {
        completion_phase(&mut w, r, focus);
        return w;
    }
    let tag = r.below(251) as usize;
    let drain = |w: &mut World| {
        while w.deliver_next(re) {}
        for _ in 0..16 { if !w.stim(re, &[s("read"), s(0), s(1u64 << 22)]).starts_with("data") { break; } }
        while w.deliver_next(we) {}
    };
    let records = r.range(2, 4);
    'rec: for _ in 0..records {
        let off = w.view[we].handles[0].written.len();
        let total = match r.below(6) {
            0 => 1usize << 20,
            1 => (1 << 20) + 1,
            2 => r.range(200, 5000) as usize,
            _ => r.range((1 << 20) + 2, 5 << 18) as usize,
        };
        let head = (*r.pick(&[0usize, 1, 16, 16, 300])).min(total);
        let mut lens = vec![head];
        let body = total - head;
        let mut cuts: Vec<usize> = (0..r.below(3)).map(|_| r.range(0, body as u64) as usize).collect();
        cuts.sort_unstable();
        let mut from = 0;
        for c in cuts.into_iter().chain([body]) { lens.push(c - from); from = c; }
        let mut rest: Vec<Vec<u8>> = vec![];
        let mut pos = 0;
        for l in lens {
            if r.chance(1, 3) { rest.push(vec![]); }
            rest.push(pvh::muxsim::pattern(l, ((tag + off + pos) % 251) as u8));
            pos += l;
        }
        let mut tries = 0;
        loop {
            let mut t = vec![s("writev"), s(0)];
            t.extend(rest.iter().map(|p| hexz(p)));
            let out = w.stim(we, &t);
            let res = out.split(" | ").next().unwrap_or("").to_string();
            if let Some(n) = res.strip_prefix("wrote ").and_then(|n| n.parse::<usize>().ok()) {
                advance_slices(&mut rest, n);
                if rest.is_empty() { break; }
                if n == 0 { break 'rec; }
                continue;
            }
            if res != "pending" { break 'rec; }
            tries += 1;
            if tries > 8 { break 'rec; }
            // the reader reads (now, or only after a spurious retry), its acknowledgement travels
            for _ in 0..r.range(0, 3) {
                match r.below(4) {
                    0 => { w.deliver_next(re); }
                    1 => { w.stim(re, &[s("read"), s(0), s(*r.pick(&[65_536u64, 1 << 22]))]); }
                    2 => { w.deliver_next(we); }
                    _ => { if let Some(rt) = w.retry_toks(we, 0) { w.stim(we, &rt); } }
                }
            }
            if w.view[we].handles[0].pending_write.is_none() { break 'rec; }
            drain(&mut w);
        }
        match r.below(3) {
            0 => { w.deliver_next(re); }
            1 => { drain(&mut w); }
            _ => {}
        }
    }
    if w.view[we].handles[0].pending_write.is_none() && r.chance(2, 3) {
        w.stim(we, &[s("shutdown"), s(0)]);
    }
    completion_phase(&mut w, r, focus);
    w
}

/// C07, "each side's initial send credit equals the window the other side advertised", for the windows a
/// conforming `Multiplexor` cannot be configured with or that take too long to fill one call at a time: a
/// scripted peer advertises 0, 1, 2, 65535, 65536, 65537, 70000, 2^31, 2^32 − 1 — in a `Connect` (the endpoint
/// accepts) or in the `Acknowledge` that answers the endpoint's own `Connect` (it requests). The application
/// then writes one-octet frames back to back (`writemany`) without any further Acknowledge: exactly the
/// advertised number is accepted before the first write is left pending (for the largest windows: more than
/// 65536 are accepted); a later Acknowledge of m allows exactly m more.
fn window_boundary_case(r: &mut Rng, focus: Focus, idx: u64) -> World {
    let win = WINDOW_BOUNDS[(idx / 2) as usize % WINDOW_BOUNDS.len()];
    let requester = idx % 2 == 1;
    let mut w = World::new([gen_opts(r, focus), gen_opts(r, focus)]);
    for e in 0..2 {
        let mut t = vec![s("rng")];
        t.extend((0..8).map(|_| s(r.range(1, 0xffff_ffff))));
        w.stim(e, &t);
        w.view[e].rng_left = 8;
    }
    let e = r.below(2) as usize;
    let hl = r.range(0, 3) as usize;
    let host = r.bytes(hl);
    let id: Option<u32> = if requester {
        let req = w.next_req; w.next_req += 1;
        w.stim(e, &[s("open"), s(req), hexd(&host), s(1000 + req)]);
        // the scripted peer takes the Connect and answers with its window
        let id = w.wire[e].iter().rev().find_map(|m| parse_head(m).filter(|(op, _)| *op == 0).map(|x| x.1));
        w.stim(e, &[s("wiredrop")]);
        if let Some(id) = id {
            let mut f = vec![0x71u8];
            f.extend_from_slice(&id.to_be_bytes());
            f.extend_from_slice(&win.to_be_bytes());
            w.stim(e, &[s("deliver"), s("bin"), hexd(&f)]);
        }
        id
    } else {
        let id = r.range(1, 0xffff_fffe) as u32;
        let mut f = vec![0x70u8];
        f.extend_from_slice(&id.to_be_bytes());
        f.extend_from_slice(&win.to_be_bytes());
        f.extend_from_slice(&(r.range(1, 65535) as u16).to_be_bytes());
        f.extend_from_slice(&host);
        w.injected = true;
        w.stim(e, &[s("deliver"), s("bin"), hexd(&f)]);
        w.stim(e, &[s("accept")]);
        // (the endpoint's Acknowledge goes to the scripted peer)
        w.stim(e, &[s("wiredrop")]);
        Some(id)
    };
    let (Some(id), false) = (id, w.view[e].handles.is_empty()) else {
        fair_completion(&mut w, 10);
        final_checks(&mut w);
        return w;
    };
    let tag = r.below(251) as usize;
    // a few ordinary calls first (they count), now and then a read that finds nothing
    for _ in 0..r.below(3) {
        let off = w.view[e].handles[0].written.len();
        if w.view[e].handles[0].pending_write.is_some() { break; }
        w.stim(e, &[s("write"), s(0), hexd(&[((tag + off) % 251) as u8])]);
    }
    if r.chance(1, 3) { w.stim(e, &[s("read"), s(0), s(*r.pick(&[0u64, 1, 64]))]); }
    let n = if win <= 70_000 { u64::from(win) + r.range(1, 40) } else { 65_536 + r.range(1, 300) };
    if let Some(rt) = w.retry_toks(e, 0) { w.stim(e, &rt); }
    if w.view[e].handles[0].pending_write.is_none() {
        let off = w.view[e].handles[0].written.len();
        w.stim(e, &[s("writemany"), s(0), s(n), s((tag + off) % 251)]);
        w.stim(e, &[s("wiredrop")]);
    }
    // the peer grants a little more: exactly that many further writes are accepted
    if w.view[e].handles[0].pending_write.is_some() {
        let m = r.range(1, 3) as u32;
        let mut f = vec![0x71u8];
        f.extend_from_slice(&id.to_be_bytes());
        f.extend_from_slice(&m.to_be_bytes());
        w.stim(e, &[s("deliver"), s("bin"), hexd(&f)]);
        if let Some(rt) = w.retry_toks(e, 0) { w.stim(e, &rt); }
        if w.view[e].handles[0].pending_write.is_none() {
            let off = w.view[e].handles[0].written.len();
            w.stim(e, &[s("writemany"), s(0), s(u64::from(m) + 1), s((tag + off) % 251)]);
        }
        w.stim(e, &[s("wiredrop")]);
    }
    fair_completion(&mut w, 10);
    final_checks(&mut w);
    w
}

/// C11, "payload length 0..64 KiB … a datagram is lost only when the receiver's datagram buffer is full or the
/// connection ends": datagrams whose payload is at the top of the range or a little beyond (65507, 65527,
/// 65528, 65535, 65536, 65537, 66000, 70000 octets; hosts of 0, 1, 255 octets; flow id 0, that of a stream, any),
/// each followed by a small one, between two conforming endpoints — with or without a stream in use on the
/// same connection; the receiving application then takes everything its buffer holds.
fn dgram_boundary_case(r: &mut Rng, focus: Focus, idx: u64) -> World {
    let mut opts = [gen_opts(r, focus), gen_opts(r, focus)];
    let se = r.below(2) as usize;
    let re = 1 - se;
    if r.chance(2, 3) { opts[re].dgram_cap = opts[re].dgram_cap.max(r.range(2, 6) as usize); }
    let mut w = World::new(opts);
    let with_stream = r.chance(1, 2);
    if with_stream {
        one_stream(&mut w, r);
    } else {
        for e in 0..2 {
            let mut t = vec![s("rng")];
            t.extend((0..8).map(|_| s(r.range(1, 0xffff_ffff))));
            w.stim(e, &t);
            w.view[e].rng_left = 8;
        }
    }
    let have_stream = with_stream && !w.view[0].handles.is_empty() && !w.view[1].handles.is_empty();
    let stream_ids: Vec<u32> = { let mut v: Vec<u32> = w.fid_port.keys().copied().collect(); v.sort_unstable(); v };
    let tag = r.next() as u8;
    let write_some = |w: &mut World, r: &mut Rng| {
        if have_stream && w.view[se].handles[0].pending_write.is_none() {
            let d = gen_payload(r, tag, w.view[se].handles[0].written.len());
            let d = if d.is_empty() { vec![tag] } else { d };
            w.stim(se, &[s("write"), s(0), hexd(&d)]);
        }
    };
    let take_all = |w: &mut World| {
        for _ in 0..12 { if !w.stim(re, &[s("dgrecv")]).starts_with("dgram") { break; } }
    };
    let n = r.range(1, 3);
    for j in 0..n {
        if r.chance(1, 2) { write_some(&mut w, r); }
        let dl = DGRAM_TOP_LENGTHS[((idx + j) as usize) % DGRAM_TOP_LENGTHS.len()];
        let hl = *r.pick(&[0usize, 1, 255, 255, 7]);
        let fid = match r.below(4) { 0 => 0, 1 if !stream_ids.is_empty() => u64::from(*r.pick(&stream_ids)), _ => r.range(1, 0xffff_ffff) };
        let k = r.below(251) as u8;
        w.stim(se, &[s("dgsend"), s(fid), hexd(&r.bytes(hl)), s(r.range(0, 65535)), hexz(&pvh::muxsim::pattern(dl, k))]);
        if r.chance(1, 3) { while w.deliver_next(re) {} }
        // the small one behind it
        w.stim(se, &[s("dgsend"), s(r.range(1, 9)), hexd(&r.bytes(2)), s(53), hexd(&[0xd0 | j as u8, k])]);
        if r.chance(1, 2) { write_some(&mut w, r); }
        if r.chance(2, 3) {
            while w.deliver_next(re) {}
            take_all(&mut w);
        }
    }
    while w.deliver_next(re) {}
    take_all(&mut w);
    if have_stream { w.stim(re, &[s("read"), s(0), s(4096)]); }
    fair_completion(&mut w, 20);
    take_all(&mut w);
    final_checks(&mut w);
    w
}

/// C05, "a read returns end-of-stream only after the peer has shut down or aborted that stream or the
/// connection has ended": reads into a buffer without room (`read(&mut [])`, the readiness probe of HTTP
/// stacks and proxies) among ordinary reads — in the middle of a partly consumed frame, on an idle stream
/// (the call parks; the next frame makes it complete), with frames queued behind, after the peer's Finish —
/// and then ordinary reads to the end: they return every byte, and end-of-stream only after the peer finished.
fn zero_room_read_case(r: &mut Rng, focus: Focus) -> World {
    let mut opts = [gen_opts(r, focus), gen_opts(r, focus)];
    let we = r.below(2) as usize;
    let re = 1 - we;
    opts[re].rwnd = opts[re].rwnd.max(*r.pick(&[2u32, 4, 8]));
    let mut w = World::new(opts);
    if !one_stream(&mut w, r) {
        completion_phase(&mut w, r, focus);
        return w;
    }
    let tag = r.next() as u8;
    // now and then the probe comes first: the stream is idle, the call is left pending
    if r.chance(1, 2) { w.stim(re, &[s("read"), s(0), s(0)]); }
    for _ in 0..r.range(3, 14) {
        match r.below(8) {
            0 | 1 => {
                let hi = &w.view[we].handles[0];
                if hi.shutdown { continue; }
                match w.retry_toks(we, 0) {
                    Some(rt) => { w.stim(we, &rt); }
                    None => {
                        let d = gen_payload(r, tag, hi.written.len());
                        let d = if d.is_empty() { vec![tag] } else { d };
                        w.stim(we, &[s("write"), s(0), hexd(&d)]);
                    }
                }
            }
            2 | 3 => { w.deliver_next(re); }
            4 => { w.deliver_next(we); }
            5 | 6 => { w.stim(re, &[s("read"), s(0), s(0)]); }
            _ => { w.stim(re, &[s("read"), s(0), s(*r.pick(&[1u64, 2, 5, 64]))]); }
        }
    }
    // the reader writes back: its own direction is not affected by anything above
    if r.chance(1, 2) { w.stim(re, &[s("write"), s(0), hexd(&[tag, 0x5a])]); }
    if r.chance(2, 3) && w.view[we].handles[0].pending_write.is_none() {
        w.stim(we, &[s("shutdown"), s(0)]);
        if r.chance(1, 2) { while w.deliver_next(re) {} w.stim(re, &[s("read"), s(0), s(0)]); }
    }
    completion_phase(&mut w, r, focus);
    w
}
// ==== end of wave 9a =============================================================================

// =================================================================================================
// ==== wave 9b ====================================================================================
// Three dimensions the generator did not reach, each with its monitor (all independent of the model):
//
// * the EARLIEST cut point (C08): application calls made before the connection task has been polled for
//   the first time (`new E … unstarted`, stimulus `start E` = the first poll), with a transport that is
//   already dead then — a failing sink (`sinkfail E`, new: every sink operation reports an error), a source
//   that fails / ends / carries the peer's Close first. Family `dead_on_arrival_case`; monitors
//   `open-unresolved-at-end`, `bind-unresolved-at-end`, `end-not-acted-on` at the very stimulus that makes
//   the task meet the end (besides the end-of-case ones: `open-pending-after-end`, …).
// * the bind accept queue FULL at the end of the connection, more `Bind` frames of the peer in the receive
//   path right behind the end, own bind / stream requests pending (C15, C08): family
//   `bind_backlog_at_end_case`; monitor `bind-unresolved-at-end` (C15, C08): the end is acted on at once,
//   whatever the application takes from its queues afterwards — judged at the terminating stimulus itself,
//   BEFORE the completion phase lets the application take bind requests (which would release a wind-down
//   that waits for room in the queue).
// * an abort after a `Reset` that closed nothing (C06): a `Connect` on an id that is IN USE by a live stream
//   is refused with a Reset and the stream stays; a `Push` after the peer's `Finish` is answered with a Reset
//   and the stream stays; then the application drops that stream. Family `refused_connect_then_drop_case`;
//   monitor `abort-not-announced` over an exact shadow of "which handle's stream sits in the flow table
//   under this id" (`W9b::live`), fed by the flow id each stream itself reports (its `Debug` output) — it does
//   not need the port pairing of the two applications, so it also judges cases with injected frames.
// =================================================================================================

#[derive(Default)]
struct W9b {
    /// the task of the endpoint is created but has not been polled yet (`start` not given so far)
    unstarted: [bool; 2],
    /// … as the case was created (the header line says so)
    created_unstarted: [bool; 2],
    /// `sinkfail` was given to the endpoint
    sink_failed: [bool; 2],
    /// the flow id of the stream behind handle (e, h), as the stream reported it when the application got it
    hfid: HashMap<(usize, usize), u32>,
    /// flow id -> the handle whose stream CERTAINLY is the one the endpoint's flow table holds under that id:
    /// set when the application gets a stream whose creation was observed (the Acknowledge that answered its
    /// own request; the one Connect on that id that was taken in and not refused), removed on anything that
    /// may take the slot away — a Reset of the peer delivered, a Reset of its own that is not a mere refusal,
    /// the drop of ANY handle with that id (the notification carries the id only), the end of the connection,
    /// a sink that holds frames back (Resets of its own are then not seen in time)
    live: [HashMap<u32, usize>; 2],
    /// flow id -> (Connects on it taken in and not refused whose streams the application has not accepted yet,
    /// nothing has happened to that id since)
    unacc: [HashMap<u32, (usize, bool)>; 2],
    /// flow ids on which a Finish of the peer has been dispatched since the stream in `live` was created: a
    /// Push on such an id is answered with a Reset that closes nothing
    fin_in: [std::collections::HashSet<u32>; 2],
    /// ids whose bookkeeping is uncertain for the rest of the case
    poison: [std::collections::HashSet<u32>; 2],
    /// handles on which `shutdown` was called, whatever it answered
    shutdown_tried: std::collections::HashSet<(usize, usize)>,
}

/// What held at endpoint `e` before a stimulus.
struct Pre9b {
    /// started, task not finished, no terminating stimulus so far
    up: bool,
    was_unstarted: bool,
    /// the sink holds frames back, or the stimulus moves it
    blocked: bool,
    term_none: bool,
    backlog: [usize; 2],
    /// (alive, shutdown, broken) per handle
    handles: Vec<(bool, bool, bool)>,
}

fn rst_event(id: u32) -> String {
    format!("wire {}", hexd(&[&[0x72u8][..], &id.to_be_bytes()[..]].concat()))
}

impl World {
    fn w9b_pre(&mut self, e: usize, t: &[&str]) -> Pre9b {
        let v = &self.view[e];
        let pre = Pre9b {
            up: !v.exited && v.terminated_by.is_none() && !self.w9b.unstarted[e],
            was_unstarted: self.w9b.unstarted[e],
            blocked: self.sink_blocked[e] || matches!(t[0], "sinkblock" | "sinkgrant" | "sinkunblock"),
            term_none: v.terminated_by.is_none(),
            backlog: self.backlog[e],
            handles: v.handles.iter().map(|h| (h.alive, h.shutdown, h.broken)).collect(),
        };
        for (k, x) in t.iter().enumerate() {
            if *x == "shutdown" && (k == 0 || t[0] == "batch") {
                if let Some(h) = t.get(k + 1).and_then(|h| h.parse::<usize>().ok()) { self.w9b.shutdown_tried.insert((e, h)); }
            }
        }
        if t[0] == "sinkfail" {
            // the connection ends here (observed before the events of the step are: the task's exit is expected)
            self.w9b.sink_failed[e] = true;
            if self.view[e].terminated_by.is_none() { self.view[e].terminated_by = Some("sinkfail".into()); }
            self.faulted = true;
            self.ep_faulted[e] = true;
            self.dg_q_ok[e] = false;
            self.est[e].clear();
            self.pend[e].clear();
            self.inc[e].clear();
            self.tabled[e].clear();
            self.abandoned[e].clear();
            self.bind_wire[e].clear();
        }
        pre
    }

    #[allow(clippy::too_many_lines)]
    fn w9b_post(&mut self, e: usize, t: &[&str], out: &str, pre: &Pre9b) {
        if matches!(t[0], "rng" | "wstate" | "flowcount") { return; }
        let (res, evs) = out.split_once(" | ").unwrap_or((out, ""));
        let evl: Vec<&str> = evs.split("; ").filter(|x| !x.is_empty()).collect();
        let single_bin = t[0] == "deliver" && t.get(1) == Some(&"bin") && t.len() == 3;
        let frame: Option<(u8, u32)> = if single_bin && frame_valid(t[2]) { parse_head(t[2]) } else { None };
        // the task ran after this stimulus, nothing it sent is held back, its receive loop was certainly not
        // waiting for room in a queue (so a frame delivered now was dispatched now)
        let held_up = pre.backlog[0] >= self.opts[e].accept_cap || (self.opts[e].bind_cap > 0 && pre.backlog[1] >= self.opts[e].bind_cap);
        let sure_step = pre.up && !pre.blocked && self.view[e].mux_alive;
        if !sure_step {
            self.w9b.live[e].clear();
            self.w9b.fin_in[e].clear();
            for u in self.w9b.unacc[e].values_mut() { u.1 = false; }
        }
        let forget = |w9b: &mut W9b, id: u32| {
            w9b.live[e].remove(&id);
            w9b.fin_in[e].remove(&id);
            if let Some(u) = w9b.unacc[e].get_mut(&id) { u.1 = false; }
        };

        // 1. the handles the application lets go of in this stimulus
        let dropped: Vec<usize> = if matches!(t[0], "dropstream" | "dropmany") && res == "unit" {
            t[1..].iter().filter_map(|x| x.parse::<usize>().ok()).filter(|h| pre.handles.get(*h).is_some_and(|x| x.0)).collect()
        } else { vec![] };
        let dropped_fids: Vec<Option<u32>> = dropped.iter().map(|h| self.w9b.hfid.get(&(e, *h)).copied()).collect();

        // 2. Resets this endpoint put on the wire: a refusal of a Connect on an id in use and the answer to a Push
        // behind the peer's Finish close nothing; the announcement of a drop is dealt with below; any other
        // may have taken the slot away
        for ev in &evl {
            let Some((2, id)) = ev.strip_prefix("wire ").and_then(parse_head) else { continue };
            let refusal = frame == Some((0, id)) && sure_step && !held_up;
            let behind_finish = frame == Some((4, id)) && sure_step && !held_up && self.w9b.fin_in[e].contains(&id);
            let announced = dropped_fids.contains(&Some(id));
            if !refusal && !behind_finish && !announced { forget(&mut self.w9b, id); }
        }

        // 3. what was delivered
        if let Some((op, id)) = frame {
            match op {
                0 if id != 0 => {
                    if !sure_step || held_up {
                        self.w9b.poison[e].insert(id);
                    } else if !evl.contains(&rst_event(id).as_str()) {
                        // taken in: the table had no such id (whatever the shadow said is over), now it has this stream
                        forget(&mut self.w9b, id);
                        let u = self.w9b.unacc[e].entry(id).or_insert((0, true));
                        u.0 += 1;
                    }
                }
                2 => forget(&mut self.w9b, id),
                3 if sure_step && !held_up => { self.w9b.fin_in[e].insert(id); }
                _ => {}
            }
        } else if matches!(t[0], "deliver" | "batch") {
            // several items at once (or an undecodable one): ids of Connect and Reset frames among them are not followed
            for x in t {
                if let Some((op, id)) = parse_head(x) {
                    if op == 0 || op == 2 { self.w9b.poison[e].insert(id); forget(&mut self.w9b, id); }
                }
            }
        }

        // 4. streams the application got
        let calls: Vec<(&[&str], &str)> = if t[0] == "batch" {
            t[1..].split(|x| *x == ";").zip(res.split(" , ")).collect()
        } else { vec![(t, res)] };
        for (call, r) in calls {
            if call.first() == Some(&"dropstream") && t[0] == "batch" {
                if let Some(fid) = call.get(1).and_then(|h| h.parse::<usize>().ok()).and_then(|h| self.w9b.hfid.get(&(e, h)).copied()) { forget(&mut self.w9b, fid); } else { self.w9b.live[e].clear(); }
            }
            if call.first() != Some(&"accept") { continue; }
            let rt: Vec<&str> = r.split(' ').collect();
            let ["stream", h, ..] = rt.as_slice() else { continue };
            let Ok(h) = h.parse::<usize>() else { continue };
            let Some(fid) = self.sims[e].flow_id(h) else { self.w9b.live[e].clear(); continue };
            self.w9b.hfid.insert((e, h), fid);
            let sure = t[0] != "batch" && pre.up && self.w9b.unacc[e].get(&fid) == Some(&(1, true)) && !self.w9b.poison[e].contains(&fid);
            if let Some(u) = self.w9b.unacc[e].get_mut(&fid) {
                u.0 = u.0.saturating_sub(1);
                if u.0 == 0 { self.w9b.unacc[e].remove(&fid); }
            }
            if sure && sure_step { self.w9b.live[e].insert(fid, h); }
        }
        for ev in &evl {
            let et: Vec<&str> = ev.split(' ').collect();
            let ["opendone", _, "ok", h] = et.as_slice() else { continue };
            let Ok(h) = h.parse::<usize>() else { continue };
            let Some(fid) = self.sims[e].flow_id(h) else { self.w9b.live[e].clear(); continue };
            self.w9b.hfid.insert((e, h), fid);
            // (the Acknowledge that answered the request was dispatched in this very step)
            if frame == Some((1, fid)) && sure_step && !held_up && !self.w9b.poison[e].contains(&fid) {
                self.w9b.fin_in[e].remove(&fid);
                self.w9b.live[e].insert(fid, h);
            }
        }

        // 5. C06 `abort-not-announced`: the application drops a stream it has not shut down; that stream is the
        // one in the endpoint's flow table; the connection is up and the sink takes frames: when the endpoint is
        // quiescent again its Reset of that flow is on the wire (task.rs `close_flow_local`: not `finish_sent`)
        for (k, h) in dropped.iter().enumerate() {
            let Some(fid) = dropped_fids[k] else { self.w9b.live[e].clear(); continue };
            let (_, shutdown, broken) = pre.handles[*h];
            if self.w9b.live[e].get(&fid) == Some(h) && sure_step && !shutdown && !broken && !self.w9b.shutdown_tried.contains(&(e, *h)) {
                *self.mon.entry("abort-announced/judged").or_insert(0) += 1;
                if !evl.contains(&rst_event(fid).as_str()) {
                    let msg = format!("the application of {} dropped stream #{h} (flow {fid:08x}) without shutting it down; that stream was established and nothing had closed it — no Reset of the peer, no Reset of {}'s own other than refusals of a Connect on the id in use / answers to a Push behind the peer's Finish, no other handle of that id dropped — the connection is up and the sink takes frames, yet endpoint {} is quiescent and has put no Reset {fid:08x} on the wire: the peer is never told of the abort (events of the step: {})",
                        NAMES[e], NAMES[e], NAMES[e], if evs.is_empty() { "none" } else { evs });
                    // (recorded without the reuse suffix: the stream that owns the id is the current one)
                    if !self.fails.iter().any(|f| f.0 == "C06" && f.1 == "abort-not-announced") {
                        self.fails.push(("C06".into(), "abort-not-announced".into(), msg));
                    }
                }
            }
            forget(&mut self.w9b, fid);
        }

        // 6. C15 / C08 `…-unresolved-at-end`: the connection has ended and the task has met the end in this very
        // step — the source yielded an error / its end / the peer's Close while the receive loop was certainly
        // not waiting for room in a queue; the sink failed (the send loop meets that whatever the receive loop
        // does); the task's first poll found the transport already dead. Nothing in the wind-down waits for
        // the application: every stream and bind request of this endpoint is resolved and the task has
        // finished when the endpoint is quiescent again, whatever the application takes from its queues later.
        let term = self.view[e].terminated_by.clone();
        let ended = term.as_deref().is_some_and(|x| x != "dropmux");
        let many = t[0] == "deliver" && t.get(1) == Some(&"many");
        let (mut c0, mut c5) = (pre.backlog[0], pre.backlog[1]);
        if many {
            for x in &t[2..] {
                if !frame_valid(x) { break; }
                match parse_op(x) { Some(0) => c0 += 1, Some(5) => c5 += 1, _ => {} }
            }
        }
        let not_parked = c0 <= self.opts[e].accept_cap && (self.opts[e].bind_cap == 0 || c5 <= self.opts[e].bind_cap);
        let error_end = matches!(term.as_deref(), Some("err" | "err2" | "bad"));
        let kind: Option<&str> = if t[0] == "sinkfail" && pre.up {
            Some("its sink failed")
        } else if t[0] == "start" && pre.was_unstarted && ended && (self.w9b.sink_failed[e] || (not_parked && (!pre.blocked || error_end))) {
            Some("its task was polled for the first time, the transport being dead already")
        } else if t[0] == "deliver" && pre.up && pre.term_none && ended && not_parked && (!pre.blocked || error_end) {
            Some("its source yielded the end of the connection")
        } else { None };
        if let Some(kind) = kind {
            *self.mon.entry("resolved-at-end/judged").or_insert(0) += 1;
            let mut binds: Vec<u64> = self.view[e].binds.iter().filter(|(r, c)| **c == 0 && !self.sims[e].req_held(**r)).map(|(r, _)| *r).collect();
            binds.sort_unstable();
            let mut opens: Vec<u64> = self.view[e].opens.keys().copied().filter(|r| !self.sims[e].req_held(*r)).collect();
            opens.sort_unstable();
            let line = t.join(" ");
            let line: String = line.chars().take(80).collect();
            let tail = format!("endpoint {} is quiescent after `{line}` ({kind}; nothing in the wind-down may wait for the application) — events of the step: {}", NAMES[e], if evs.is_empty() { "none" } else { evs });
            if !binds.is_empty() {
                *self.mon.entry("resolved-at-end/with-bind-pending").or_insert(0) += 1;
                let msg = format!("bind request(s) {binds:?} of {} are still unresolved although the connection has ended: a bind request resolves exactly once, with `false` or Closed if the connection ended first; {tail}", NAMES[e]);
                for prop in ["C15", "C08"] {
                    if !self.fails.iter().any(|f| f.0 == prop && f.1 == "bind-unresolved-at-end") {
                        self.fails.push((prop.into(), "bind-unresolved-at-end".into(), msg.clone()));
                    }
                }
            }
            if !opens.is_empty() {
                let msg = format!("stream request(s) {opens:?} of {} are still pending although the connection has ended: they complete with Closed; {tail}", NAMES[e]);
                if !self.fails.iter().any(|f| f.0 == "C08" && f.1 == "open-unresolved-at-end") {
                    self.fails.push(("C08".into(), "open-unresolved-at-end".into(), msg));
                }
            }
            if t[0] != "deliver" && !evl.iter().any(|ev| ev.starts_with("exit ")) {
                let msg = format!("the connection task of {} has not finished although the connection has ended; {tail}", NAMES[e]);
                if !self.fails.iter().any(|f| f.0 == "C08" && f.1 == "end-not-acted-on") {
                    self.fails.push(("C08".into(), "end-not-acted-on".into(), msg));
                }
            }
        }
        if t[0] == "start" { self.w9b.unstarted[e] = false; }
    }
}

fn w9b_scripts(w: &mut World, r: &mut Rng, n: usize) -> [Vec<u32>; 2] {
    let mut all = [vec![], vec![]];
    for k in 0..2 {
        let ids: Vec<u32> = (0..n).map(|_| r.range(1, 0xffff_ffff) as u32).collect();
        let mut t = vec![s("rng")];
        t.extend(ids.iter().map(s));
        w.stim(k, &t);
        w.view[k].rng_left = n;
        all[k] = ids;
    }
    all
}

/// C08 (also C15, C07): application calls made before the connection task is polled for the first time, and a
/// transport that is already dead — or closed by the peer, or not ready — at that first poll.
fn dead_on_arrival_case(r: &mut Rng, focus: Focus) -> World {
    let mut opts = [gen_opts(r, focus), gen_opts(r, focus)];
    let e = r.below(2) as usize;
    let pe = 1 - e;
    if r.chance(2, 3) { opts[e].bind_cap = r.range(1, 3) as usize; }
    if r.chance(1, 2) { opts[pe].bind_cap = r.range(1, 2) as usize; }
    let mut un = [false; 2];
    un[e] = true;
    // now and then neither task has run yet
    if r.chance(1, 6) { un[pe] = true; }
    let mut w = World::new_with(opts, un);
    w9b_scripts(&mut w, r, 12);
    let call = |w: &mut World, r: &mut Rng, k: usize, which: u64| {
        match which {
            0 | 1 => {
                let req = w.next_req; w.next_req += 1; w.view[k].rng_left = w.view[k].rng_left.saturating_sub(2);
                let hl = r.range(0, 5) as usize;
                w.stim(k, &[s("open"), s(req), hexd(&r.bytes(hl)), s(1000 + req)]);
            }
            2 | 3 => {
                let req = w.next_req; w.next_req += 1; w.view[k].rng_left = w.view[k].rng_left.saturating_sub(2);
                let hl = r.range(0, 5) as usize;
                w.stim(k, &[s("bindreq"), s(req), s(if r.chance(1, 2) { 1 } else { 3 }), hexd(&r.bytes(hl)), s(2000 + req)]);
            }
            4 => { w.stim(k, &[s("accept")]); }
            5 => { w.stim(k, &[s("dgrecv")]); }
            6 => { w.stim(k, &[s("bindnext")]); }
            _ => { w.stim(k, &[s("dgsend"), s(r.range(0, 9)), hexd(&r.bytes(2)), s(53), hexd(&r.bytes(3))]); }
        }
    };
    // what the peer has sent by the time the task first runs
    if r.chance(1, 2) {
        for _ in 0..r.range(1, 3) { let k = r.below(8); call(&mut w, r, pe, if k >= 4 { 7 } else { k }); }
        if !un[pe] && r.chance(2, 3) { while w.deliver_next(e) {} }
    }
    let fault_first = r.chance(1, 3);
    let fault = r.below(9);
    let give_fault = |w: &mut World| {
        match fault {
            0 => {}
            1 | 2 => { w.stim(e, &[s("sinkfail")]); }
            3 => { w.stim(e, &[s("sinkfail")]); w.stim(e, &[s("deliver"), s("err")]); }
            4 => { w.stim(e, &[s("deliver"), s("err")]); }
            5 => { w.stim(e, &[s("deliver"), s("eof")]); }
            6 => { w.stim(e, &[s("deliver"), s("close")]); }
            7 => { w.stim(e, &[s("deliver"), s("eof")]); w.stim(e, &[s("sinkfail")]); }
            _ => { w.sink_blocked[e] = true; w.stim(e, &[s("sinkblock")]); }
        }
    };
    if fault_first { give_fault(&mut w); }
    // the calls in flight when the task first runs: mostly with a stream or a bind request among them
    let n = r.range(1, 5);
    let must = r.below(4);
    for k in 0..n {
        let which = if k == 0 && r.chance(3, 4) { must } else { r.below(8) };
        call(&mut w, r, e, which);
    }
    if !fault_first { give_fault(&mut w); }
    if r.chance(1, 4) { let k = r.below(4); call(&mut w, r, e, k); }
    w.stim(e, &[s("start")]);
    if un[pe] { w.stim(pe, &[s("start")]); }
    // calls made after the task has met the end
    for _ in 0..r.range(0, 3) { let k = r.below(8); call(&mut w, r, e, k); }
    if matches!(fault, 0 | 8) && r.chance(2, 3) && !w.view[e].exited {
        // the transport was healthy (or merely not ready) at the first poll: things travel for a while, then the
        // outbound direction fails at a later point, with whatever is pending by then
        if w.sink_blocked[e] { w.sink_blocked[e] = false; w.stim(e, &[s("sinkunblock")]); }
        for _ in 0..r.range(0, 4) {
            match r.below(4) {
                0 => { w.deliver_next(pe); }
                1 => { w.deliver_next(e); }
                2 => { let k = r.below(8); call(&mut w, r, pe, k); }
                _ => { let k = r.below(8); call(&mut w, r, e, k); }
            }
        }
        w.stim(e, &[s("sinkfail")]);
    }
    fair_completion(&mut w, 20);
    final_checks(&mut w);
    w
}

/// C15 / C08: the connection ends while the bind accept queue of the endpoint is FULL (its application has not
/// called `next_bind_request`), more `Bind` frames of the peer are in the receive path right behind the end
/// (in the same batch as the Close / the undecodable frame, or waiting behind a receive loop that is parked on
/// the full queue when the sink fails), and the endpoint has bind requests (and a stream request) of its own
/// pending. Queue capacities 1–4.
fn bind_backlog_at_end_case(r: &mut Rng, focus: Focus) -> World {
    let mut opts = [gen_opts(r, focus), gen_opts(r, focus)];
    let e = r.below(2) as usize;
    let pe = 1 - e;
    let cap = *r.pick(&[1usize, 1, 2, 2, 3, 4]);
    opts[e].bind_cap = cap;
    if r.chance(4, 5) { opts[pe].bind_cap = r.range(1, 3) as usize; }
    let mut w = World::new(opts);
    w9b_scripts(&mut w, r, 24);
    // the endpoint's own requests: nobody answers them before the end
    for _ in 0..r.range(1, 2) {
        let req = w.next_req; w.next_req += 1;
        let hl = r.range(0, 5) as usize;
        w.stim(e, &[s("bindreq"), s(req), s(if r.chance(1, 2) { 1 } else { 3 }), hexd(&r.bytes(hl)), s(2000 + req)]);
    }
    if r.chance(1, 2) {
        let req = w.next_req; w.next_req += 1;
        w.stim(e, &[s("open"), s(req), hexd(&r.bytes(2)), s(1000 + req)]);
    }
    if r.chance(2, 3) { while w.deliver_next(pe) {} }
    // the application of e has taken (and perhaps answered) a request or two earlier on
    let taken = if r.chance(1, 4) { r.range(1, 2) as usize } else { 0 };
    let behind = r.range(1, 3) as usize;
    let parked = r.chance(1, 3);
    let total = taken + cap + behind + usize::from(parked);
    for _ in 0..total {
        let req = w.next_req; w.next_req += 1;
        let hl = r.range(0, 4) as usize;
        w.stim(pe, &[s("bindreq"), s(req), s(if r.chance(1, 2) { 1 } else { 3 }), hexd(&r.bytes(hl)), s(2000 + req)]);
    }
    let is_bind = |m: &String| parse_op(m) == Some(5);
    // deliver up to and including the k-th Bind that is on the peer's wire
    let deliver_binds = |w: &mut World, k: usize| {
        let mut got = 0;
        while got < k {
            let Some(m) = w.wire[pe].front().cloned() else { break };
            if !w.deliver_next(e) { break; }
            if is_bind(&m) { got += 1; }
        }
    };
    deliver_binds(&mut w, taken);
    for _ in 0..taken {
        let out = w.stim(e, &[s("bindnext")]);
        if let Some(k) = out.strip_prefix("bindreq ").and_then(|x| x.split(' ').next()).and_then(|x| x.parse::<usize>().ok()) {
            match r.below(3) {
                0 => { w.answered.insert((e, k)); w.stim(e, &[s("bindreply"), s(k), s(r.below(2))]); }
                1 => { w.stim(e, &[s("binddrop"), s(k)]); }
                _ => {}
            }
        }
    }
    // the queue fills up; with `parked` one more request arrives and the receive loop waits for room
    deliver_binds(&mut w, cap + usize::from(parked));
    // the end, with the peer's remaining Bind frames right behind it
    let take_binds = |w: &mut World, t: &mut Vec<String>, n: usize| {
        for _ in 0..n {
            match w.wire[pe].front() {
                Some(m) if !matches!(m.as_str(), "ping" | "pong" | "close") => { t.push(w.wire[pe].pop_front().unwrap()); }
                _ => break,
            }
        }
    };
    match r.below(6) {
        0 | 1 => {
            let mut t = vec![s("deliver"), s("closemany")];
            take_binds(&mut w, &mut t, behind);
            w.exchanged = true;
            w.stim(e, &t);
        }
        2 => {
            // an undecodable frame in the middle of the burst
            w.injected = true;
            let nb = r.range(1, 5) as usize;
            let mut b = r.bytes(nb);
            b[0] = *r.pick(&[0x79u8, 0x7f, 0x17, 0xf0]);
            let mut t = vec![s("deliver"), s("many"), hexd(&b)];
            take_binds(&mut w, &mut t, behind);
            w.exchanged = true;
            w.stim(e, &t);
        }
        3 | 4 => {
            // the rest arrives (the first of them finds the queue full: the receive loop waits), then the sink fails
            for _ in 0..r.range(1, behind as u64) { w.deliver_next(e); }
            w.stim(e, &[s("sinkfail")]);
        }
        _ => {
            // nothing behind the end (control)
            if r.chance(1, 2) { w.stim(e, &[s("deliver"), s("err")]); } else { w.stim(e, &[s("deliver"), s("eof")]); }
        }
    }
    // (the application of e takes nothing here: `bind-unresolved-at-end` has judged at the end itself; the
    // completion phase then lets it take what is queued)
    fair_completion(&mut w, 20);
    final_checks(&mut w);
    w
}

/// C06 (also C07, C10): the abort of a live stream after this endpoint has sent a Reset on its flow id that
/// closed nothing — the refusal of a `Connect` on the id in use, the answer to a `Push` behind the peer's
/// `Finish` — with traffic in between; two aborts in a row; an abort on an id for which a Reset was sent
/// while no stream had it.
fn refused_connect_then_drop_case(r: &mut Rng, focus: Focus) -> World {
    let opts = [gen_opts(r, focus), gen_opts(r, focus)];
    let e = r.below(2) as usize;
    let pe = 1 - e;
    let mut w = World::new(opts);
    let scripts = w9b_scripts(&mut w, r, 12);
    let scenario = r.below(8);
    let mut target: Option<u32> = None;
    if scenario == 7 {
        // a Reset of e for an id no stream has (a stray Push of the peer), then a stream on that very id
        let oe = r.below(2) as usize;
        let n = w.sims[oe].rng.drawn.lock().map(|d| d.len()).unwrap_or(0);
        if let Some(g) = scripts[oe].get(n).copied() {
            w.injected = true;
            let mut f = vec![0x74u8];
            f.extend_from_slice(&g.to_be_bytes());
            f.extend(r.bytes(2));
            w.stim(e, &[s("deliver"), s("bin"), hexd(&f)]);
            // (the Reset goes to whoever sent the stray frame)
            w.stim(e, &[s("wiredrop")]);
            target = Some(g);
        }
        let req = w.next_req; w.next_req += 1;
        w.stim(oe, &[s("open"), s(req), hexd(&r.bytes(2)), s(1000 + req)]);
        for _ in 0..3 { while w.deliver_next(1 - oe) {} while w.deliver_next(oe) {} }
        w.stim(1 - oe, &[s("accept")]);
    }
    let ns = r.range(1, 3);
    for _ in 0..ns {
        let oe = r.below(2) as usize;
        let req = w.next_req; w.next_req += 1;
        w.stim(oe, &[s("open"), s(req), hexd(&r.bytes(2)), s(1000 + req)]);
        for _ in 0..3 { while w.deliver_next(1 - oe) {} while w.deliver_next(oe) {} }
        w.stim(1 - oe, &[s("accept")]);
    }
    let traffic = |w: &mut World, r: &mut Rng, k: usize, to_peer: bool| {
        let live: Vec<usize> = (0..w.view[k].handles.len()).filter(|&h| w.view[k].handles[h].alive && !w.view[k].handles[h].shutdown).collect();
        if live.is_empty() { return; }
        let h = *r.pick(&live);
        if w.view[k].handles[h].pending_write.is_none() {
            let d = gen_payload(r, 0x30 + h as u8, w.view[k].handles[h].written.len());
            let d = if d.is_empty() { vec![0x31] } else { d };
            w.stim(k, &[s("write"), s(h), hexd(&d)]);
        }
        if to_peer {
            while w.deliver_next(1 - k) {}
            for hh in 0..w.view[1 - k].handles.len() { if w.view[1 - k].handles[hh].alive { w.stim(1 - k, &[s("read"), s(hh), s(4096)]); } }
        }
    };
    for _ in 0..r.range(0, 3) { let k = r.below(2) as usize; traffic(&mut w, r, k, true); }
    for _ in 0..2 { while w.deliver_next(0) {} while w.deliver_next(1) {} }
    let live: Vec<usize> = (0..w.view[e].handles.len()).filter(|&h| w.view[e].handles[h].alive).collect();
    if live.is_empty() { fair_completion(&mut w, 20); final_checks(&mut w); return w; }
    let h = live.iter().copied().find(|x| target.is_some() && w.sims[e].flow_id(*x) == target).unwrap_or_else(|| *r.pick(&live));
    let Some(fid) = w.sims[e].flow_id(h) else { fair_completion(&mut w, 20); final_checks(&mut w); return w; };
    let connect = |r: &mut Rng, id: u32| {
        let mut f = vec![0x70u8];
        f.extend_from_slice(&id.to_be_bytes());
        f.extend_from_slice(&(r.range(1, 16) as u32).to_be_bytes());
        f.extend_from_slice(&(r.range(1, 9999) as u16).to_be_bytes());
        let n = r.range(0, 4) as usize;
        f.extend(r.bytes(n));
        hexd(&f)
    };
    match scenario {
        0..=3 => {
            // the peer (or something speaking for it) proposes the id of the live stream again: refused, the stream
            // stays; once or twice
            for _ in 0..r.range(1, 2) {
                w.injected = true;
                let f = connect(r, fid);
                w.stim(e, &[s("deliver"), s("bin"), f]);
            }
            // the refusal is taken by whoever sent the Connect, or stays on its way to the peer for now
            if r.chance(1, 2) { w.stim(e, &[s("wiredrop")]); }
            // ordinary traffic in between: data of the peer arrives and is read, e writes (not delivered yet)
            for _ in 0..r.range(0, 3) {
                match r.below(3) {
                    0 => traffic(&mut w, r, e, false),
                    1 => {
                        traffic(&mut w, r, pe, false);
                        while w.deliver_next(e) {}
                        w.stim(e, &[s("read"), s(h), s(4096)]);
                    }
                    _ => { w.stim(e, &[s("read"), s(h), s(*r.pick(&[1u64, 64, 4096]))]); }
                }
            }
            // now and then another stream is aborted first (its Reset is the last one the endpoint sent)
            let others: Vec<usize> = live.iter().copied().filter(|x| *x != h).collect();
            if !others.is_empty() && r.chance(1, 4) { w.stim(e, &[s("dropstream"), s(*r.pick(&others))]); }
            w.stim(e, &[s("dropstream"), s(h)]);
        }
        4 => {
            // the peer finishes its direction, then a Push on the flow arrives all the same: answered with a Reset,
            // the stream stays (its write side is still open); then the application drops it
            if let Some((_, ph)) = w.peer_handle(e, h) {
                if w.view[pe].handles[ph].pending_write.is_none() { w.stim(pe, &[s("shutdown"), s(ph)]); }
                while w.deliver_next(e) {}
                w.injected = true;
                let mut f = vec![0x74u8];
                f.extend_from_slice(&fid.to_be_bytes());
                let nb = r.range(1, 3) as usize;
                f.extend(r.bytes(nb));
                w.stim(e, &[s("deliver"), s("bin"), hexd(&f)]);
                if r.chance(1, 2) { w.stim(e, &[s("wiredrop")]); }
                if r.chance(1, 2) { w.stim(e, &[s("read"), s(h), s(4096)]); }
            }
            w.stim(e, &[s("dropstream"), s(h)]);
        }
        5 | 6 => {
            // two (or three) streams let go of one after the other, or in one go
            let mut hs = live.clone();
            for k in (1..hs.len()).rev() { let j = r.below(k as u64 + 1) as usize; hs.swap(k, j); }
            if scenario == 5 || hs.len() < 2 {
                for x in hs { w.stim(e, &[s("dropstream"), s(x)]); }
            } else {
                let mut t = vec![s("dropmany")];
                t.extend(hs.iter().map(s));
                w.stim(e, &t);
            }
        }
        _ => { w.stim(e, &[s("dropstream"), s(h)]); }
    }
    fair_completion(&mut w, 20);
    final_checks(&mut w);
    w
}
// ==== end of wave 9b =============================================================================

// ---------------------------------------------------------------------------------------------
// Replaying a recorded line list (used for shrinking, corpus and --replay)
// ---------------------------------------------------------------------------------------------

/// (wave 9b) Does the header line say that the endpoint's task is created unstarted?
fn parse_unstarted(line: &str) -> bool {
    line.split_whitespace().nth(8) == Some("unstarted")
}

fn parse_new(line: &str) -> Option<SimOpts> {
    let t: Vec<&str> = line.split_whitespace().collect();
    // (wave 9b: a ninth token `unstarted`, read by `parse_unstarted`)
    if !(t.len() == 8 || (t.len() == 9 && t[8] == "unstarted")) || t[0] != "new" {
        return None;
    }
    let n = |i: usize| t[i].parse::<u64>().ok();
    Some(SimOpts { rwnd: n(2)? as u32, threshold: n(3)? as u32, accept_cap: n(4)? as usize, dgram_cap: n(5)? as usize, bind_cap: n(6)? as usize, max_retries: n(7)? as usize })
}

/// Re-run recorded stimulus lines (`new A ..`, `new B ..`, then stimuli) on fresh endpoints.
/// Lines that have become inapplicable (e.g. a handle that no longer exists) answer `badhandle`
/// on both sides and are harmless.
fn replay_lines(lines: &[String]) -> Option<World> {
    let oa = parse_new(lines.first()?)?;
    let ob = parse_new(lines.get(1)?)?;
    let mut w = World::new_with([oa, ob], [parse_unstarted(&lines[0]), parse_unstarted(&lines[1])]);
    w.probe = false;
    w.vec_mix = false;
    for l in &lines[2..] {
        let t: Vec<String> = l.split_whitespace().map(str::to_string).collect();
        if t.len() < 2 { continue; }
        let e = if t[1] == "A" { 0 } else { 1 };
        if t[0] == "next" {
            w.deliver_next(e);
            continue;
        }
        if t[0] == "sinkblock" || t[0] == "sinkgrant" { w.sink_blocked[e] = true; }
        if t[0] == "sinkunblock" { w.sink_blocked[e] = false; }
        let mut toks = vec![t[0].clone()];
        toks.extend_from_slice(&t[2..]);
        if toks[0] == "deliver" && toks.get(1).map(String::as_str) == Some("bin") {
            // an injected frame unless it is the head of the peer's wire
            if w.wire[1 - e].front() == toks.get(2) { w.wire[1 - e].pop_front(); } else { w.injected = true; }
        } else if toks[0] == "deliver" && toks.get(1).map(String::as_str) == Some("many") {
            for h in &toks[2..] {
                if w.wire[1 - e].front() == Some(h) { w.wire[1 - e].pop_front(); } else { w.injected = true; }
            }
        } else if toks[0] == "deliver" && toks.get(1).map(String::as_str) == Some("closemany") {
            // the frames behind the Close are the head of the peer's wire, or injected
            for h in &toks[2..] {
                if w.wire[1 - e].front() == Some(h) { w.wire[1 - e].pop_front(); } else { w.injected = true; }
            }
        } else if toks[0] == "deliver" && toks.get(1).map(String::as_str) == Some("close") && w.wire[1 - e].front().map(String::as_str) == Some("close") {
            w.wire[1 - e].pop_front();
        }
        w.stim(e, &toks);
    }
    w.probe = true;
    w.vec_mix = true;
    fair_completion(&mut w, 40);
    final_checks(&mut w);
    if let Some(wd) = WATCH.get() { wd.idle(); }
    Some(w)
}

fn all_lines(w: &World) -> Vec<String> {
    let mut v = w.header_lines();
    v.extend(w.steps.iter().map(|s| s.src.clone()));
    v
}

fn canon_model(line: &str) -> String {
    // (the model driver appends ` | #tag …`: which branch of the model the stimulus exercised — reporting only)
    let line = line.split(" | #").next().unwrap_or(line);
    // model answers `<res> | ev; ev` with wires last; canonical = wire/wclose sequence, then the rest sorted
    let Some((res, evs)) = line.split_once(" | ") else { return line.to_string() };
    let mut wires = vec![];
    let mut rest = vec![];
    for ev in evs.split("; ").filter(|s| !s.is_empty()) {
        if ev.starts_with("wire ") || ev == "wclose" { wires.push(ev.to_string()); } else { rest.push(ev.to_string()); }
    }
    rest.sort();
    // frames emitted in one step are compared per flow: the order between frames of different flows
    // within a single step depends on which future the executor polls first (a race in real life)
    let key = |w: &String| -> (u8, u32) {
        if w == "wclose" { return (2, 0); }
        match w.strip_prefix("wire ").and_then(parse_frame) {
            Some((_, id, _)) => (0, id),
            None => (1, 0),
        }
    };
    wires.sort_by_key(key);
    wires.extend(rest);
    format!("{res} | {}", wires.join("; "))
}

/// Ask the model about a recorded run; returns the index of the first differing step.
fn model_diff(drv: &mut Driver, w: &World) -> Option<(usize, String, String)> {
    model_diff_tags(drv, w, &mut None)
}

/// … collecting the model-branch tags of the steps (up to the first difference) into `tags`.
fn model_diff_tags(drv: &mut Driver, w: &World, tags: &mut Option<&mut std::collections::BTreeMap<String, u64>>) -> Option<(usize, String, String)> {
    let mut reqs = vec!["reset".to_string()];
    reqs.extend(w.header_lines());
    reqs.extend(w.steps.iter().map(|s| s.line.clone()));
    let ans = drv.batch(&reqs);
    for (i, st) in w.steps.iter().enumerate() {
        if let Some(t) = tags.as_mut() {
            if let Some((_, tg)) = ans[i + 3].split_once(" | #") {
                for x in tg.split(" #").filter(|x| !x.is_empty()) { *t.entry(x.to_string()).or_insert(0) += 1; }
            }
        }
        let m = canon_zero_read(&st.line, canon_model(&ans[i + 3]));
        let im = canon_zero_read(&st.line, canon_model(&st.out));
        if m != im {
            return Some((i, m, im));
        }
    }
    None
}

/// (wave 9a) A read into a buffer without room completes with nothing put, whatever the stream holds: the
/// model says which of the two it was (`data -`: there is data, none fits; `eof`), the `AsyncRead` caller
/// cannot tell. Both are written `eof` for the comparison (alone and as a call of a `batch`); what the reads
/// after it return is compared as always.
fn canon_zero_read(line: &str, ans: String) -> String {
    let t: Vec<&str> = line.split(' ').collect();
    let zero = |c: &[&str]| c.len() == 3 && c[0] == "read" && c[2] == "0";
    let fix = |r: &str| if r == "data -" { "eof".to_string() } else { r.to_string() };
    match t.first().copied() {
        Some("read") if t.len() == 4 && t[3] == "0" => {
            let (res, evs) = ans.split_once(" | ").unwrap_or((ans.as_str(), ""));
            format!("{} | {evs}", fix(res))
        }
        Some("batch") if t[2..].split(|x| *x == ";").any(zero) => {
            let (rs, evs) = ans.split_once(" | ").unwrap_or((ans.as_str(), ""));
            if rs.split(" , ").count() != t[2..].split(|x| *x == ";").count() { return ans; }
            let rs: Vec<String> = rs.split(" , ").zip(t[2..].split(|x| *x == ";")).map(|(r, c)| if zero(c) { fix(r) } else { r.to_string() }).collect();
            format!("{} | {evs}", rs.join(" , "))
        }
        _ => ans,
    }
}

// ---------------------------------------------------------------------------------------------
// Projection onto the link model (one direction of one paired stream)
// ---------------------------------------------------------------------------------------------

/// One link action derived from a stimulus, with what the implementation answered (when comparable).
struct LinkReq {
    req: String,
    expect: Option<String>,
    step: usize,
}

/// For every stream paired on both endpoints and each direction: the link actions of the case, in
/// order, up to the first event the link model does not describe (reader's handle dropped, any
/// terminating event). Cases with injected frames or a reused flow id are not projected.
fn link_projections(w: &World) -> Vec<(String, Vec<LinkReq>)> {
    let mut out = vec![];
    // (the projection follows ONE incarnation of a flow id per case)
    if w.injected || w.reused || w.any_reuse || w.cancelled || w.huge {
        return out;
    }
    // A receive loop parked on a full accept / bind queue leaves delivered messages unprocessed: the
    // link model's `deliver` is the processing of the frame, which the trace then does not show.
    // Such cases are not projected (the endpoint model covers them).
    let mut waiting = [[0usize; 2]; 2]; // [endpoint][0 = streams not yet accepted, 1 = binds not yet fetched]
    for st in &w.steps {
        let t: Vec<&str> = st.line.split(' ').collect();
        let e = match t.get(1) { Some(&"A") => 0usize, Some(&"B") => 1, _ => continue };
        let res = st.out.split(" | ").next().unwrap_or("");
        match t[0] {
            "deliver" if t.get(2) == Some(&"bin") => match t.get(3).and_then(|h| parse_frame(h)) {
                Some((0, _, _)) => waiting[e][0] += 1,
                Some((5, _, _)) => waiting[e][1] += 1,
                _ => {}
            },
            "deliver" if matches!(t.get(2), Some(&"many" | &"closemany")) => {
                for h in &t[3..] {
                    match parse_frame(h) {
                        Some((0, _, _)) => waiting[e][0] += 1,
                        Some((5, _, _)) => waiting[e][1] += 1,
                        _ => {}
                    }
                }
            }
            "accept" if res.starts_with("stream") => waiting[e][0] = waiting[e][0].saturating_sub(1),
            "bindnext" if res.starts_with("bindreq") => waiting[e][1] = waiting[e][1].saturating_sub(1),
            // (calls of a batch, in order)
            "batch" => {
                for (c, r) in t[2..].split(|x| *x == ";").zip(res.split(" , ")) {
                    match c.first().copied() {
                        Some("accept") if r.starts_with("stream") => waiting[e][0] = waiting[e][0].saturating_sub(1),
                        Some("bindnext") if r.starts_with("bindreq") => waiting[e][1] = waiting[e][1].saturating_sub(1),
                        _ => {}
                    }
                }
            }
            _ => {}
        }
        if waiting[e][0] > w.opts[e].accept_cap || (w.opts[e].bind_cap > 0 && waiting[e][1] > w.opts[e].bind_cap) {
            return out;
        }
    }
    let mut ports: Vec<(&u64, &[Option<usize>; 2])> = w.port_handle.iter().collect();
    ports.sort();
    for (port, hs) in ports {
        let (Some(ha), Some(hb)) = (hs[0], hs[1]) else { continue };
        let fids: Vec<u32> = w.fid_port.iter().filter(|(_, p)| *p == port).map(|(f, _)| *f).collect();
        let [fid] = fids[..] else { continue };
        let fidhex = hexd(&fid.to_be_bytes());
        for (we, wh, re, rh) in [(0usize, ha, 1usize, hb), (1, hb, 0, ha)] {
            let win = w.opts[re].rwnd;
            let th = w.opts[re].threshold.min(w.opts[we].rwnd).min(w.opts[re].rwnd);
            let mut reqs = vec![];
            let mut writer_has_handle = false;
            let mut writer_alive = true;
            let mut writer_shutdown = false;
            let mut rx_closed = false;
            for (i, st) in w.steps.iter().enumerate() {
                let t: Vec<&str> = st.line.split(' ').collect();
                let (res, evs) = st.out.split_once(" | ").unwrap_or((st.out.as_str(), ""));
                let e = match t.get(1) { Some(&"A") => 0usize, Some(&"B") => 1, _ => continue };
                // the writer's handle comes into being
                if !writer_has_handle && e == we {
                    let made = (t[0] == "accept" && res.starts_with(&format!("stream {wh} ")))
                        || (t[0] == "batch" && res.split(" , ").any(|r| r.starts_with(&format!("stream {wh} "))))
                        || evs.split("; ").any(|ev| ev.starts_with("opendone ") && ev.ends_with(&format!(" ok {wh}")));
                    if made {
                        writer_has_handle = true;
                        continue; // the handshake Acknowledge of this very step is not a credit grant
                    }
                }
                if evs.split("; ").any(|ev| ev.starts_with("exit ")) { break; }
                match t[0] {
                    "dropmux" => break,
                    "deliver" if matches!(t.get(2), Some(&"err" | &"eof" | &"close" | &"closeerr" | &"err2" | &"closemany")) => break,
                    "write" | "writev" if e == we && t.get(2).and_then(|x| x.parse::<usize>().ok()) == Some(wh) => {
                        let data: Vec<u8> = t[3..].iter().flat_map(|p| unhex(p).unwrap_or_default()).collect();
                        let d = if data.is_empty() { "-".to_string() } else { hexd(&data) };
                        reqs.push(LinkReq { req: format!("write {d}"), expect: Some(res.to_string()), step: i });
                    }
                    // the frame-level writer is not an action of the link model: this direction is compared up to here
                    "wpush" | "writemany" if e == we && t.get(2).and_then(|x| x.parse::<usize>().ok()) == Some(wh) => break,
                    "shutdown" if e == we && t.get(2).and_then(|x| x.parse::<usize>().ok()) == Some(wh) => {
                        writer_shutdown = true;
                        reqs.push(LinkReq { req: "shutdown".into(), expect: None, step: i });
                    }
                    // (several streams dropped at once: this direction is compared up to here)
                    // (a batch of calls that touches one of the two stream ends: compared up to here)
                    "batch" if (e == we && t[2..].split(|x| *x == ";").any(|c| c.get(1).and_then(|x| x.parse::<usize>().ok()) == Some(wh) && matches!(c[0], "write" | "read" | "shutdown" | "dropstream")))
                        || (e == re && t[2..].split(|x| *x == ";").any(|c| c.get(1).and_then(|x| x.parse::<usize>().ok()) == Some(rh) && matches!(c[0], "write" | "read" | "shutdown" | "dropstream"))) => break,
                    "dropmany" if (e == we && t[2..].iter().any(|x| x.parse::<usize>().ok() == Some(wh))) || (e == re && t[2..].iter().any(|x| x.parse::<usize>().ok() == Some(rh))) => break,
                    "dropstream" if e == we && t.get(2).and_then(|x| x.parse::<usize>().ok()) == Some(wh) => {
                        writer_alive = false;
                        if !writer_shutdown {
                            reqs.push(LinkReq { req: "abort".into(), expect: None, step: i });
                        }
                    }
                    "dropstream" if e == re && t.get(2).and_then(|x| x.parse::<usize>().ok()) == Some(rh) => break,
                    "read" if e == re && t.get(2).and_then(|x| x.parse::<usize>().ok()) == Some(rh) => {
                        let n = t.get(3).copied().unwrap_or("0");
                        // (a read into no room: its completion says nothing — the link model's state moves on, the answers are not compared)
                        reqs.push(LinkReq { req: format!("read {n}"), expect: if n == "0" { None } else { Some(res.to_string()) }, step: i });
                    }
                    // (several frames at once: this direction is compared up to the first such delivery that carries one of its frames)
                    "deliver" if t.get(2) == Some(&"many") && t[3..].iter().any(|h| parse_frame(h).is_some_and(|(_, id, _)| id == fid)) => break,
                    "deliver" if t.get(2) == Some(&"bin") => {
                        let Some(hex) = t.get(3) else { continue };
                        let Some((op, id, p)) = parse_frame(hex) else { continue };
                        if id != fid { continue; }
                        if e == re && !rx_closed && matches!(op, 2 | 3 | 4) {
                            let item = match op {
                                4 => format!("push {}", if p.is_empty() { "-".to_string() } else { hexd(&p) }),
                                3 => "fin".to_string(),
                                _ => "rst".to_string(),
                            };
                            if op != 4 { rx_closed = true; }
                            reqs.push(LinkReq { req: "deliver".into(), expect: Some(item), step: i });
                        } else if e == we && op == 1 && writer_has_handle && writer_alive && p.len() >= 4 {
                            let n = u32::from_be_bytes([p[0], p[1], p[2], p[3]]);
                            reqs.push(LinkReq { req: "ack".into(), expect: Some(format!("ack {n}")), step: i });
                        }
                    }
                    _ => {}
                }
            }
            if !reqs.is_empty() {
                out.push((format!("link {}#{wh} -> {}#{rh} flow {fidhex} W={win} th={th}", NAMES[we], NAMES[re]), {
                    let mut v = vec![LinkReq { req: format!("new {win} {th}"), expect: None, step: 0 }];
                    v.extend(reqs);
                    v
                }));
            }
        }
    }
    out
}

/// First disagreement between the link model and the implementation on this case:
/// (link description, stimulus index, model answer, implementation answer).
fn link_diff(drv: &mut Driver, w: &World) -> Option<(String, usize, String, String)> {
    for (name, reqs) in link_projections(w) {
        let lines: Vec<String> = reqs.iter().map(|r| r.req.clone()).collect();
        let ans = drv.batch(&lines);
        for (r, a) in reqs.iter().zip(ans.iter()) {
            if let Some(exp) = &r.expect {
                // write answers: `wrote n` / `pending` / `brokenpipe`; read answers: `data hex` / `pending` / `eof`
                if a != exp {
                    return Some((name, r.step, a.clone(), exp.clone()));
                }
            }
        }
    }
    None
}

fn attribute(line: &str) -> Vec<&'static str> {
    let t: Vec<&str> = line.split_whitespace().collect();
    match t[0] {
        "open" | "accept" => vec!["C07"],
        "cancelopen" => vec!["C07", "C10"],
        "write" | "writev" | "wpush" => vec!["C02", "C03", "C04", "C05", "C12"],
        "writemany" => vec!["C03", "C04", "C07"],
        "wiredrop" => vec!["C10"],
        "read" => vec!["C02", "C03", "C04", "C05"],
        "wstate" => vec!["C04", "C12"],
        "flowcount" => vec!["C06", "C07", "C08", "C10", "C15"],
        "shutdown" => vec!["C05"],
        "dropstream" | "dropmany" => vec!["C06"],
        "batch" => vec!["C02", "C03", "C04", "C05", "C06", "C07", "C08", "C10", "C11", "C12", "C15"],
        "dgsend" | "dgrecv" => vec!["C11"],
        "bindreq" | "bindnext" | "bindreply" | "binddrop" | "holdreq" | "releasereq" => vec!["C15"],
        "dropmux" | "sinkblock" | "sinkunblock" | "sinkgrant" => vec!["C08", "C02"],
        // (wave 9b)
        "sinkfail" | "start" => vec!["C08", "C15", "C10"],
        "deliver" => match t.get(2).copied() {
            Some("many") => vec!["C02", "C03", "C04", "C05", "C06", "C07", "C08", "C10", "C11", "C12", "C15"],
            Some("bin") => match t.get(3).and_then(|h| parse_frame(h)).map(|f| f.0) {
                Some(0) => vec!["C07", "C10"],
                Some(1) => vec!["C03", "C07", "C10"],
                Some(2) => vec!["C06", "C10"],
                Some(3) => vec!["C05", "C15", "C10"],
                Some(4) => vec!["C02", "C03", "C10"],
                Some(5) => vec!["C15", "C10"],
                Some(6) => vec!["C11", "C10"],
                _ => vec!["C08", "C10"],
            },
            _ => vec!["C08"],
        },
        _ => vec!["C10"],
    }
}

fn main() {
    pvh::quiet_panics();
    let args = Args::parse();
    let focus = Focus::parse(args.opt("--focus").unwrap_or("C02"));
    let _ = WATCH.set(pvh::Watchdog::start(args.out.clone(), "mux", args.seed, args.tier, format!("{}:stuck-in-call", focus.name()), std::time::Duration::from_secs(20)));
    if let Some(p) = &args.replay {
        let text = std::fs::read_to_string(p).expect("read replay");
        let v: pvh::Value = serde_json::from_str(&text).expect("json");
        let rp = if v.get("replay").is_some() { &v["replay"] } else { &v };
        let lines: Vec<String> = rp["lines"].as_array().expect("lines").iter().map(|x| x.as_str().unwrap().to_string()).collect();
        let w = replay_lines(&lines).expect("replayable");
        // with `--driver`: the model's answer next to the implementation's wherever they differ
        let model: Option<Vec<String>> = args.driver.as_deref().and_then(|p| Driver::spawn(p, &[]).ok()).map(|mut d| {
            let mut reqs = vec!["reset".to_string()];
            reqs.extend(w.header_lines());
            reqs.extend(w.steps.iter().map(|s| s.line.clone()));
            d.batch(&reqs)
        });
        for (i, st) in w.steps.iter().enumerate() {
            println!("{:<60} => {}", st.line, st.out);
            if let Some(m) = &model {
                if canon_zero_read(&st.line, canon_model(&m[i + 3])) != canon_zero_read(&st.line, canon_model(&st.out)) {
                    println!("{:<60} MODEL: {}", "", m[i + 3]);
                }
            }
        }
        let mine: Vec<_> = w.fails.iter().filter(|f| f.0 == focus.name()).collect();
        for f in &mine {
            println!("FAILS {}: {} — {}", f.0, f.1, f.2);
        }
        if mine.is_empty() { println!("the property's monitors hold on this replay"); }
        std::process::exit(i32::from(!mine.is_empty()));
    }
    let rule = "random stimulus sequences over two real endpoints (application calls as single polls, one transport delivery per stimulus, faults, injected frames), independent option pairs per side, scripted flow ids from a small alphabet, followed by a fair completion phase; non-trivial = at least one frame sent by one endpoint was processed by the other and an application-visible exchange completed; distinct by stimulus list";
    let mut rep = Report::new("mux", &args, rule);
    let mut drv = args.driver.as_deref().map(|p| Driver::spawn(p, &[]).expect("start Lean driver"));
    let mut link_drv = args.opt("--link-driver").map(|p| Driver::spawn(p, &[]).expect("start Lean link driver"));
    let (cases, len) = match args.tier { Tier::Quick => (2500, 60), Tier::Thorough => (60_000, 90) };
    let mut rng = Rng::new(args.seed ^ fnv(focus.name().as_bytes()));

    let mut handle_world = |w: World, origin: &str, rep: &mut Report, drv: &mut Option<Driver>| {
        // the case is over: comparing with the model, shrinking and reporting are not calls into the implementation
        if let Some(wd) = WATCH.get() { wd.idle(); }
        let lines = all_lines(&w);
        // the link model (on which the unbounded stream theorems are proved) against the implementation
        if let Some(ld) = link_drv.as_mut() {
            let n = link_projections(&w).iter().map(|(_, r)| r.len() as u64 - 1).sum::<u64>();
            if n > 0 {
                rep.count("link-model/cases-projected");
                rep.count_n("link-model/actions-compared", n);
            }
            if let Some((name, i, m, im)) = link_diff(ld, &w) {
                let upto: Vec<String> = lines.iter().take(i + 3).cloned().collect();
                rep.fail(FailKind::Model, &format!("link-model:{}", w.steps[i].line.split(' ').next().unwrap_or("?")),
                    &format!("{name}: at `{}` the link model answers `{m}`, the implementation `{im}`", w.steps[i].line),
                    json!({"lines": upto, "model": m, "impl": im}));
            }
        }
        rep.case(w.exchanged.then(|| fnv(lines.join("\n").as_bytes())));
        rep.count(&format!("case/{origin}"));
        rep.count_n("stimuli", w.steps.len() as u64);
        for st in &w.steps {
            let op = st.line.split(' ').next().unwrap_or("?");
            rep.count(&format!("op/{op}"));
            let res = st.out.split(' ').next().unwrap_or("?");
            rep.count(&format!("res/{op}/{res}"));
            if op == "deliver" {
                if let Some(k) = st.line.split(' ').nth(2).filter(|k| matches!(*k, "err" | "eof" | "close" | "closeerr" | "err2" | "closemany")) {
                    rep.count(&format!("fault/{k}"));
                }
            }
        }
        for (k, n) in &w.mon { rep.count_n(&format!("monitor/{k}"), *n); }
        if w.injected { rep.count("case/with-injected-frames"); }
        if w.raw_push { rep.count("case/with-frame-level-writes"); }
        if w.faulted { rep.count("case/with-transport-fault"); }
        if rep.samples.len() < 3 {
            rep.sample(json!({"lines": lines.iter().take(40).collect::<Vec<_>>(), "answers": w.steps.iter().take(38).map(|s| s.out.clone()).collect::<Vec<_>>()}));
        }
        // implementation-vs-property failures of this focus
        // under C06 (abort/reuse) the byte-level and EOF monitors also count: state of one stream
        // leaking into another shows up there
        let mine = |p: &str| p == focus.name() || (focus == Focus::C06 && (p == "C02" || p == "C05"));
        // (`eos-not-equal` is `eof-before-data` under its C02 name: reported once under C06)
        for f in w.fails.iter().filter(|f| mine(&f.0) && !(focus == Focus::C06 && f.1.starts_with("eos-not-equal"))) {
            let key = f.1.clone();
            if rep.failures.iter().any(|g| g["key"] == format!("{}:{}", focus.name(), key)) { continue; }
            // (replaying a case with writes of megabytes is slow: a bounded number of shrinking attempts)
            let mut budget = if w.huge { 30usize } else if lines.len() > 800 { 40 } else { usize::MAX };
            let small = shrink_list(lines[2..].to_vec(), |cand| {
                if budget == 0 { return false; }
                budget -= 1;
                let mut l = lines[..2].to_vec();
                l.extend_from_slice(cand);
                catch(|| replay_lines(&l).is_some_and(|w2| w2.fails.iter().any(|g| mine(&g.0) && g.1 == key))).unwrap_or(false)
            });
            let mut l = lines[..2].to_vec();
            l.extend(small);
            let desc = replay_lines(&l).and_then(|w2| w2.fails.iter().find(|g| mine(&g.0) && g.1 == key).map(|g| g.2.clone())).unwrap_or_else(|| f.2.clone());
            rep.fail(FailKind::Impl, &format!("{}:{}", focus.name(), key), &desc, json!({"lines": l}));
        }
        if w.oracle_only { rep.count("case/oracle-only"); }
        if let Some(d) = drv.as_mut().filter(|_| !w.oracle_only) {
            rep.model_compared += 1;
            let mut tags = std::collections::BTreeMap::new();
            let diff = model_diff_tags(d, &w, &mut Some(&mut tags));
            for (k, n) in &tags { rep.count_n(&format!("model-branch/{k}"), *n); }
            if let Some((i, m, im)) = diff {
                let attr = attribute(&w.steps[i].line);
                rep.count(&format!("model-diff/{}", attr.join("+")));
                if attr.contains(&focus.name()) || std::env::var("PVH_ALL_DIFFS").is_ok() {
                    // shrink while the first difference stays on the same kind of stimulus
                    let kind = w.steps[i].line.split(' ').next().unwrap_or("").to_string();
                    let mut budget = if w.huge { 0usize } else if lines.len() > 800 { 12 } else { usize::MAX };
                    let small = shrink_list(lines[2..].to_vec(), |cand| {
                        if budget == 0 { return false; }
                        budget -= 1;
                        let mut l = lines[..2].to_vec();
                        l.extend_from_slice(cand);
                        catch(|| {
                            replay_lines(&l).is_some_and(|w2| {
                                model_diff(d, &w2).is_some_and(|(j, _, _)| w2.steps[j].line.starts_with(&kind))
                            })
                        })
                        .unwrap_or(false)
                    });
                    let mut l = lines[..2].to_vec();
                    l.extend(small);
                    let (what, m2, im2) = replay_lines(&l)
                        .and_then(|w2| model_diff(d, &w2).map(|(j, m, im)| (w2.steps[j].line.clone(), m, im)))
                        .unwrap_or((w.steps[i].line.clone(), m, im));
                    let op = what.split(' ').next().unwrap_or("?").to_string();
                    rep.fail(FailKind::Model, &format!("model:{op}:{}", im2.split(' ').next().unwrap_or("")),
                        &format!("at `{what}`: model `{m2}` vs implementation `{im2}`"), json!({"lines": l, "model": m2, "impl": im2}));
                    // the search for a failing input: the property's monitors on the shrunk disagreeing case (in the
                    // long case it came from, a monitor may have been switched off by something unrelated earlier on)
                    if let Ok(Some(w2)) = catch(|| replay_lines(&l)) {
                        for g in w2.fails.iter().filter(|g| mine(&g.0)) {
                            let key = format!("{}:{}", focus.name(), g.1);
                            if rep.failures.iter().any(|f| f["key"] == key) { continue; }
                            rep.fail(FailKind::Impl, &key, &g.2, json!({"lines": l}));
                        }
                    }
                }
            }
        }
    };

    // corpus first
    for (name, text) in pvh::corpus_files(args.corpus.as_deref()) {
        let lines: Vec<String> = text.lines().map(str::trim).filter(|l| !l.is_empty() && !l.starts_with('#')).map(str::to_string).collect();
        if let Ok(Some(w)) = catch(|| replay_lines(&lines)) {
            handle_world(w, &format!("corpus:{name}"), &mut rep, &mut drv);
        }
    }
    // a handful of cases with one write of more than 1 MiB (own generator stream: the random cases
    // below do not depend on how many there are)
    if matches!(focus, Focus::C02 | Focus::C03 | Focus::C04) {
        let n_huge = match args.tier { Tier::Quick => 4, Tier::Thorough => 24 };
        let base = Rng::new(args.seed ^ fnv(focus.name().as_bytes()) ^ 0x6875_6765);
        for k in 0..n_huge {
            let mut r = base.fork(k);
            match catch(|| huge_write_case(&mut r, focus)) {
                Ok(w) => handle_world(w, "huge-write", &mut rep, &mut drv),
                Err(p) => rep.fail(FailKind::Impl, "harness-panic", &format!("panic outside a stimulus: {p}"), json!({})),
            }
        }
    }
    // half-close in the middle of an acknowledgement period, then a long reply drained slowly
    if matches!(focus, Focus::C05 | Focus::C03 | Focus::C02 | Focus::C04) {
        let n = match args.tier { Tier::Quick => 40, Tier::Thorough => 1000 };
        let base = Rng::new(args.seed ^ fnv(focus.name().as_bytes()) ^ 0x6861_6c66);
        for k in 0..n {
            let mut r = base.fork(k);
            match catch(|| half_close_reply_case(&mut r, focus)) {
                Ok(w) => handle_world(w, "half-close-reply", &mut rep, &mut drv),
                Err(p) => rep.fail(FailKind::Impl, "harness-panic", &format!("panic outside a stimulus: {p}"), json!({})),
            }
        }
    }
    // application tasks scheduled late: a request's future polled only after the next request has started
    if matches!(focus, Focus::C15) {
        let n = match args.tier { Tier::Quick => 40, Tier::Thorough => 800 };
        let base = Rng::new(args.seed ^ fnv(focus.name().as_bytes()) ^ 0x6c61_7465);
        for k in 0..n {
            let mut r = base.fork(k);
            match catch(|| late_future_case(&mut r, focus)) {
                Ok(w) => handle_world(w, "late-future", &mut rep, &mut drv),
                Err(p) => rep.fail(FailKind::Impl, "harness-panic", &format!("panic outside a stimulus: {p}"), json!({})),
            }
        }
    }
    // a flow id taken again after both ends have let go of the stream that had it
    if matches!(focus, Focus::C02 | Focus::C05 | Focus::C06 | Focus::C07) {
        let n = match args.tier { Tier::Quick => 40, Tier::Thorough => 800 };
        let base = Rng::new(args.seed ^ fnv(focus.name().as_bytes()) ^ 0x7265_6f70_656e);
        for k in 0..n {
            let mut r = base.fork(k);
            match catch(|| reopen_same_id_case(&mut r, focus)) {
                Ok(w) => handle_world(w, "reopen-same-id", &mut rep, &mut drv),
                Err(p) => rep.fail(FailKind::Impl, "harness-panic", &format!("panic outside a stimulus: {p}"), json!({})),
            }
        }
    }
    // a writer parked across a shutdown through another handle, then the close by the connection task
    if matches!(focus, Focus::C12) {
        let n = match args.tier { Tier::Quick => 60, Tier::Thorough => 1500 };
        let base = Rng::new(args.seed ^ fnv(focus.name().as_bytes()) ^ 0x666f_7265_6967);
        for k in 0..n {
            let mut r = base.fork(k);
            match catch(|| foreign_shutdown_case(&mut r, focus)) {
                Ok(w) => handle_world(w, "foreign-shutdown", &mut rep, &mut drv),
                Err(p) => rep.fail(FailKind::Impl, "harness-panic", &format!("panic outside a stimulus: {p}"), json!({})),
            }
        }
    }
    // a backlog in flight or queued when the connection ends, read afterwards
    if matches!(focus, Focus::C02 | Focus::C05 | Focus::C08) {
        let n = match args.tier { Tier::Quick => 80, Tier::Thorough => 2000 };
        let base = Rng::new(args.seed ^ fnv(focus.name().as_bytes()) ^ 0x6261_636b_6c6f);
        for k in 0..n {
            let mut r = base.fork(k);
            match catch(|| backlog_at_end_case(&mut r, focus)) {
                Ok(w) => handle_world(w, "backlog-at-end", &mut rep, &mut drv),
                Err(p) => rep.fail(FailKind::Impl, "harness-panic", &format!("panic outside a stimulus: {p}"), json!({})),
            }
        }
    }
    // the connection ends by an error while the sink takes nothing
    if matches!(focus, Focus::C08 | Focus::C10) {
        let n = match args.tier { Tier::Quick => 60, Tier::Thorough => 1500 };
        let base = Rng::new(args.seed ^ fnv(focus.name().as_bytes()) ^ 0x6761_7262_6167);
        for k in 0..n {
            let mut r = base.fork(k);
            match catch(|| garbage_under_backpressure_case(&mut r, focus)) {
                Ok(w) => handle_world(w, "garbage-under-backpressure", &mut rep, &mut drv),
                Err(p) => rep.fail(FailKind::Impl, "harness-panic", &format!("panic outside a stimulus: {p}"), json!({})),
            }
        }
    }
    // the Multiplexor dropped in the same poll of the task in which a frame of the peer arrives
    if matches!(focus, Focus::C08) {
        let n = match args.tier { Tier::Quick => 60, Tier::Thorough => 1500 };
        let base = Rng::new(args.seed ^ fnv(focus.name().as_bytes()) ^ 0x6472_6f70_6172);
        for k in 0..n {
            let mut r = base.fork(k);
            match catch(|| drop_with_arrival_case(&mut r, focus)) {
                Ok(w) => handle_world(w, "drop-with-arrival", &mut rep, &mut drv),
                Err(p) => rep.fail(FailKind::Impl, "harness-panic", &format!("panic outside a stimulus: {p}"), json!({})),
            }
        }
    }
    // windows of thousands of frames
    if matches!(focus, Focus::C03 | Focus::C04 | Focus::C07) {
        let n = match args.tier { Tier::Quick => 3, Tier::Thorough => 40 };
        let base = Rng::new(args.seed ^ fnv(focus.name().as_bytes()) ^ 0x6c61_7267_65);
        for k in 0..n {
            let mut r = base.fork(k);
            match catch(|| large_window_case(&mut r, focus)) {
                Ok(w) => handle_world(w, "large-window", &mut rep, &mut drv),
                Err(p) => rep.fail(FailKind::Impl, "harness-panic", &format!("panic outside a stimulus: {p}"), json!({})),
            }
        }
    }
    // an open request its caller gave up on, the late Acknowledge, and the id proposed again
    if matches!(focus, Focus::C06 | Focus::C07 | Focus::C10) {
        let n = match args.tier { Tier::Quick => 30, Tier::Thorough => 600 };
        let base = Rng::new(args.seed ^ fnv(focus.name().as_bytes()) ^ 0x6162_616e_64);
        for k in 0..n {
            let mut r = base.fork(k);
            match catch(|| abandoned_open_case(&mut r, focus)) {
                Ok(w) => handle_world(w, "abandoned-open", &mut rep, &mut drv),
                Err(p) => rep.fail(FailKind::Impl, "harness-panic", &format!("panic outside a stimulus: {p}"), json!({})),
            }
        }
    }
    // streams on which the frame-level writer sends zero-length Push frames
    if matches!(focus, Focus::C03 | Focus::C04 | Focus::C10) {
        let n = match args.tier { Tier::Quick => 60, Tier::Thorough => 1500 };
        let base = Rng::new(args.seed ^ fnv(focus.name().as_bytes()) ^ 0x7770_7573_68);
        for k in 0..n {
            let mut r = base.fork(k);
            match catch(|| frame_level_case(&mut r, focus)) {
                Ok(w) => handle_world(w, "frame-level-writes", &mut rep, &mut drv),
                Err(p) => rep.fail(FailKind::Impl, "harness-panic", &format!("panic outside a stimulus: {p}"), json!({})),
            }
        }
    }
    // ==== wave 9a ====
    // records of more than 1 MiB handed over as vectored writes of several slices
    if matches!(focus, Focus::C04 | Focus::C02) {
        let n = match (args.tier, focus) { (Tier::Quick, Focus::C04) => 5, (Tier::Quick, _) => 2, (Tier::Thorough, _) => 40 };
        let base = Rng::new(args.seed ^ fnv(focus.name().as_bytes()) ^ 0x6c76_6563);
        for k in 0..n {
            let mut r = base.fork(k);
            match catch(|| large_vectored_case(&mut r, focus)) {
                Ok(w) => handle_world(w, "large-vectored", &mut rep, &mut drv),
                Err(p) => rep.fail(FailKind::Impl, "harness-panic", &format!("panic outside a stimulus: {p}"), json!({})),
            }
        }
    }
    // reads into a buffer without room among ordinary reads
    if matches!(focus, Focus::C05 | Focus::C02) {
        let n = match args.tier { Tier::Quick => 60, Tier::Thorough => 1500 };
        let base = Rng::new(args.seed ^ fnv(focus.name().as_bytes()) ^ 0x7a72_6561_64);
        for k in 0..n {
            let mut r = base.fork(k);
            match catch(|| zero_room_read_case(&mut r, focus)) {
                Ok(w) => handle_world(w, "zero-room-read", &mut rep, &mut drv),
                Err(p) => rep.fail(FailKind::Impl, "harness-panic", &format!("panic outside a stimulus: {p}"), json!({})),
            }
        }
    }
    // windows advertised by a scripted peer at and beyond the boundaries, both roles (enumerated)
    if matches!(focus, Focus::C07) {
        let n = 2 * WINDOW_BOUNDS.len() as u64 * match args.tier { Tier::Quick => 1, Tier::Thorough => 6 };
        let base = Rng::new(args.seed ^ fnv(focus.name().as_bytes()) ^ 0x7762_6f75_6e64);
        for k in 0..n {
            let mut r = base.fork(k);
            match catch(|| window_boundary_case(&mut r, focus, k)) {
                Ok(w) => handle_world(w, "window-boundary", &mut rep, &mut drv),
                Err(p) => rep.fail(FailKind::Impl, "harness-panic", &format!("panic outside a stimulus: {p}"), json!({})),
            }
        }
    }
    // datagram payloads at the top of the 64 KiB range and a little beyond (lengths enumerated)
    if matches!(focus, Focus::C11) {
        let n = match args.tier { Tier::Quick => 32, Tier::Thorough => 800 };
        let base = Rng::new(args.seed ^ fnv(focus.name().as_bytes()) ^ 0x6467_746f_70);
        for k in 0..n {
            let mut r = base.fork(k);
            match catch(|| dgram_boundary_case(&mut r, focus, k)) {
                Ok(w) => handle_world(w, "dgram-boundary", &mut rep, &mut drv),
                Err(p) => rep.fail(FailKind::Impl, "harness-panic", &format!("panic outside a stimulus: {p}"), json!({})),
            }
        }
    }
    // ==== end of wave 9a ====
    // ==== wave 9b ====
    // calls made before the connection task's first poll, the transport dead (or closed, or not ready) from the start
    if matches!(focus, Focus::C08 | Focus::C15 | Focus::C07) {
        let n = match (args.tier, focus) { (Tier::Quick, Focus::C08) => 80, (Tier::Quick, _) => 30, (Tier::Thorough, Focus::C08) => 2000, (Tier::Thorough, _) => 600 };
        let base = Rng::new(args.seed ^ fnv(focus.name().as_bytes()) ^ 0x646f_6172);
        for k in 0..n {
            let mut r = base.fork(k);
            match catch(|| dead_on_arrival_case(&mut r, focus)) {
                Ok(w) => handle_world(w, "dead-on-arrival", &mut rep, &mut drv),
                Err(p) => rep.fail(FailKind::Impl, "harness-panic", &format!("panic outside a stimulus: {p}"), json!({})),
            }
        }
    }
    // the bind accept queue full at the end of the connection, more Bind frames right behind the end, own requests pending
    if matches!(focus, Focus::C15 | Focus::C08 | Focus::C10) {
        let n = match (args.tier, focus) { (Tier::Quick, Focus::C15) => 80, (Tier::Quick, _) => 30, (Tier::Thorough, Focus::C15) => 2000, (Tier::Thorough, _) => 600 };
        let base = Rng::new(args.seed ^ fnv(focus.name().as_bytes()) ^ 0x6262_6c6f_67);
        for k in 0..n {
            let mut r = base.fork(k);
            match catch(|| bind_backlog_at_end_case(&mut r, focus)) {
                Ok(w) => handle_world(w, "bind-backlog-at-end", &mut rep, &mut drv),
                Err(p) => rep.fail(FailKind::Impl, "harness-panic", &format!("panic outside a stimulus: {p}"), json!({})),
            }
        }
    }
    // the abort of a live stream after a Reset on its id that closed nothing (refused Connect, Push behind a Finish); aborts in a row
    if matches!(focus, Focus::C06 | Focus::C07 | Focus::C10) {
        let n = match (args.tier, focus) { (Tier::Quick, Focus::C06) => 80, (Tier::Quick, _) => 30, (Tier::Thorough, Focus::C06) => 2000, (Tier::Thorough, _) => 600 };
        let base = Rng::new(args.seed ^ fnv(focus.name().as_bytes()) ^ 0x7265_6675_7365);
        for k in 0..n {
            let mut r = base.fork(k);
            match catch(|| refused_connect_then_drop_case(&mut r, focus)) {
                Ok(w) => handle_world(w, "refused-connect-then-drop", &mut rep, &mut drv),
                Err(p) => rep.fail(FailKind::Impl, "harness-panic", &format!("panic outside a stimulus: {p}"), json!({})),
            }
        }
    }
    // ==== end of wave 9b ====
    for _ in 0..cases {
        let tag = rng.next();
        let mut r = rng.fork(tag);
        let len = r.range(len as u64 / 3, len as u64) as usize;
        match catch(|| run_case(&mut r, focus, len)) {
            Ok(w) => handle_world(w, "random", &mut rep, &mut drv),
            Err(p) => rep.fail(FailKind::Impl, "harness-panic", &format!("panic outside a stimulus: {p}"), json!({})),
        }
        if rep.failures.iter().filter(|f| f["kind"] == "impl").count() >= 4 { break; }
    }
    if let Some(d) = &drv { rep.notes.push(format!("driver lines: {}", d.lines)); }
    rep.finish(&args);
    std::process::exit(i32::from(rep.has_failures()));
}
