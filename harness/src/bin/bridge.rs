//! C13 — the stream-to-socket bridge (`MuxStream::into_copy_bidirectional_with_buf`).
//!
//! The REAL `CopyBidirectional` is polled by hand with a `Flag` waker.
//! * Local side: `ScriptedLocal`, an `AsyncBufRead + AsyncWrite` whose every answer comes from the
//!   case's scripts (one list per operation kind, consumed in call order; `p0`/`p1` = `Pending`
//!   keeping `cx.waker()`, woken later by an `lwake` step only for `p1`; an exhausted script
//!   answers co-operatively). It logs every call and checks that the waker it is given is the
//!   bridge task's.
//! * Mux side: a real `MuxStream` of endpoint `B`, taken from a pair of real multiplexor endpoints
//!   (`pvh::muxsim::Sim`): `P` opens, `B` accepts. `P` is the scripted peer: it writes (`pw`),
//!   shuts down (`pfin`), drops its stream (`prst` → `Reset`), reads (`pread`, which produces the
//!   `Acknowledge`s — not reading starves the bridge of credit, `P`'s window is small); `abort`
//!   drops `B`'s connection task and handle without teardown. The harness moves the frames.
//! * Model: every bridge poll is also asked of `drv_bridge` (Lean `Penguin.Bridge.poll`), which is
//!   told the scripts and, as `ev …` lines, the frames that reached the stream; the per-poll lines
//!   (result, states, bytes to local, frames out, Finish, credit, wakers held, local calls) must be
//!   equal — `FailKind::Model`.
//! * Monitors (independent of the model, on the implementation's trace) — `FailKind::Impl`:
//!   relayed bytes equal and ordered both ways, one unit of credit per frame, half-close
//!   propagation, completion counts, prompt error, a registered waker for every blocked
//!   direction (and the bridge's `Flag` is set by the event that unblocks it), termination.
//!
//! Bulk family: two or three chunks of up to 200 000 bytes (`z:<n>:<k>` = the bytes k, k+1, … mod 251)
//! readable at once on the local side with credit 1 and 2: whatever the sizes, one poll may send one
//! Push per unit of credit obtained (`credit-overrun`: frames sent ≤ credit granted;
//! `credit-per-frame`: credit left + frames sent = credit granted). `--focus C03` is the run C03's
//! check makes: bulk + small enumerated families + random cases, only those two monitors reported,
//! no model comparison.
//!
//! Receiving side of the window (also part of `--focus C03`): the peer `P` is a conforming writer (a `pw`
//! step is a `poll_write` of `P`'s own `MuxStream`; without credit it is `Pending` and nothing is sent).
//! * `ack-before-consume`: whenever `B` puts an `Acknowledge` of the bridged flow on the wire, the counts
//!   acknowledged since the handshake must not exceed the number of `Push` frames the bridge has TAKEN out of
//!   the stream's receive queue. "Taken" is derived from the local side alone: the bridge offers every frame it
//!   takes to `poll_write` at once, remainder first, so `bytes accepted before the call + length offered` is the
//!   end offset (in the peer's byte stream) of the last frame taken; the frames that start before the largest
//!   such offset (frame boundaries = payload lengths of the `Push` frames handed to `B`) are the taken ones.
//!   No counter of the implementation is read.
//! * `peer-reset-for-overrun`: `B` sends no `Reset` of the flow while the local side has not failed, nobody
//!   aborted, the peer has neither reset nor dropped its stream and the bridge has not failed (the bridge's
//!   stream lives until the end of the case, so the only `Reset` left is the one for a `Push` that found the
//!   receive queue full).
//! * bulk-in cases (part of the bulk family): the local side's `poll_write` stalls / accepts one frame or one
//!   byte at a time / accepts `threshold - 1` or `threshold` frames between stalls, while the peer writes bursts
//!   of `2 * rwnd` frames (as many as its credit allows get through) before every bridge poll, so that the
//!   bridge comes back to a full queue; for window / threshold pairs from 1/1 to 8/8 (threshold < window,
//!   threshold = window), with the local → mux direction idle, ended early or carrying traffic of its own.
//!
//! Huge-burst family (C04's share of the bridge, also part of C13's run): the local source has 4–10 MiB readable
//! at once (every `poll_fill_buf` is `Ready` with a piece of 8 KiB … 1 MiB of one continuing pattern run until
//! the data is exhausted; then end-of-file / `Pending` with a wake-up and a last piece / `Pending` for good /
//! `Pending` with a wake-up and a second burst), the local sink accepts everything, the peer (window 1–8) keeps
//! reading and acknowledging. The `drain` step runs such a case to quiescence: the peer application reads
//! until nothing more is readable, the local side fires the wake-ups it promised, the bridge task is polled
//! whenever — and only when — its waker was woken. At quiescence `hang` = the local source has data or
//! end-of-file ready and holds no waker of the task, the stream has credit, nothing was reset, yet the bridge
//! is Pending and not woken; `burst-not-delivered` = what the peer application has read is not what the bridge
//! consumed from the local side (and, after a clean finish, not everything the source had). The scripted
//! local side takes no part in tokio's cooperative budget, so the coalescing loop runs as far as the code
//! lets it. These cases are written with `z` tokens throughout (wire, trace, per-poll line) and are judged BY
//! THE MONITORS ONLY: the model's byte strings are linked lists (one 6 MiB poll takes `drv_bridge` two
//! minutes). The mini-burst family has the same shape at a small scale (4–40 pieces of 1–4 bytes, `drain`
//! steps) and is compared with the model.
//! `--focus C04` is the run C04's check makes: huge-burst, mini-burst, bulk, small enumerated families and
//! random cases; only the progress monitors (`STALL_KEYS`) are reported, all under the key `bridge-stalled`
//! (the description names the monitor), no model comparison.
//!
//! `--pinned` compares with the model of the pinned code (`Penguin.Bridge.pinned`; used to confirm
//! on the unrepaired tree that the model mirrors both defects). `--kl/--km/--kd N` override the
//! enumeration bounds. A bridge that ends blocked on credit because the peer application dropped
//! its stream after `Finish` without reading (the peer endpoint then sends neither `Acknowledge`
//! nor `Reset`), or because the connection task was dropped without teardown, is counted
//! (`final/blocked-on-credit-of-vanished-peer`) but not judged: the bridge holds the right waker,
//! the credit never comes — that is the multiplexor's behaviour.

use pvh::exec::Flag;
use pvh::muxsim::{Sim, SimOpts, hexz, unhexz};
use pvh::{Args, Driver, FailKind, Report, Rng, Tier, catch, fnv, hex, hexd, json, shrink_list, unhex};
use std::collections::VecDeque;
use std::future::Future;
use std::io;
use std::pin::Pin;
use std::sync::{Arc, Mutex};
use std::task::{Context, Poll, Waker};
use tokio::io::{AsyncBufRead, AsyncRead, AsyncWrite, ReadBuf};

// ---------------------------------------------------------------------------------------------
// Scripts and cases
// ---------------------------------------------------------------------------------------------

#[derive(Clone, Debug, PartialEq, Eq)]
enum Ans<T> {
    Ready(T),
    Pending(bool),
    Err(u32),
}

#[derive(Clone, Debug, PartialEq, Eq)]
enum Step {
    Poll,
    LWake,
    PeerWrite(Vec<u8>),
    PeerFin,
    PeerRst,
    PeerRead(usize),
    Abort,
    Coop,
    /// drive to quiescence: the peer reads whatever arrives (which produces the `Acknowledge`s), the local
    /// side fires its `p1` wake-ups, the bridge is polled whenever (and only when) it is woken
    Drain,
}

#[derive(Clone, Debug, PartialEq, Eq)]
struct Case {
    /// the peer's receive window = the bridge stream's initial credit
    credit: u32,
    /// the bridge endpoint's receive window
    rwnd_b: u32,
    thr_p: u32,
    thr_b: u32,
    lfill: Vec<Ans<Vec<u8>>>,
    lwrite: Vec<Ans<usize>>,
    /// the last `lwrite` answer repeats for ever (text: a trailing `*`)
    lwrite_rep: bool,
    lflush: Vec<Ans<()>>,
    lshut: Vec<Ans<()>>,
    steps: Vec<Step>,
}

/// How often a repeating answer is written out for the model (the repaired code stops at the first).
const REP_FOR_MODEL: usize = 8;

fn pend_tok(b: bool) -> &'static str {
    if b { "p1" } else { "p0" }
}

/// `n` bytes `k, k+1, …` modulo 251: the large chunks of the bulk cases (written `z:<n>:<k>`, so that
/// case texts and replay files stay small; `drv_bridge` expands the token in the same way).
fn pattern(n: usize, k: u8) -> Vec<u8> {
    (0..n).map(|i| ((usize::from(k) + i) % 251) as u8).collect()
}

fn fill_tok(a: &Ans<Vec<u8>>) -> String {
    match a {
        Ans::Ready(d) if d.is_empty() => "eof".into(),
        Ans::Ready(d) if d.len() >= 64 && d[0] < 251 && *d == pattern(d.len(), d[0]) => format!("z:{}:{}", d.len(), d[0]),
        Ans::Ready(d) => format!("d:{}", hex(d)),
        Ans::Pending(b) => pend_tok(*b).into(),
        Ans::Err(c) => format!("e:{c}"),
    }
}
fn write_tok(a: &Ans<usize>) -> String {
    match a {
        Ans::Ready(n) => format!("n:{n}"),
        Ans::Pending(b) => pend_tok(*b).into(),
        Ans::Err(c) => format!("e:{c}"),
    }
}
fn unit_tok(a: &Ans<()>) -> String {
    match a {
        Ans::Ready(()) => "ok".into(),
        Ans::Pending(b) => pend_tok(*b).into(),
        Ans::Err(c) => format!("e:{c}"),
    }
}
fn step_tok(s: &Step) -> String {
    match s {
        Step::Poll => "poll".into(),
        Step::LWake => "lwake".into(),
        Step::PeerWrite(d) => format!("pw:{}", hex(d)),
        Step::PeerFin => "pfin".into(),
        Step::PeerRst => "prst".into(),
        Step::PeerRead(n) => format!("pread:{n}"),
        Step::Abort => "abort".into(),
        Step::Coop => "coop".into(),
        Step::Drain => "drain".into(),
    }
}

fn parse_common<T>(t: &str) -> Option<Option<Ans<T>>> {
    match t {
        "p0" => Some(Some(Ans::Pending(false))),
        "p1" => Some(Some(Ans::Pending(true))),
        _ => match t.strip_prefix("e:") {
            Some(c) => c.parse().ok().map(|c| Some(Ans::Err(c))),
            None => Some(None),
        },
    }
}
fn parse_fill(t: &str) -> Option<Ans<Vec<u8>>> {
    if let Some(a) = parse_common(t)? {
        return Some(a);
    }
    if t == "eof" {
        return Some(Ans::Ready(vec![]));
    }
    if let Some(z) = t.strip_prefix("z:") {
        let (n, k) = z.split_once(':')?;
        let (n, k): (usize, u8) = (n.parse().ok()?, k.parse().ok()?);
        return (n >= 1 && n <= 1 << 22 && k < 251).then(|| Ans::Ready(pattern(n, k)));
    }
    unhex(t.strip_prefix("d:")?).map(Ans::Ready)
}
fn parse_write(t: &str) -> Option<Ans<usize>> {
    if let Some(a) = parse_common(t)? {
        return Some(a);
    }
    t.strip_prefix("n:")?.parse().ok().map(Ans::Ready)
}
fn parse_unit(t: &str) -> Option<Ans<()>> {
    if let Some(a) = parse_common(t)? {
        return Some(a);
    }
    (t == "ok").then_some(Ans::Ready(()))
}
fn parse_step(t: &str) -> Option<Step> {
    Some(match t {
        "poll" => Step::Poll,
        "lwake" => Step::LWake,
        "pfin" => Step::PeerFin,
        "prst" => Step::PeerRst,
        "abort" => Step::Abort,
        "coop" => Step::Coop,
        "drain" => Step::Drain,
        _ => {
            if let Some(h) = t.strip_prefix("pw:") {
                Step::PeerWrite(unhex(h)?)
            } else {
                Step::PeerRead(t.strip_prefix("pread:")?.parse().ok()?)
            }
        }
    })
}

/// Bytes a fill script hands out before its first end-of-file answer.
fn lead_total<'a>(script: impl Iterator<Item = &'a Ans<Vec<u8>>>) -> usize {
    let mut n = 0;
    for a in script {
        match a {
            Ans::Ready(d) if d.is_empty() => break,
            Ans::Ready(d) => n += d.len(),
            _ => {}
        }
    }
    n
}

/// From this many scripted local bytes on a case is "huge": pattern runs are written as `z` tokens everywhere
/// (wire, trace, per-poll line), it is judged by the monitors only (no model comparison: the model's byte
/// strings are linked lists) and it is not shrunk answer by answer.
const HUGE_FROM: usize = 1 << 20;

impl Case {
    fn is_huge(&self) -> bool {
        self.lfill.iter().map(|a| if let Ans::Ready(d) = a { d.len() } else { 0 }).sum::<usize>() >= HUGE_FROM
    }

    fn to_text(&self) -> String {
        let j = |v: Vec<String>| v.join(" ");
        format!(
            "cfg {} {} {} {}\nlfill {}\nlwrite {}\nlflush {}\nlshut {}\nsteps {}",
            self.credit,
            self.rwnd_b,
            self.thr_p,
            self.thr_b,
            j(self.lfill.iter().map(fill_tok).collect()),
            j(self.lwrite.iter().map(write_tok).chain(self.lwrite_rep.then(|| "*".to_string())).collect()),
            j(self.lflush.iter().map(unit_tok).collect()),
            j(self.lshut.iter().map(unit_tok).collect()),
            j(self.steps.iter().map(step_tok).collect()),
        )
    }

    /// The `lwrite` script as the model is told it.
    fn lwrite_for_model(&self) -> Vec<Ans<usize>> {
        let mut v = self.lwrite.clone();
        if self.lwrite_rep {
            if let Some(last) = self.lwrite.last() {
                v.extend(std::iter::repeat_n(last.clone(), REP_FOR_MODEL));
            }
        }
        v
    }

    fn parse(text: &str) -> Option<Self> {
        let mut c = Self { credit: 2, rwnd_b: 4, thr_p: 1, thr_b: 1, lfill: vec![], lwrite: vec![], lwrite_rep: false, lflush: vec![], lshut: vec![], steps: vec![] };
        for line in text.lines() {
            let line = line.trim();
            if line.is_empty() || line.starts_with('#') {
                continue;
            }
            let t: Vec<&str> = line.split_whitespace().collect();
            match t[0] {
                "cfg" if t.len() == 5 => {
                    c.credit = t[1].parse().ok()?;
                    c.rwnd_b = t[2].parse().ok()?;
                    c.thr_p = t[3].parse().ok()?;
                    c.thr_b = t[4].parse().ok()?;
                }
                "lfill" => c.lfill = t[1..].iter().map(|x| parse_fill(x)).collect::<Option<_>>()?,
                "lwrite" => {
                    let mut toks = &t[1..];
                    if toks.last() == Some(&"*") && toks.len() >= 2 {
                        c.lwrite_rep = true;
                        toks = &toks[..toks.len() - 1];
                    }
                    c.lwrite = toks.iter().map(|x| parse_write(x)).collect::<Option<_>>()?;
                }
                "lflush" => c.lflush = t[1..].iter().map(|x| parse_unit(x)).collect::<Option<_>>()?,
                "lshut" => c.lshut = t[1..].iter().map(|x| parse_unit(x)).collect::<Option<_>>()?,
                "steps" => c.steps = t[1..].iter().map(|x| parse_step(x)).collect::<Option<_>>()?,
                _ => return None,
            }
        }
        (c.credit >= 1 && c.rwnd_b >= 1 && c.thr_p >= 1 && c.thr_b >= 1).then_some(c)
    }
}

// ---------------------------------------------------------------------------------------------
// The scripted local side
// ---------------------------------------------------------------------------------------------

#[derive(Clone, Debug, PartialEq, Eq)]
enum LCall {
    Fill(Ans<Vec<u8>>),
    Consume(usize),
    Write(usize, Ans<usize>),
    Flush(Ans<()>),
    Shut(Ans<()>),
}

impl LCall {
    fn tok(&self, compact: bool) -> String {
        match self {
            // (the call log is compared with the model's: always plain hex; huge cases are not compared)
            LCall::Fill(Ans::Ready(d)) if !d.is_empty() && !compact => format!("F:d:{}", hex(d)),
            LCall::Fill(a) => format!("F:{}", fill_tok(a)),
            LCall::Consume(n) => format!("C:{n}"),
            LCall::Write(len, a) => format!("W:{len}:{}", write_tok(a)),
            LCall::Flush(a) => format!("L:{}", unit_tok(a)),
            LCall::Shut(a) => format!("S:{}", unit_tok(a)),
        }
    }
    fn is_read_dir(&self) -> bool {
        matches!(self, LCall::Write(..) | LCall::Shut(_))
    }
}

const SLOT_FILL: usize = 0;
const SLOT_WRITE: usize = 1;
const SLOT_FLUSH: usize = 2;
const SLOT_SHUT: usize = 3;
/// more local calls than this in one bridge poll = the poll does not return
const CALL_BUDGET: u64 = 20_000;

#[derive(Debug)]
struct ScriptError(u32);
impl std::fmt::Display for ScriptError {
    fn fmt(&self, f: &mut std::fmt::Formatter<'_>) -> std::fmt::Result {
        write!(f, "scripted local error {}", self.0)
    }
}
impl std::error::Error for ScriptError {}

struct Shared {
    lfill: VecDeque<Ans<Vec<u8>>>,
    lwrite: VecDeque<Ans<usize>>,
    lwrite_rep: Option<Ans<usize>>,
    lflush: VecDeque<Ans<()>>,
    lshut: VecDeque<Ans<()>>,
    /// calls of the current bridge poll
    calls: Vec<LCall>,
    budget: u64,
    /// cumulative: bytes accepted by `poll_write`, handed out by `poll_fill_buf`, consumed
    accepted: Vec<u8>,
    produced: Vec<u8>,
    consumed: Vec<u8>,
    slots: [Option<(Waker, bool)>; 4],
    /// a waker of the bridge task, to compare with (`will_wake`)
    probe: Waker,
    foreign_waker: bool,
    eof_given: bool,
    shut_ok: u32,
    shut_called: bool,
    write_after_shut: bool,
    fill_after_eof: bool,
    unused_api: bool,
    /// largest `bytes accepted so far + length offered` over the `poll_write` calls: the end offset, in the
    /// peer's byte stream, of the last frame the bridge has taken out of the stream's receive queue
    offered_end: usize,
    /// the script has answered an operation with an error (or a zero-length write)
    local_err: bool,
    /// scripted bytes (before the script's first end-of-file) that `coop` threw away unread
    dropped: usize,
    /// the last `poll_fill_buf` answered `Pending` (the local source holds the task's waker for this direction)
    fill_parked: bool,
}

impl Shared {
    fn spend(&mut self) {
        if self.budget == 0 {
            panic!("call budget exhausted: the bridge poll does not return");
        }
        self.budget -= 1;
    }
    fn keep(&mut self, slot: usize, cx: &Context<'_>, later: bool) {
        if !cx.waker().will_wake(&self.probe) {
            self.foreign_waker = true;
        }
        self.slots[slot] = Some((cx.waker().clone(), later));
    }
    fn held(&self) -> usize {
        self.slots.iter().filter(|s| s.is_some()).count()
    }
}

struct ScriptedLocal {
    buf: Vec<u8>,
    sh: Arc<Mutex<Shared>>,
}

impl std::fmt::Debug for ScriptedLocal {
    fn fmt(&self, f: &mut std::fmt::Formatter<'_>) -> std::fmt::Result {
        write!(f, "ScriptedLocal")
    }
}

fn script_err(c: u32) -> io::Error {
    io::Error::other(ScriptError(c))
}

impl AsyncRead for ScriptedLocal {
    fn poll_read(self: Pin<&mut Self>, _cx: &mut Context<'_>, _buf: &mut ReadBuf<'_>) -> Poll<io::Result<()>> {
        // the bridge reads through `AsyncBufRead` only
        self.sh.lock().expect("sh").unused_api = true;
        Poll::Ready(Err(io::Error::other("poll_read is not part of the script")))
    }
}

impl AsyncBufRead for ScriptedLocal {
    fn poll_fill_buf(self: Pin<&mut Self>, cx: &mut Context<'_>) -> Poll<io::Result<&[u8]>> {
        let me = self.get_mut();
        let mut sh = me.sh.lock().expect("sh");
        sh.spend();
        if sh.eof_given {
            sh.fill_after_eof = true;
        }
        sh.fill_parked = false;
        if !me.buf.is_empty() {
            // a buffered reader hands the unconsumed bytes out again
            sh.calls.push(LCall::Fill(Ans::Ready(me.buf.clone())));
            drop(sh);
            return Poll::Ready(Ok(&me.buf));
        }
        let a = sh.lfill.pop_front().unwrap_or(Ans::Ready(vec![]));
        sh.calls.push(LCall::Fill(a.clone()));
        match a {
            Ans::Ready(d) => {
                if d.is_empty() {
                    sh.eof_given = true;
                }
                sh.produced.extend_from_slice(&d);
                drop(sh);
                me.buf = d;
                Poll::Ready(Ok(&me.buf))
            }
            Ans::Pending(later) => {
                sh.keep(SLOT_FILL, cx, later);
                sh.fill_parked = true;
                Poll::Pending
            }
            Ans::Err(c) => {
                sh.local_err = true;
                Poll::Ready(Err(script_err(c)))
            }
        }
    }

    fn consume(self: Pin<&mut Self>, amt: usize) {
        let me = self.get_mut();
        let mut sh = me.sh.lock().expect("sh");
        sh.spend();
        sh.calls.push(LCall::Consume(amt));
        assert!(amt <= me.buf.len(), "consume({amt}) of a {}-byte buffer", me.buf.len());
        sh.consumed.extend_from_slice(&me.buf[..amt]);
        me.buf.drain(..amt);
    }
}

impl AsyncWrite for ScriptedLocal {
    fn poll_write(self: Pin<&mut Self>, cx: &mut Context<'_>, buf: &[u8]) -> Poll<io::Result<usize>> {
        let mut sh = self.sh.lock().expect("sh");
        // (before anything that may unwind: the frame has been taken whatever happens to this call)
        sh.offered_end = sh.offered_end.max(sh.accepted.len() + buf.len());
        sh.spend();
        if sh.shut_called {
            sh.write_after_shut = true;
        }
        let next = sh.lwrite.pop_front().or_else(|| sh.lwrite_rep.clone());
        let a = match next {
            None => Ans::Ready(buf.len()),
            Some(Ans::Ready(n)) => Ans::Ready(n.min(buf.len())),
            Some(other) => other,
        };
        sh.calls.push(LCall::Write(buf.len(), a.clone()));
        match a {
            Ans::Ready(n) => {
                if n == 0 && !buf.is_empty() {
                    sh.local_err = true;
                }
                sh.accepted.extend_from_slice(&buf[..n]);
                Poll::Ready(Ok(n))
            }
            Ans::Pending(later) => {
                sh.keep(SLOT_WRITE, cx, later);
                Poll::Pending
            }
            Ans::Err(c) => {
                sh.local_err = true;
                Poll::Ready(Err(script_err(c)))
            }
        }
    }

    fn poll_flush(self: Pin<&mut Self>, cx: &mut Context<'_>) -> Poll<io::Result<()>> {
        let mut sh = self.sh.lock().expect("sh");
        sh.spend();
        let a = sh.lflush.pop_front().unwrap_or(Ans::Ready(()));
        sh.calls.push(LCall::Flush(a.clone()));
        match a {
            Ans::Ready(()) => Poll::Ready(Ok(())),
            Ans::Pending(later) => {
                sh.keep(SLOT_FLUSH, cx, later);
                Poll::Pending
            }
            Ans::Err(c) => {
                sh.local_err = true;
                Poll::Ready(Err(script_err(c)))
            }
        }
    }

    fn poll_shutdown(self: Pin<&mut Self>, cx: &mut Context<'_>) -> Poll<io::Result<()>> {
        let mut sh = self.sh.lock().expect("sh");
        sh.spend();
        sh.shut_called = true;
        let a = sh.lshut.pop_front().unwrap_or(Ans::Ready(()));
        sh.calls.push(LCall::Shut(a.clone()));
        match a {
            Ans::Ready(()) => {
                sh.shut_ok += 1;
                Poll::Ready(Ok(()))
            }
            Ans::Pending(later) => {
                sh.keep(SLOT_SHUT, cx, later);
                Poll::Pending
            }
            Ans::Err(c) => {
                sh.local_err = true;
                Poll::Ready(Err(script_err(c)))
            }
        }
    }
}

// ---------------------------------------------------------------------------------------------
// The world: two endpoints, the bridge, the accounting of the monitors
// ---------------------------------------------------------------------------------------------

trait DFut: Future<Output = io::Result<(usize, usize)>> + std::fmt::Debug {}
impl<T: Future<Output = io::Result<(usize, usize)>> + std::fmt::Debug> DFut for T {}

#[derive(Clone, Debug, PartialEq, Eq)]
enum Res {
    Pending,
    Ok(usize, usize),
    Err(String),
    Panic(String),
}

impl Res {
    fn tok(&self) -> String {
        match self {
            Res::Pending => "pending".into(),
            Res::Ok(r, w) => format!("ok:{r}:{w}"),
            Res::Err(e) => format!("err:{e}"),
            Res::Panic(p) => format!("panic:{}", p.replace(' ', "_")),
        }
    }
}

#[derive(Clone, Copy, Debug, PartialEq, Eq)]
enum Block {
    Local,
    MuxRead,
    MuxCredit,
}

struct World {
    p: Sim,
    b: Sim,
    flow: u32,
    bridge: Option<Pin<Box<dyn DFut>>>,
    sh: Arc<Mutex<Shared>>,
    flag: Arc<Flag>,
    /// request lines for the model, in order
    reqs: Vec<String>,
    /// implementation's answer to each `poll` request, in order
    lines: Vec<String>,
    trace: Vec<String>,
    fails: Vec<(String, String)>,
    // accounting
    delivered: Vec<u8>,
    rx_end: bool,
    closed: bool,
    aborted: bool,
    granted: u64,
    sent_frames: u64,
    out_bytes: Vec<u8>,
    fin_frames: u32,
    push_after_fin: bool,
    finished: Option<Res>,
    blocked_r: Option<Block>,
    blocked_w: Option<Block>,
    p_alive: bool,
    p_shut: bool,
    polls: u32,
    moved: bool,
    dead_peer: bool,
    /// size of the peer application's reads in the completion phase
    final_read: usize,
    /// start offset (in `delivered`) of every `Push` frame handed to `B`, and whether it is empty
    frame_starts: Vec<(usize, bool)>,
    /// sum of the counts of the `Acknowledge` frames `B` has put on the wire for the flow since the handshake
    acked: u64,
    /// a huge case: long pattern runs are written as `z` tokens (wire, trace, per-poll line)
    compact: bool,
    /// everything the peer application has read from its stream, in order
    peer_got: Vec<u8>,
    /// bytes the local fill script hands out before its first end-of-file
    src_total: usize,
    /// the case has a `drain` step (the end-of-case delivery check applies)
    drained: bool,
}

const OP_ACK: u8 = 1;
const OP_RST: u8 = 2;
const OP_FIN: u8 = 3;
const OP_PUSH: u8 = 4;

fn parse_frame(hexs: &str) -> Option<(u8, u32, Vec<u8>)> {
    let b = unhexz(hexs)?;
    if b.len() < 5 {
        return None;
    }
    Some((b[0] & 0x0f, u32::from_be_bytes([b[1], b[2], b[3], b[4]]), b[5..].to_vec()))
}

/// Long hex runs of a trace line shortened (the trace is for the reader; the compared lines stay whole).
fn abbr(line: &str) -> String {
    if line.len() <= 600 {
        return line.to_string();
    }
    let mut out = String::with_capacity(600);
    let mut run = String::new();
    let flush = |run: &mut String, out: &mut String| {
        if run.len() > 96 {
            out.push_str(&run[..32]);
            out.push_str(&format!("..({} bytes)..", run.len() / 2));
            out.push_str(&run[run.len() - 32..]);
        } else {
            out.push_str(run);
        }
        run.clear();
    };
    for c in line.chars() {
        if c.is_ascii_hexdigit() {
            run.push(c);
        } else {
            flush(&mut run, &mut out);
            out.push(c);
        }
    }
    flush(&mut run, &mut out);
    out
}

/// A byte string for a failure description (what `abbr` would make of its hex, without building megabytes of it).
fn show(b: &[u8]) -> String {
    if b.len() > 2048 { format!("{}..({} bytes)..{}", hex(&b[..16]), b.len(), hex(&b[b.len() - 16..])) } else { hexd(b) }
}

/// The `wire <hex>` events of a `Sim` answer / settle.
fn wires_of(evs: &[String]) -> Vec<String> {
    evs.iter().filter_map(|e| e.strip_prefix("wire ").map(str::to_string)).collect()
}

fn split_answer(out: &str) -> (String, Vec<String>) {
    let (res, evs) = out.split_once(" | ").unwrap_or((out, ""));
    (res.to_string(), evs.split("; ").filter(|s| !s.is_empty()).map(str::to_string).collect())
}

fn field<'a>(dbg: &'a str, key: &str) -> Option<&'a str> {
    let i = dbg.find(key)? + key.len();
    let rest = &dbg[i..];
    let end = rest.find([',', ' ', '}', '\n']).unwrap_or(rest.len());
    Some(&rest[..end])
}

impl World {
    fn new(case: &Case, mode: &str) -> Self {
        let mk = |rwnd: u32, thr: u32| SimOpts { rwnd, threshold: thr, accept_cap: 2, dgram_cap: 1, bind_cap: 0, max_retries: 2 };
        let mut p = Sim::new("P", mk(case.credit, case.thr_p));
        let mut b = Sim::new("B", mk(case.rwnd_b, case.thr_b));
        let compact = case.is_huge();
        p.compact = compact;
        b.compact = compact;
        // P opens, B accepts; the handshake frames are moved by hand
        let (_, evs) = split_answer(&p.apply(&["open", "1", "6c", "80"]));
        let connect = wires_of(&evs);
        assert_eq!(connect.len(), 1, "one Connect frame");
        let flow = parse_frame(&connect[0]).expect("connect frame").1;
        let (_, evs) = split_answer(&b.apply(&["deliver", "bin", &connect[0]]));
        let acks = wires_of(&evs);
        let (res, evs2) = split_answer(&b.apply(&["accept"]));
        assert!(res.starts_with("stream 0 "), "accept: {res}");
        let mut to_p = acks;
        to_p.extend(wires_of(&evs2));
        let mut opened = false;
        for m in to_p {
            let (_, evs) = split_answer(&p.apply(&["deliver", "bin", &m]));
            opened |= evs.iter().any(|e| e == "opendone 1 ok 0");
        }
        assert!(opened, "the peer's open completes");
        let stream = b.handles[0].stream.take().expect("accepted stream");
        // a freshly spawned task is runnable
        let flag = Flag::new(true);
        let sh = Arc::new(Mutex::new(Shared {
            lfill: case.lfill.iter().cloned().collect(),
            lwrite: case.lwrite.iter().cloned().collect(),
            lwrite_rep: if case.lwrite_rep { case.lwrite.last().cloned() } else { None },
            lflush: case.lflush.iter().cloned().collect(),
            lshut: case.lshut.iter().cloned().collect(),
            calls: vec![],
            budget: CALL_BUDGET,
            accepted: vec![],
            produced: vec![],
            consumed: vec![],
            slots: [None, None, None, None],
            probe: flag.waker(),
            foreign_waker: false,
            eof_given: false,
            shut_ok: 0,
            shut_called: false,
            write_after_shut: false,
            fill_after_eof: false,
            unused_api: false,
            offered_end: 0,
            local_err: false,
            dropped: 0,
            fill_parked: false,
        }));
        let local = ScriptedLocal { buf: vec![], sh: sh.clone() };
        let bridge: Pin<Box<dyn DFut>> = Box::pin(stream.into_copy_bidirectional_with_buf(local));
        let j = |v: Vec<String>| v.join(" ");
        let reqs = vec![
            format!("new {} {mode}", case.credit),
            format!("script lfill {}", j(case.lfill.iter().map(fill_tok).collect())),
            format!("script lwrite {}", j(case.lwrite_for_model().iter().map(write_tok).collect())),
            format!("script lflush {}", j(case.lflush.iter().map(unit_tok).collect())),
            format!("script lshut {}", j(case.lshut.iter().map(unit_tok).collect())),
        ];
        Self {
            p,
            b,
            flow,
            bridge: Some(bridge),
            sh,
            flag,
            reqs,
            lines: vec![],
            trace: vec![],
            fails: vec![],
            delivered: vec![],
            rx_end: false,
            closed: false,
            aborted: false,
            granted: u64::from(case.credit),
            sent_frames: 0,
            out_bytes: vec![],
            fin_frames: 0,
            push_after_fin: false,
            finished: None,
            blocked_r: None,
            blocked_w: None,
            p_alive: true,
            p_shut: false,
            polls: 0,
            moved: false,
            dead_peer: false,
            // bulk cases: the peer application reads whole frames, so that 64 reads drain everything
            final_read: if compact { 1 << 24 } else if case.lfill.iter().any(|a| matches!(a, Ans::Ready(d) if d.len() > 1024)) { 1 << 18 } else { 4096 },
            frame_starts: vec![],
            acked: 0,
            compact,
            peer_got: vec![],
            src_total: lead_total(case.lfill.iter()),
            drained: false,
        }
    }

    fn fail(&mut self, key: &str, desc: String) {
        if !self.fails.iter().any(|f| f.0 == key) {
            self.fails.push((key.to_string(), abbr(&desc)));
        }
    }

    /// Mux waker slots currently holding the bridge task's waker: every clone of the `Flag` waker
    /// that is neither the harness's own handle, nor the probe, nor held by the local side.
    fn mux_wakers_held(&self) -> usize {
        let local = self.sh.lock().expect("sh").held();
        Arc::strong_count(&self.flag).saturating_sub(2 + local)
    }

    /// Deliver one frame of `P` to `B`'s connection task; returns `B`'s reaction on the wire.
    fn deliver_to_b(&mut self, m: &str) -> Vec<String> {
        if self.aborted {
            return vec![];
        }
        let was_set = self.flag.is_set();
        let (_, evs) = split_answer(&self.b.apply(&["deliver", "bin", m]));
        let Some((op, id, payload)) = parse_frame(m) else { return wires_of(&evs) };
        if id != self.flow || self.bridge.is_none() {
            return wires_of(&evs);
        }
        let (mut wake_r, mut wake_w) = (false, false);
        match op {
            OP_PUSH if !self.rx_end => {
                self.reqs.push(format!("ev push {}", hexd(&payload)));
                self.trace.push(abbr(&format!("  -> stream: Push {}", hexd(&payload))));
                self.frame_starts.push((self.delivered.len(), payload.is_empty()));
                self.delivered.extend_from_slice(&payload);
                wake_r = true;
            }
            OP_FIN if !self.rx_end => {
                self.reqs.push("ev fin".into());
                self.trace.push("  -> stream: Finish".into());
                self.rx_end = true;
                wake_r = true;
            }
            OP_RST if !(self.rx_end && self.closed) => {
                self.reqs.push("ev rst".into());
                self.trace.push("  -> stream: Reset".into());
                self.rx_end = true;
                self.closed = true;
                wake_r = true;
                wake_w = true;
            }
            OP_ACK if !self.closed && payload.len() >= 4 => {
                let n = u32::from_be_bytes([payload[0], payload[1], payload[2], payload[3]]);
                self.reqs.push(format!("ev ack {n}"));
                self.trace.push(format!("  -> stream: Acknowledge {n}"));
                self.granted += u64::from(n);
                wake_w = true;
            }
            _ => {}
        }
        // no lost wake-up: the event that unblocks a direction must wake the bridge task
        if self.finished.is_none() && !was_set {
            if wake_r && self.blocked_r == Some(Block::MuxRead) && !self.flag.is_set() {
                self.fail("lost-wakeup-read", format!("the read direction was blocked on the stream; frame {m} arrived and the bridge task was not woken"));
            }
            if wake_w && self.blocked_w == Some(Block::MuxCredit) && !self.flag.is_set() {
                self.fail("lost-wakeup-credit", format!("the write direction was blocked on credit; frame {m} arrived and the bridge task was not woken"));
            }
        }
        wires_of(&evs)
    }

    /// How many of the `Push` frames handed to `B` the bridge has taken out of the stream's receive queue, as
    /// seen from the local side: a frame is offered to `poll_write` as soon as it is taken, so the frames that
    /// start before the largest offset offered so far have been taken (an empty frame carries nothing to
    /// offer: one that starts exactly there counts as taken, which keeps the monitor sound). Also returns
    /// that offset.
    fn frames_taken(&self) -> (u64, usize) {
        let end = self.sh.lock().expect("sh").offered_end;
        (self.frame_starts.iter().filter(|(start, empty)| *start < end || (*empty && *start <= end)).count() as u64, end)
    }

    /// Look at what `B` put on the wire (the bridge's frames among it), hand it to `P`.
    fn from_b(&mut self, wires: Vec<String>) -> (Vec<Vec<u8>>, u32, Vec<String>) {
        let mut pushes = vec![];
        let mut fins = 0;
        let mut back = vec![];
        for m in wires {
            if let Some((op, id, payload)) = parse_frame(&m) {
                if id == self.flow {
                    match op {
                        OP_PUSH => {
                            if self.fin_frames > 0 {
                                self.push_after_fin = true;
                            }
                            self.sent_frames += 1;
                            self.out_bytes.extend_from_slice(&payload);
                            pushes.push(payload);
                        }
                        OP_FIN => {
                            self.fin_frames += 1;
                            fins += 1;
                        }
                        OP_ACK if payload.len() >= 4 => {
                            let n = u64::from(u32::from_be_bytes([payload[0], payload[1], payload[2], payload[3]]));
                            self.acked += n;
                            let (taken, offered_end) = self.frames_taken();
                            self.trace.push(format!("  <- stream: Acknowledge {n} (acknowledged so far {}, frames taken by the bridge {taken})", self.acked));
                            if self.acked > taken {
                                let (acked, handed) = (self.acked, self.frame_starts.len());
                                self.fail(
                                    "ack-before-consume",
                                    format!(
                                        "the bridge's endpoint has acknowledged {acked} Push frames of the flow (this Acknowledge: {n}) but the bridge has taken only {taken} \
out of the receive queue ({handed} handed to the endpoint; the last frame offered to the local side ends at byte {offered_end} of the peer's data): \
the peer is given credit for frames that still occupy the window"
                                    ),
                                );
                            }
                        }
                        OP_RST => {
                            self.trace.push("  <- stream: Reset".into());
                            let local_err = self.sh.lock().expect("sh").local_err;
                            let failed = matches!(self.finished, Some(Res::Err(_) | Res::Panic(_)));
                            if !self.aborted && self.p_alive && !self.closed && !local_err && !failed {
                                let (taken, _) = self.frames_taken();
                                let (acked, handed) = (self.acked, self.frame_starts.len());
                                self.fail(
                                    "peer-reset-for-overrun",
                                    format!(
                                        "the bridge's endpoint reset the flow although the local side is healthy, nobody aborted, the peer neither reset nor dropped its stream \
and writes only when its own stream grants credit: {handed} Push frames handed to the endpoint, {taken} taken by the bridge, {acked} acknowledged, receive window {}",
                                        self.b.opts.rwnd
                                    ),
                                );
                            }
                        }
                        _ => {}
                    }
                }
            }
            let (_, evs) = split_answer(&self.p.apply(&["deliver", "bin", &m]));
            back.extend(wires_of(&evs));
        }
        (pushes, fins, back)
    }

    /// Move frames both ways until nothing is in flight.
    fn pump(&mut self, mut to_b: Vec<String>, mut to_p: Vec<String>) -> (Vec<Vec<u8>>, u32) {
        let mut pushes = vec![];
        let mut fins = 0;
        for _ in 0..64 {
            if to_b.is_empty() && to_p.is_empty() {
                break;
            }
            let (ps, f, back) = self.from_b(std::mem::take(&mut to_p));
            pushes.extend(ps);
            fins += f;
            to_b.extend(back);
            for m in std::mem::take(&mut to_b) {
                to_p.extend(self.deliver_to_b(&m));
            }
        }
        (pushes, fins)
    }

    fn peer(&mut self, toks: &[&str]) -> String {
        let (res, evs) = split_answer(&self.p.apply(toks));
        self.trace.push(abbr(&format!("peer {} => {res}", toks.join(" "))));
        if toks[0] == "read" {
            if let Some(d) = res.strip_prefix("data ").and_then(unhexz) {
                self.peer_got.extend_from_slice(&d);
            }
        }
        self.pump(wires_of(&evs), vec![]);
        res
    }

    #[allow(clippy::too_many_lines)]
    fn poll_bridge(&mut self) {
        let Some(bridge) = self.bridge.as_mut() else { return };
        if self.finished.is_some() {
            return;
        }
        self.polls += 1;
        let (acc0, cons0) = {
            let mut sh = self.sh.lock().expect("sh");
            sh.calls.clear();
            sh.budget = CALL_BUDGET;
            (sh.accepted.len(), sh.consumed.len())
        };
        let rx_end0 = self.rx_end;
        let closed0 = self.closed;
        self.flag.take();
        let res = {
            let waker = self.flag.waker();
            let mut cx = Context::from_waker(&waker);
            match catch(|| bridge.as_mut().poll(&mut cx)) {
                Ok(Poll::Pending) => Res::Pending,
                Ok(Poll::Ready(Ok((r, w)))) => Res::Ok(r, w),
                Ok(Poll::Ready(Err(e))) => Res::Err(match e.get_ref().and_then(|x| x.downcast_ref::<ScriptError>()) {
                    Some(ScriptError(c)) => format!("local:{c}"),
                    None => match e.kind() {
                        io::ErrorKind::BrokenPipe => "brokenpipe".into(),
                        io::ErrorKind::WriteZero => "writezero".into(),
                        k => format!("{k:?}"),
                    },
                }),
                Err(p) => Res::Panic(p),
            }
        };
        let dbg = format!("{:?}", self.bridge.as_ref().expect("bridge"));
        // let B's connection task send what the bridge queued
        let wires = if self.aborted { vec![] } else { wires_of(&self.b.settle()) };
        let mw = self.mux_wakers_held();
        let (pushes, fins) = {
            // frames of this poll only: look before handing them on
            let mut ps = vec![];
            let mut f = 0;
            for m in &wires {
                if let Some((op, id, payload)) = parse_frame(m) {
                    if id == self.flow && op == OP_PUSH {
                        ps.push(payload);
                    } else if id == self.flow && op == OP_FIN {
                        f += 1;
                    }
                }
            }
            (ps, f)
        };
        let (calls, accepted, consumed, produced, eof_given, shut_ok, flags) = {
            let sh = self.sh.lock().expect("sh");
            (
                sh.calls.clone(),
                sh.accepted.clone(),
                sh.consumed.clone(),
                sh.produced.clone(),
                sh.eof_given,
                sh.shut_ok,
                (sh.foreign_waker, sh.write_after_shut, sh.fill_after_eof, sh.unused_api),
            )
        };
        let rs = field(&dbg, "read_state: ").map_or("?".to_string(), |s| {
            let n: String = s.chars().filter(char::is_ascii_digit).collect();
            format!("{}{n}", if s.starts_with("Transferring") { "T" } else if s.starts_with("ShuttingDown") { "S" } else { "D" })
        });
        let ws = field(&dbg, "write_state: ").map_or("?".to_string(), |s| {
            let n: String = s.chars().filter(char::is_ascii_digit).collect();
            format!("{}{n}", if s.starts_with("Transferring") { "T" } else { "D" })
        });
        let cr: i64 = field(&dbg, "psh_send_remaining: ").and_then(|s| s.parse().ok()).unwrap_or(-1);
        let compact = self.compact;
        let call_toks: Vec<String> = calls.iter().map(|c| c.tok(compact)).collect();
        let line = format!(
            "res={} rs={rs} ws={ws} in={} out={} fin={} cr={cr} mw={mw} calls={}",
            res.tok(),
            hexd(&accepted[acc0..]),
            if pushes.is_empty() { "-".to_string() } else { pushes.iter().map(|p| if compact { hexz(p) } else { hex(p) }).collect::<Vec<_>>().join(",") },
            fins,
            if call_toks.is_empty() {
                "-".to_string()
            } else if compact && call_toks.len() > 24 {
                // (a huge case's line is for the reader only)
                let fills = calls.iter().filter(|c| matches!(c, LCall::Fill(_))).count();
                format!("{},..({} calls in all, {fills} of them poll_fill_buf)..,{}", call_toks[..8].join(","), call_toks.len(), call_toks[call_toks.len() - 6..].join(","))
            } else {
                call_toks.join(",")
            },
        );
        self.reqs.push("poll".into());
        self.lines.push(line.clone());
        self.trace.push(abbr(&format!("poll #{} => {line}", self.polls)));
        if accepted.len() > acc0 || consumed.len() > cons0 {
            self.moved = true;
        }

        // ---------------- monitors on this poll ----------------
        let n = self.polls;
        if let Res::Panic(p) = &res {
            self.fail("poll-panics", format!("poll #{n} did not return normally: {p}"));
        }
        if flags.0 {
            self.fail("foreign-waker", "the local side was polled with a waker that is not the bridge task's".into());
        }
        if flags.1 {
            self.fail("write-after-shutdown", "poll_write was called on the local side after poll_shutdown".into());
        }
        if flags.2 {
            self.fail("fill-after-eof", "poll_fill_buf was called on the local side after it reported end-of-file".into());
        }
        if flags.3 {
            self.fail("unexpected-api", "the bridge used poll_read on the local side".into());
        }
        // relay in: accepted by local = prefix of what reached the stream
        if !self.delivered.starts_with(&accepted) {
            self.fail("relay-in", format!("bytes written to the local side {} are not a prefix of the bytes the peer sent {}", hexd(&accepted), hexd(&self.delivered)));
        }
        // errors of this poll
        let mut errs: Vec<String> = vec![];
        for c in &calls {
            match c {
                LCall::Fill(Ans::Err(c)) | LCall::Write(_, Ans::Err(c)) | LCall::Flush(Ans::Err(c)) | LCall::Shut(Ans::Err(c)) => errs.push(format!("local:{c}")),
                LCall::Write(len, Ans::Ready(0)) if *len > 0 => errs.push("writezero".into()),
                _ => {}
            }
        }
        let last_w = calls.iter().rev().find(|c| !c.is_read_dir());
        let last_r = calls.iter().rev().find(|c| c.is_read_dir());
        let offered_unconsumed = matches!(last_w, Some(LCall::Fill(Ans::Ready(d))) if !d.is_empty());
        if closed0 && offered_unconsumed {
            errs.push("brokenpipe".into()); // the stream was closed: no permission to write
        }
        if self.aborted && consumed.len() > cons0 {
            errs.push("brokenpipe".into()); // the task is gone: the frame cannot be sent
        }
        match &res {
            Res::Err(e) => {
                if !errs.contains(e) {
                    self.fail("invented-error", format!("poll #{n} returned {e} but the operations of this poll failed with {errs:?} (calls {call_toks:?})"));
                }
            }
            Res::Panic(_) => {}
            _ => {
                if !errs.is_empty() {
                    self.fail(
                        "error-not-prompt",
                        format!("in poll #{n} an operation failed ({errs:?}; calls {call_toks:?}) but the poll returned {} instead of that error", res.tok()),
                    );
                }
            }
        }
        // relay out: frames = consumed (unless the poll failed)
        for p in &pushes {
            if p.is_empty() {
                self.fail("empty-push", "the bridge sent an empty Push frame".into());
            }
        }
        let mut out_now = self.out_bytes.clone();
        for p in &pushes {
            out_now.extend_from_slice(p);
        }
        if !produced.starts_with(&consumed) {
            self.fail("consume-order", "bytes consumed from the local side are not a prefix of the bytes it handed out".into());
        }
        if !matches!(res, Res::Err(_) | Res::Panic(_)) && !self.aborted && out_now != consumed {
            self.fail("relay-out", format!("after poll #{n}: Push payloads sent {} differ from the bytes consumed from the local side {}", show(&out_now), show(&consumed)));
        }
        if !consumed.starts_with(&out_now) && !self.aborted {
            self.fail("relay-out", format!("after poll #{n}: Push payloads sent {} are not a prefix of the bytes consumed {}", show(&out_now), show(&consumed)));
        }
        // one unit of credit per frame
        let sent_now = self.sent_frames + pushes.len() as u64;
        if !self.aborted {
            if sent_now > self.granted {
                self.fail("credit-overrun", format!("after poll #{n}: {sent_now} Push frames sent with {} units of credit granted", self.granted));
            }
            if cr >= 0 && !closed0 && (cr as u64) + sent_now != self.granted {
                self.fail("credit-per-frame", format!("after poll #{n}: credit left {cr} + frames sent {sent_now} != credit granted {}", self.granted));
            }
        }
        // half-close
        let shut_in_poll = calls.iter().any(|c| matches!(c, LCall::Shut(_)));
        if shut_in_poll && !(rx_end0 && accepted == self.delivered) {
            self.fail("early-shutdown", format!("poll #{n}: poll_shutdown of the local side before the peer's end-of-stream / before all its data was written"));
        }
        let read_done = shut_ok > 0;
        if rx_end0 && accepted == self.delivered && !read_done && !shut_in_poll && !matches!(res, Res::Err(_) | Res::Panic(_)) {
            self.fail("eof-not-propagated", format!("poll #{n}: the stream had ended and all its data was written, but poll_shutdown of the local side was not called"));
        }
        if shut_ok > 1 {
            self.fail("double-shutdown", "poll_shutdown of the local side completed twice".into());
        }
        let eof_in_poll = calls.iter().any(|c| matches!(c, LCall::Fill(Ans::Ready(d)) if d.is_empty()));
        if eof_in_poll && !closed0 && !self.aborted && fins != 1 {
            self.fail("finish-missing", format!("poll #{n}: the local side reported end-of-file but {fins} Finish frames were sent"));
        }
        if !eof_in_poll && fins > 0 {
            self.fail("finish-spurious", format!("poll #{n}: a Finish frame was sent without local end-of-file"));
        }
        if self.fin_frames + fins > 1 {
            self.fail("finish-twice", "more than one Finish frame was sent".into());
        }
        // completion
        let write_done = eof_given;
        match &res {
            Res::Ok(r, w) => {
                if !(read_done && write_done) {
                    self.fail("early-completion", format!("poll #{n} completed with Ok although a direction has not ended (local shutdown done: {read_done}, local eof: {write_done})"));
                }
                if *r != accepted.len() || *w != consumed.len() {
                    self.fail("completion-counts", format!("poll #{n} returned ({r}, {w}); bytes relayed in {} / out {}", accepted.len(), consumed.len()));
                }
            }
            Res::Pending => {
                if read_done && write_done {
                    self.fail("no-completion", format!("poll #{n}: both directions have ended but the bridge returned Pending"));
                }
            }
            _ => {}
        }
        // pending ⇒ a waker for each blocked direction
        self.blocked_r = None;
        self.blocked_w = None;
        if res == Res::Pending {
            if !read_done {
                let local_pending = matches!(last_r, Some(LCall::Write(_, Ans::Pending(_)) | LCall::Shut(Ans::Pending(_))));
                if local_pending {
                    self.blocked_r = Some(Block::Local);
                } else if accepted == self.delivered && !rx_end0 {
                    self.blocked_r = Some(Block::MuxRead);
                } else {
                    self.fail("read-stalled", format!("poll #{n} returned Pending, the read direction is not blocked on any operation (data or end-of-stream available, last local call {:?})", last_r.map(|c| c.tok(compact))));
                }
            }
            if !write_done {
                let fill_pending = calls.iter().rev().find(|c| matches!(c, LCall::Fill(_))).is_some_and(|c| matches!(c, LCall::Fill(Ans::Pending(_))));
                if fill_pending {
                    self.blocked_w = Some(Block::Local);
                } else if offered_unconsumed && sent_now == self.granted && !closed0 {
                    self.blocked_w = Some(Block::MuxCredit);
                } else {
                    self.fail(
                        "pending-without-waker",
                        format!("poll #{n} returned Pending but the write direction is not blocked on any operation that holds the task's waker (calls {call_toks:?}): nothing will wake the bridge for it"),
                    );
                }
            }
            let expect_mux = usize::from(self.blocked_r == Some(Block::MuxRead)) + usize::from(self.blocked_w == Some(Block::MuxCredit));
            if mw < expect_mux {
                self.fail("mux-waker-missing", format!("poll #{n}: {expect_mux} direction(s) blocked on the stream but only {mw} stream waker slot(s) hold the task's waker"));
            }
        } else {
            self.finished = Some(res.clone());
        }
        // hand the frames on
        self.pump(vec![], wires);
    }

    fn lwake(&mut self, all: bool) {
        let ws: Vec<Waker> = {
            let mut sh = self.sh.lock().expect("sh");
            let mut v = vec![];
            for s in &mut sh.slots {
                if s.as_ref().is_some_and(|(_, later)| *later || all) {
                    v.push(s.take().expect("slot").0);
                }
            }
            if sh.slots[SLOT_FILL].is_none() {
                sh.fill_parked = false;
            }
            v
        };
        self.trace.push(format!("local wakes {} waker(s)", ws.len()));
        for w in ws {
            w.wake();
        }
    }

    fn coop(&mut self) {
        {
            let mut sh = self.sh.lock().expect("sh");
            if !sh.eof_given {
                sh.dropped += lead_total(sh.lfill.iter());
            }
            sh.lfill.clear();
            sh.lwrite.clear();
            sh.lwrite_rep = None;
            sh.lflush.clear();
            sh.lshut.clear();
        }
        self.reqs.push("coop".into());
        self.trace.push("local side co-operative from now on".into());
        self.lwake(true);
    }

    fn step(&mut self, s: &Step) {
        if self.finished.is_some() {
            return;
        }
        match s {
            Step::Poll => self.poll_bridge(),
            Step::LWake => self.lwake(false),
            Step::PeerWrite(d) => {
                if self.p_alive && !self.p_shut && !d.is_empty() {
                    self.peer(&["write", "0", &hex(d)]);
                }
            }
            Step::PeerFin => {
                if self.p_alive && !self.p_shut {
                    self.p_shut = true;
                    self.peer(&["shutdown", "0"]);
                }
            }
            Step::PeerRst => {
                if self.p_alive {
                    self.p_alive = false;
                    self.peer(&["dropstream", "0"]);
                }
            }
            Step::PeerRead(n) => {
                if self.p_alive {
                    self.peer(&["read", "0", &n.to_string()]);
                }
            }
            Step::Abort => {
                if !self.aborted {
                    self.aborted = true;
                    let was_set = self.flag.is_set();
                    // the runtime drops the connection task and the handle, no teardown runs
                    self.b.exec.cancel(0);
                    self.b.mux = None;
                    self.reqs.push("ev abort".into());
                    self.trace.push("B's connection task and handle dropped".into());
                    self.rx_end = true;
                    if !was_set && self.blocked_r == Some(Block::MuxRead) && !self.flag.is_set() {
                        self.fail("lost-wakeup-read", "the read direction was blocked on the stream; the connection was dropped and the bridge task was not woken".into());
                    }
                }
            }
            Step::Coop => self.coop(),
            Step::Drain => self.drain(),
        }
    }

    /// What the local source would hand out right now without any outside event: (bytes, then end-of-file?).
    /// The unconsumed buffer, then the leading `Ready` answers of the fill script; an exhausted script answers
    /// end-of-file.
    fn source_ready(&self) -> (usize, bool) {
        let sh = self.sh.lock().expect("sh");
        if sh.eof_given {
            return (0, false);
        }
        let mut n = sh.produced.len() - sh.consumed.len();
        for a in &sh.lfill {
            match a {
                Ans::Ready(d) if d.is_empty() => return (n, true),
                Ans::Ready(d) => n += d.len(),
                _ => return (n, false),
            }
        }
        (n, true)
    }

    /// The `drain` step: run to quiescence with both ends willing. The peer application reads until nothing
    /// more is readable (its endpoint acknowledges, the frames are moved), the local side fires the wake-ups
    /// it promised (`p1`), and the bridge task is polled whenever — and only when — its waker was woken.
    /// Judged at quiescence:
    /// * `hang`: the local source has data or end-of-file ready and holds no waker of the bridge (its last
    ///   `poll_fill_buf` was not `Pending`), the stream has credit (units granted > frames sent; end-of-file
    ///   alone needs none), nothing was reset or aborted — the write direction would make progress if polled —
    ///   yet the bridge is Pending and nobody will wake it;
    /// * `burst-not-delivered`: what the peer application has read differs from the bytes the bridge consumed
    ///   from the local side (the peer kept reading; nothing was reset).
    fn drain(&mut self) {
        self.drained = true;
        self.trace.push("-- drain: the peer reads whatever arrives, the local side fires its wake-ups, the bridge is polled whenever it is woken --".into());
        let n = self.final_read.to_string();
        for _round in 0..4096 {
            if self.finished.is_some() {
                break;
            }
            let mut progress = false;
            if self.flag.is_set() {
                self.poll_while_woken();
                progress = true;
            }
            if self.p_alive {
                for _ in 0..4096 {
                    if !self.peer(&["read", "0", &n]).starts_with("data") {
                        break;
                    }
                    progress = true;
                }
            }
            let promised = self.sh.lock().expect("sh").slots.iter().any(|s| s.as_ref().is_some_and(|(_, later)| *later));
            if promised {
                self.lwake(false);
                progress = true;
            }
            if !progress && !self.flag.is_set() {
                break;
            }
        }
        if self.finished.is_some() || self.flag.is_set() {
            return;
        }
        let (ready, eof) = self.source_ready();
        let (produced, consumed) = {
            let sh = self.sh.lock().expect("sh");
            (sh.produced.len(), sh.consumed.len())
        };
        let has_credit = self.granted > self.sent_frames;
        let (local_err, fill_parked) = {
            let sh = self.sh.lock().expect("sh");
            (sh.local_err, sh.fill_parked)
        };
        let healthy = !self.closed && !self.aborted && self.p_alive && !local_err;
        // (a `p0` answer = a local side that keeps the waker and never uses it: the bridge is parked with
        // the right operation then, whatever the script would answer next)
        if healthy && !fill_parked && ((ready > 0 && has_credit) || (ready == 0 && eof)) {
            let line = self.lines.last().cloned().unwrap_or_default();
            self.fail(
                "hang",
                format!(
                    "quiescent with unsent data: the local side has {ready} byte(s){} ready ({consumed} of {} forwarded so far, {} read by the peer), the stream has credit \
({} units granted, {} Push frames sent), the peer application has read everything that arrived and keeps reading, the bridge task was polled whenever it was woken, \
yet it is Pending and not woken: nothing will ever poll it again (last poll: {line})",
                    if eof { " and then end-of-file" } else { "" },
                    self.src_total.max(produced),
                    self.peer_got.len(),
                    self.granted,
                    self.sent_frames
                ),
            );
        }
        self.check_delivery("at quiescence");
    }

    /// Everything the bridge consumed from the local side has been read by the peer application, in order
    /// (the peer has just read until nothing more was readable; nothing was reset or aborted).
    fn check_delivery(&mut self, when: &str) {
        if self.closed || self.aborted || !self.p_alive || matches!(self.finished, Some(Res::Err(_) | Res::Panic(_))) {
            return;
        }
        let consumed = self.sh.lock().expect("sh").consumed.clone();
        if self.peer_got != consumed {
            let at = self.peer_got.iter().zip(&consumed).position(|(a, b)| a != b).unwrap_or(self.peer_got.len().min(consumed.len()));
            self.fail(
                "burst-not-delivered",
                format!(
                    "{when}: the peer application kept reading and has {} byte(s), the bridge has consumed {} from the local side; first difference at offset {at} \
(peer {} / consumed {})",
                    self.peer_got.len(),
                    consumed.len(),
                    show(&self.peer_got[at.min(self.peer_got.len())..]),
                    show(&consumed[at.min(consumed.len())..])
                ),
            );
        }
    }

    fn poll_while_woken(&mut self) {
        for _ in 0..64 {
            if self.finished.is_some() || !self.flag.is_set() {
                return;
            }
            self.poll_bridge();
        }
        if self.finished.is_none() {
            self.fail("busy-loop", "the bridge keeps waking itself without completing (64 consecutive self-wakes)".into());
        }
    }

    /// Everything becomes co-operative and both ends finish; the bridge is polled only when woken.
    fn completion(&mut self) {
        if self.finished.is_some() {
            return;
        }
        self.trace.push("-- completion phase --".into());
        self.coop();
        self.poll_while_woken();
        if self.finished.is_none() && self.p_alive && !self.p_shut && !self.aborted {
            self.p_shut = true;
            self.peer(&["shutdown", "0"]);
            self.poll_while_woken();
        }
        for _ in 0..64 {
            if self.finished.is_some() || !self.p_alive || self.aborted {
                break;
            }
            let r = self.peer(&["read", "0", &self.final_read.to_string()]);
            self.poll_while_woken();
            if !r.starts_with("data") {
                break;
            }
        }
        if self.finished.is_none() && self.blocked_w == Some(Block::MuxCredit) && (!self.p_alive || self.aborted) && !self.closed && self.blocked_r.is_none() {
            // The peer application shut its stream down and dropped it while frames of the bridge were
            // still unread: the peer endpoint then sends neither `Acknowledge` nor `Reset`
            // (task.rs close_flow_local: no `Reset` once `Finish` was sent), so the credit the
            // bridge is (correctly, with its waker registered) waiting for never comes. That is the
            // multiplexor's behaviour, not the bridge's; counted, not judged here. The same when the
            // connection task was dropped without teardown (`abort`): nothing sets `finish_sent`.
            self.dead_peer = true;
            self.trace.push("the bridge is blocked on credit that the vanished peer will never grant (no Reset after Finish + drop)".into());
        } else if self.finished.is_none() {
            let line = self.lines.last().cloned().unwrap_or_default();
            self.fail(
                "hang",
                format!("both ends have finished and every operation would succeed, the bridge task was polled whenever it was woken, yet it is still Pending and not woken (last poll: {line})"),
            );
        }
        self.final_delivery();
    }

    /// End of a case with a `drain` step that finished cleanly: the peer application reads the rest; it must
    /// have everything the local source had to give (minus what the completion phase threw away), in order,
    /// and the bridge's count for this direction must be that number.
    fn final_delivery(&mut self) {
        let Some(Res::Ok(_, w)) = self.finished.clone() else { return };
        if !self.drained || self.closed || self.aborted || !self.p_alive {
            return;
        }
        let n = self.final_read.to_string();
        for _ in 0..4096 {
            if !self.peer(&["read", "0", &n]).starts_with("data") {
                break;
            }
        }
        self.check_delivery("after a clean finish");
        let dropped = self.sh.lock().expect("sh").dropped;
        if w + dropped != self.src_total {
            let src = self.src_total;
            self.fail(
                "burst-not-delivered",
                format!("the bridge finished cleanly and reports {w} byte(s) forwarded to the stream, but the local source had {src} byte(s) before its end-of-file ({dropped} discarded by the harness's completion phase)"),
            );
        }
    }
}

struct Outcome {
    reqs: Vec<String>,
    lines: Vec<String>,
    trace: Vec<String>,
    fails: Vec<(String, String)>,
    moved: bool,
    finished: Option<Res>,
    polls: u32,
    dead_peer: bool,
}

fn run_case(case: &Case, mode: &str) -> Outcome {
    let mut w = World::new(case, mode);
    for s in &case.steps {
        w.step(s);
    }
    w.completion();
    let out = Outcome { reqs: w.reqs.clone(), lines: w.lines.clone(), trace: w.trace.clone(), fails: w.fails.clone(), moved: w.moved, finished: w.finished.clone(), polls: w.polls, dead_peer: w.dead_peer };
    // drop the bridge before the endpoints
    w.bridge = None;
    out
}

fn run_caught(case: &Case, mode: &str) -> Outcome {
    match catch(|| run_case(case, mode)) {
        Ok(o) => o,
        Err(p) => Outcome { reqs: vec![], lines: vec![], trace: vec![format!("harness panic: {p}")], fails: vec![("harness-panic".into(), format!("panic outside a bridge poll: {p}"))], moved: false, finished: None, polls: 0, dead_peer: false },
    }
}

/// First difference between model and implementation: (poll index, model line, impl line).
fn model_diff(drv: &mut Driver, o: &Outcome) -> Option<(usize, String, String)> {
    if o.reqs.is_empty() {
        return None;
    }
    let answers = drv.batch(&o.reqs);
    let mut k = 0;
    for (req, ans) in o.reqs.iter().zip(answers) {
        if req == "poll" {
            if ans != o.lines[k] {
                return Some((k, ans, o.lines[k].clone()));
            }
            k += 1;
        } else if ans != "ok" {
            return Some((k, format!("`{req}` -> {ans}"), "ok".into()));
        }
    }
    None
}

// ---------------------------------------------------------------------------------------------
// Generators
// ---------------------------------------------------------------------------------------------

struct Bytegen {
    next: u8,
    base: u8,
}
impl Bytegen {
    fn take(&mut self, n: usize) -> Vec<u8> {
        (0..n)
            .map(|_| {
                let b = self.base + self.next % 0x70;
                self.next = self.next.wrapping_add(1);
                b
            })
            .collect()
    }
}

fn random_case(r: &mut Rng, long: bool) -> Case {
    let mut lb = Bytegen { next: 0, base: 0x80 };
    let mut pb = Bytegen { next: 0, base: 0x01 };
    let n_fill = r.range(0, if long { 14 } else { 6 }) as usize;
    let n_write = r.range(0, if long { 14 } else { 6 }) as usize;
    let err_bias = r.below(4) == 0;
    let mut code = 10;
    let mut err = |r: &mut Rng| {
        code += 1;
        let _ = r;
        code
    };
    let mut lfill = vec![];
    for _ in 0..n_fill {
        lfill.push(match r.below(if err_bias { 9 } else { 8 }) {
            0..=3 => Ans::Ready(lb.take(r.range(1, 4) as usize)),
            4 => Ans::Pending(false),
            5 | 6 => Ans::Pending(true),
            7 => Ans::Ready(vec![]),
            _ => Ans::Err(err(r)),
        });
    }
    let mut lwrite = vec![];
    for _ in 0..n_write {
        lwrite.push(match r.below(if err_bias { 10 } else { 9 }) {
            0..=2 => Ans::Ready(r.range(1, 3) as usize),
            3 | 4 => Ans::Ready(64),
            5 => Ans::Pending(false),
            6 | 7 => Ans::Pending(true),
            8 => {
                if r.below(3) == 0 { Ans::Ready(0) } else { Ans::Ready(1) }
            }
            _ => Ans::Err(err(r)),
        });
    }
    let unit = |r: &mut Rng, n: u64, code: &mut dyn FnMut(&mut Rng) -> u32| -> Vec<Ans<()>> {
        (0..r.range(0, n))
            .map(|_| match r.below(if err_bias { 6 } else { 5 }) {
                0 | 1 => Ans::Ready(()),
                2 => Ans::Pending(false),
                3 | 4 => Ans::Pending(true),
                _ => Ans::Err(code(r)),
            })
            .collect()
    };
    let lflush = unit(r, 3, &mut err);
    let lshut = unit(r, 3, &mut err);
    let n_steps = r.range(2, if long { 40 } else { 12 }) as usize;
    let mut steps = vec![];
    for _ in 0..n_steps {
        steps.push(match r.below(20) {
            0..=7 => Step::Poll,
            8..=10 => Step::LWake,
            11..=14 => Step::PeerWrite(pb.take(r.range(1, 4) as usize)),
            15 | 16 => Step::PeerRead(r.range(1, 8) as usize),
            17 => Step::PeerFin,
            18 => {
                if r.below(3) == 0 { Step::PeerRst } else { Step::PeerRead(64) }
            }
            _ => {
                if r.below(6) == 0 { Step::Abort } else if r.below(6) == 0 { Step::Coop } else { Step::Poll }
            }
        });
    }
    Case {
        credit: r.range(1, 3) as u32,
        rwnd_b: r.range(1, 4) as u32,
        thr_p: r.range(1, 2) as u32,
        thr_b: r.range(1, 2) as u32,
        lfill,
        lwrite,
        lwrite_rep: false,
        lflush,
        lshut,
        steps,
    }
}

/// All sequences over `alpha` of length `0..=max`.
fn seqs<T: Clone>(alpha: &[T], max: usize) -> Vec<Vec<T>> {
    let mut out = vec![vec![]];
    let mut layer: Vec<Vec<T>> = vec![vec![]];
    for _ in 0..max {
        let mut next = vec![];
        for s in &layer {
            for a in alpha {
                let mut t = s.clone();
                t.push(a.clone());
                next.push(t);
            }
        }
        out.extend(next.iter().cloned());
        layer = next;
    }
    out
}

#[derive(Clone, Debug, PartialEq, Eq)]
enum MuxEv {
    Write1,
    Write2,
    Fin,
    Rst,
    Read,
    Abort,
}

/// The canonical schedule of the exhaustive families: poll; then for every mux-side event: the
/// event, a poll, the local wake-ups, a poll.
fn schedule(evs: &[MuxEv]) -> Vec<Step> {
    let mut pb = Bytegen { next: 0, base: 0x01 };
    let mut steps = vec![Step::Poll];
    for e in evs {
        steps.push(match e {
            MuxEv::Write1 => Step::PeerWrite(pb.take(1)),
            MuxEv::Write2 => Step::PeerWrite(pb.take(2)),
            MuxEv::Fin => Step::PeerFin,
            MuxEv::Rst => Step::PeerRst,
            MuxEv::Read => Step::PeerRead(64),
            MuxEv::Abort => Step::Abort,
        });
        steps.push(Step::Poll);
        steps.push(Step::LWake);
        steps.push(Step::Poll);
    }
    if evs.is_empty() {
        steps.push(Step::LWake);
        steps.push(Step::Poll);
    }
    steps
}

/// Give the `Ready(data)` answers of a fill script distinct bytes (order is then checkable).
fn number_fill(script: &[Ans<usize>]) -> Vec<Ans<Vec<u8>>> {
    let mut lb = Bytegen { next: 0, base: 0x80 };
    script
        .iter()
        .map(|a| match a {
            Ans::Ready(0) => Ans::Ready(vec![]),
            Ans::Ready(n) => Ans::Ready(lb.take(*n)),
            Ans::Pending(b) => Ans::Pending(*b),
            Ans::Err(c) => Ans::Err(*c),
        })
        .collect()
}

type LocalScripts = (Vec<Ans<usize>>, Vec<Ans<usize>>, Vec<Ans<()>>, Vec<Ans<()>>);

fn fill_alpha() -> [Ans<usize>; 6] {
    [Ans::Ready(1usize), Ans::Ready(2), Ans::Ready(0), Ans::Pending(false), Ans::Pending(true), Ans::Err(7)]
}
fn write_alpha() -> [Ans<usize>; 6] {
    [Ans::Ready(1usize), Ans::Ready(64), Ans::Ready(0), Ans::Pending(false), Ans::Pending(true), Ans::Err(8)]
}

/// Every combination of local scripts with at most `kl` answers in total over the four operation kinds.
fn local_combinations(kl: usize) -> Vec<LocalScripts> {
    let unit_alpha = [Ans::Ready(()), Ans::Pending(false), Ans::Pending(true), Ans::Err(9)];
    let fills = seqs(&fill_alpha(), kl);
    let writes = seqs(&write_alpha(), kl);
    let units = seqs(&unit_alpha, kl);
    let mut out = vec![];
    for f in &fills {
        for w in &writes {
            if f.len() + w.len() > kl {
                continue;
            }
            for l in &units {
                if f.len() + w.len() + l.len() > kl {
                    continue;
                }
                for s in &units {
                    if f.len() + w.len() + l.len() + s.len() <= kl {
                        out.push((f.clone(), w.clone(), l.clone(), s.clone()));
                    }
                }
            }
        }
    }
    out
}

/// Local `poll_write` behaviours of the bulk-in cases and what the local → mux direction does meanwhile.
const BULK_IN_WRITES: usize = 7;
const BULK_IN_SHAPES: usize = 3;

/// Bulk-in: the mux → local direction under back-pressure. The local side's `poll_write` follows pattern
/// `wk` for `rounds` rounds (afterwards it is co-operative); before every bridge poll the peer writes a
/// burst of `2 * rwnd` three-byte frames (as many as its credit allows get through), so the bridge comes
/// back to a queue that is as full as a conforming peer can make it.
fn bulk_in_case(rwnd: u32, thr: u32, wk: usize, shape: usize, rounds: usize) -> Case {
    let mut pb = Bytegen { next: 0, base: 0x01 };
    let mut lb = Bytegen { next: 0, base: 0x80 };
    let t = thr as usize;
    let round: Vec<Ans<usize>> = match wk {
        // stalled, woken later / stalled, polled again without a wake-up
        0 => vec![Ans::Pending(true)],
        1 => vec![Ans::Pending(false)],
        // slow: one frame / one byte per round
        2 => vec![Ans::Ready(64), Ans::Pending(true)],
        3 => vec![Ans::Ready(1), Ans::Pending(true)],
        // one frame short of a batch, exactly a batch, one frame more, then stalled
        4 => std::iter::repeat_n(Ans::Ready(64), t.saturating_sub(1)).chain([Ans::Pending(true)]).collect(),
        5 => std::iter::repeat_n(Ans::Ready(64), t).chain([Ans::Pending(true)]).collect(),
        _ => std::iter::repeat_n(Ans::Ready(64), t + 1).chain([Ans::Pending(true)]).collect(),
    };
    let lwrite: Vec<Ans<usize>> = std::iter::repeat_n(round, rounds).flatten().collect();
    let lfill: Vec<Ans<Vec<u8>>> = match shape {
        // the other direction: idle throughout / ends at the second poll (Finish goes out early) / has traffic of its own
        0 => vec![Ans::Pending(false); 2 * rounds + 8],
        1 => vec![Ans::Pending(false)],
        _ => (0..2 * rounds + 8).map(|k| if k % 3 == 1 { Ans::Ready(lb.take(2)) } else { Ans::Pending(k % 3 == 2) }).collect(),
    };
    let burst = |steps: &mut Vec<Step>, pb: &mut Bytegen| {
        for _ in 0..2 * rwnd {
            steps.push(Step::PeerWrite(pb.take(3)));
        }
    };
    let mut steps = vec![Step::Poll];
    burst(&mut steps, &mut pb);
    steps.push(Step::Poll);
    for k in 0..rounds + 2 {
        burst(&mut steps, &mut pb);
        steps.push(Step::LWake);
        steps.push(Step::Poll);
        if shape == 2 && k % 2 == 1 {
            steps.push(Step::PeerRead(64));
        }
    }
    // (the threshold in force on `B`'s stream is min(thr, B's window, P's window): P's window must not cap it)
    Case { credit: rwnd.max(2), rwnd_b: rwnd, thr_p: 1, thr_b: thr, lfill, lwrite, lwrite_rep: false, lflush: vec![], lshut: vec![], steps }
}

const MIB: usize = 1 << 20;

/// `total` bytes of one continuing pattern run (`k0`, `k0 + 1`, … mod 251) cut into pieces of the given sizes
/// (the size list is cycled): every contiguous stretch of the source is again a pattern run, so whatever the
/// bridge coalesces into one frame is written as one `z` token.
fn pattern_pieces(total: usize, k0: u8, mut size: impl FnMut() -> usize) -> Vec<Ans<Vec<u8>>> {
    let mut out = vec![];
    let mut off = 0;
    while off < total {
        let n = size().clamp(1, total - off);
        out.push(Ans::Ready(pattern(n, ((usize::from(k0) + off) % 251) as u8)));
        off += n;
    }
    out
}

/// Huge burst: the local source has 4–10 MiB readable at once — every `poll_fill_buf` is `Ready` with a piece
/// of 8 KiB … 1 MiB until the data is exhausted; then end-of-file, or `Pending` with a wake-up and a last
/// small piece, or `Pending` for good (the completion phase ends the source), or `Pending` with a wake-up
/// and a second burst of 4–5 MiB. The local sink accepts
/// everything, the peer keeps reading and acknowledging (window 1–8, acknowledgement threshold ≤ window, so
/// credit is never the limit for long), the run is driven to quiescence by a `drain` step. Variants: the
/// burst is there at the first poll / arrives at a bridge that has already forwarded a small message and is
/// parked / the peer has sent a little before.
fn huge_case(seed: u64, k: usize) -> Case {
    let mut r = Rng::new(seed).fork(0x4855_4745 + k as u64);
    let total = match k % 6 {
        0 => 6 * MIB,
        1 => 4 * MIB,
        2 => 4 * MIB + 1,
        3 => 10 * MIB,
        _ => r.range(4 * MIB as u64 + 2, 10 * MIB as u64) as usize,
    };
    const SIZES: [usize; 6] = [8 << 10, 16 << 10, 32 << 10, 64 << 10, 256 << 10, 1 << 20];
    let k0 = r.below(251) as u8;
    let fixed = match k {
        0 => 64 << 10,
        1 => 1 << 20,
        2 => 8 << 10,
        _ => *r.pick(&SIZES),
    };
    let mode = if k < 3 { 0 } else { r.below(3) };
    let mut r2 = r.fork(7);
    let mut pieces = pattern_pieces(total, k0, || match mode {
        0 => fixed,
        1 => *r2.pick(&SIZES),
        _ => r2.range(8 << 10, 1 << 20) as usize,
    });
    let (variant, tail) = if k < 3 { (k as u64, 0) } else { (r.below(3), r.below(4)) };
    let mut lfill = vec![];
    let mut steps = vec![];
    match variant {
        0 => {
            if r.chance(1, 2) {
                steps.push(Step::Poll);
            }
        }
        1 => {
            // a bridge that has forwarded a small message and is parked on the local side
            lfill.push(Ans::Ready(vec![0xfd, 0xfe, 0xff]));
            lfill.push(Ans::Pending(true));
            steps.push(Step::Poll);
        }
        _ => {
            steps.push(Step::PeerWrite(vec![1, 2, 3]));
            steps.push(Step::Poll);
        }
    }
    lfill.append(&mut pieces);
    match tail {
        0 => {}
        1 => {
            lfill.push(Ans::Pending(true));
            lfill.push(Ans::Ready(pattern(2048, ((usize::from(k0) + total) % 251) as u8)));
        }
        2 => lfill.push(Ans::Pending(false)),
        _ => {
            // a second burst once the first has gone out
            lfill.push(Ans::Pending(true));
            let n = r.range(4 * MIB as u64, 5 * MIB as u64) as usize;
            lfill.append(&mut pattern_pieces(n, ((usize::from(k0) + total) % 251) as u8, || 256 << 10));
        }
    }
    steps.push(Step::Drain);
    let credit = r.range(1, 8) as u32;
    let rwnd_b = r.range(2, 8) as u32;
    Case {
        credit,
        rwnd_b,
        thr_p: r.range(1, u64::from(credit)) as u32,
        thr_b: r.range(1, u64::from(rwnd_b)) as u32,
        lfill,
        lwrite: vec![],
        lwrite_rep: false,
        lflush: vec![],
        lshut: vec![],
        steps,
    }
}

/// The same shape at a scale the model can follow (these cases ARE compared with the model): 4–40 pieces of
/// 1–4 bytes readable at once, now and then a `Pending` among them, driven by `drain` steps.
fn mini_burst_case(seed: u64, k: usize) -> Case {
    let mut r = Rng::new(seed).fork(0x4d49_4e49 + k as u64);
    let mut lb = Bytegen { next: 0, base: 0x80 };
    let mut pb = Bytegen { next: 0, base: 0x01 };
    let mut lfill = vec![];
    for _ in 0..r.range(4, 40) {
        match r.below(24) {
            0 => lfill.push(Ans::Pending(false)),
            1..=3 => lfill.push(Ans::Pending(true)),
            _ => lfill.push(Ans::Ready(lb.take(r.range(1, 4) as usize))),
        }
    }
    if r.chance(1, 3) {
        lfill.push(Ans::Ready(vec![]));
    }
    let lwrite = if r.chance(1, 3) { vec![Ans::Ready(1), Ans::Pending(true), Ans::Ready(64)] } else { vec![] };
    let mut steps = vec![];
    for _ in 0..r.range(1, 3) {
        match r.below(5) {
            0 => steps.push(Step::Poll),
            1 => steps.push(Step::PeerWrite(pb.take(r.range(1, 3) as usize))),
            2 => {
                steps.push(Step::PeerWrite(pb.take(2)));
                steps.push(Step::Poll);
            }
            _ => {}
        }
        steps.push(Step::Drain);
    }
    if r.chance(1, 4) {
        steps.push(Step::PeerFin);
        steps.push(Step::Drain);
    }
    let credit = r.range(1, 3) as u32;
    Case { credit, rwnd_b: r.range(1, 4) as u32, thr_p: r.range(1, u64::from(credit)) as u32, thr_b: 1, lfill, lwrite, lwrite_rep: false, lflush: vec![], lshut: vec![], steps }
}

const DEEP_FILL_EVS: usize = 5;
const DEEP_WRITE_EVS: usize = 4;

/// The case list of a run, generated on demand (index → case) so that workers share nothing.
struct Plan {
    corpus: Vec<(String, Case)>,
    /// bulk family: a lot of data readable at once on the local side (chunk sizes, what follows them)
    bulk: Vec<(Vec<usize>, u8)>,
    /// bulk-in: (receive window, acknowledgement threshold) of the bridge's endpoint, rounds of back-pressure
    bulk_in: Vec<(u32, u32, usize)>,
    /// huge-burst cases (monitor-only) and their small-scale, model-compared analogues
    n_huge: usize,
    n_mini: usize,
    /// bounded-exhaustive: locals × evs × credit {1, 2}
    locals: Vec<LocalScripts>,
    evs: Vec<Vec<MuxEv>>,
    /// single-script families: every fill script / write script / mux-side event list up to `kd`
    deep_fills: Vec<Vec<Ans<usize>>>,
    deep_writes: Vec<Vec<Ans<usize>>>,
    deep_evs: Vec<Vec<MuxEv>>,
    n_short: usize,
    n_long: usize,
    seed: u64,
}

impl Plan {
    #[allow(clippy::too_many_arguments)]
    fn new(corpus: Vec<(String, Case)>, kl: usize, km: usize, kd: usize, n_short: usize, n_long: usize, seed: u64, bulk_all: bool, n_huge: usize, n_mini: usize) -> Self {
        // One poll finds all of this readable: the coalescing loop takes chunk after chunk for ONE unit of
        // credit, so whatever the sizes exactly one Push may leave (64 KiB = 65536 and the 5-byte frame
        // header are the boundaries a size limit on the message would sit at).
        let mut bulk: Vec<(Vec<usize>, u8)> = vec![];
        if bulk_all {
            for s in seqs(&[1usize, 30_000, 65_531, 70_000], 3).into_iter().filter(|s| s.len() >= 2) {
                for tail in 0..3 {
                    bulk.push((s.clone(), tail));
                }
            }
            bulk.push((vec![200_000, 5], 0));
            bulk.push((vec![100_000, 100_000], 1));
        } else {
            let scripts: [&[usize]; 8] = [&[70_000, 1], &[40_000, 40_000], &[200_000, 5], &[65_531, 1], &[65_532, 65_532], &[30_000, 30_000, 30_000], &[70_000, 70_000, 70_000], &[1, 70_000, 1]];
            for (i, s) in scripts.iter().enumerate() {
                bulk.push((s.to_vec(), (i % 3) as u8));
                bulk.push((s.to_vec(), ((i + 1) % 3) as u8));
            }
        }
        // window / threshold pairs: threshold 1, 2, half, one less than the window, the window itself
        let mut bulk_in: Vec<(u32, u32, usize)> = vec![];
        let rwnds: &[u32] = if bulk_all { &[1, 2, 3, 4, 5, 8, 16, 32] } else { &[2, 3, 4, 8] };
        for &rwnd in rwnds {
            let mut thrs = vec![1, 2, rwnd / 2, rwnd - 1, rwnd];
            thrs.retain(|t| *t >= 1 && *t <= rwnd);
            thrs.sort_unstable();
            thrs.dedup();
            for thr in thrs {
                bulk_in.push((rwnd, thr, 3));
                if bulk_all {
                    bulk_in.push((rwnd, thr, 7));
                }
            }
        }
        let ev_alpha = [MuxEv::Write1, MuxEv::Write2, MuxEv::Fin, MuxEv::Rst, MuxEv::Read, MuxEv::Abort];
        let deep_ev_alpha = [MuxEv::Write2, MuxEv::Fin, MuxEv::Rst, MuxEv::Read];
        Self {
            corpus,
            bulk,
            bulk_in,
            n_huge,
            n_mini,
            locals: local_combinations(kl),
            evs: seqs(&ev_alpha, km),
            deep_fills: seqs(&fill_alpha(), kd),
            deep_writes: seqs(&write_alpha(), kd),
            deep_evs: seqs(&deep_ev_alpha, kd),
            n_short,
            n_long,
            seed,
        }
    }
    fn n_exhaustive(&self) -> usize {
        self.locals.len() * self.evs.len() * 2
    }
    fn n_deep(&self) -> usize {
        self.deep_fills.len() * DEEP_FILL_EVS * 3 + self.deep_writes.len() * DEEP_WRITE_EVS * 3 + self.deep_evs.len()
    }
    fn n_bulk_out(&self) -> usize {
        self.bulk.len() * 2
    }
    fn n_bulk_in(&self) -> usize {
        self.bulk_in.len() * BULK_IN_WRITES * BULK_IN_SHAPES
    }
    fn n_bulk(&self) -> usize {
        self.n_bulk_out() + self.n_bulk_in()
    }
    fn len(&self) -> usize {
        self.corpus.len() + self.n_bulk() + self.n_huge + self.n_mini + self.n_exhaustive() + self.n_deep() + self.n_short + self.n_long
    }
    /// index range of the huge-burst cases
    fn huge_range(&self) -> std::ops::Range<usize> {
        let lo = self.corpus.len() + self.n_bulk();
        lo..lo + self.n_huge
    }
    fn get(&self, mut i: usize) -> (String, Case) {
        if i < self.corpus.len() {
            return self.corpus[i].clone();
        }
        i -= self.corpus.len();
        let base = |credit: u32, rwnd_b: u32| Case { credit, rwnd_b, thr_p: 1, thr_b: 1, lfill: vec![], lwrite: vec![], lwrite_rep: false, lflush: vec![], lshut: vec![], steps: vec![] };
        if i >= self.n_bulk_out() && i < self.n_bulk() {
            let k = i - self.n_bulk_out();
            let (rwnd, thr, rounds) = self.bulk_in[k / (BULK_IN_WRITES * BULK_IN_SHAPES)];
            return ("bulk-in".into(), bulk_in_case(rwnd, thr, k % BULK_IN_WRITES, (k / BULK_IN_WRITES) % BULK_IN_SHAPES, rounds));
        }
        if i < self.n_bulk_out() {
            // credit 1 and 2; after the chunks: end-of-file / Pending with a later wake-up / a read error
            let (sizes, tail) = &self.bulk[i / 2];
            let mut c = base(1 + (i % 2) as u32, 2);
            c.lfill = sizes.iter().enumerate().map(|(k, n)| Ans::Ready(pattern(*n, ((k * 83 + 7) % 251) as u8))).collect();
            match tail {
                1 => c.lfill.push(Ans::Pending(true)),
                2 => c.lfill.push(Ans::Err(7)),
                _ => {}
            }
            c.steps = schedule(&[MuxEv::Read, MuxEv::Read]);
            return ("bulk".into(), c);
        }
        i -= self.n_bulk();
        if i < self.n_huge {
            return ("huge-burst".into(), huge_case(self.seed, i));
        }
        i -= self.n_huge;
        if i < self.n_mini {
            return ("mini-burst".into(), mini_burst_case(self.seed, i));
        }
        i -= self.n_mini;
        if i < self.n_exhaustive() {
            let credit = 1 + (i % 2) as u32;
            let e = &self.evs[(i / 2) % self.evs.len()];
            let (f, w, l, s) = &self.locals[i / 2 / self.evs.len()];
            let mut c = base(credit, 2);
            c.lfill = number_fill(f);
            c.lwrite = w.clone();
            c.lflush = l.clone();
            c.lshut = s.clone();
            c.steps = schedule(e);
            return ("exhaustive".into(), c);
        }
        i -= self.n_exhaustive();
        // the local → mux direction: fill scripts against credit starvation and peer reads
        let n_f = self.deep_fills.len() * DEEP_FILL_EVS * 3;
        if i < n_f {
            let evs: [&[MuxEv]; DEEP_FILL_EVS] = [&[], &[MuxEv::Read], &[MuxEv::Read, MuxEv::Read], &[MuxEv::Rst], &[MuxEv::Fin, MuxEv::Read]];
            let flushes: [Vec<Ans<()>>; 3] = [vec![], vec![Ans::Pending(true)], vec![Ans::Err(9)]];
            let mut c = base(1, 3);
            c.lfill = number_fill(&self.deep_fills[i / (DEEP_FILL_EVS * 3)]);
            c.lflush = flushes[i % 3].clone();
            c.steps = schedule(evs[(i / 3) % DEEP_FILL_EVS]);
            return ("deep-fill".into(), c);
        }
        i -= n_f;
        // the mux → local direction: write scripts against peer data
        let n_w = self.deep_writes.len() * DEEP_WRITE_EVS * 3;
        if i < n_w {
            let evs: [&[MuxEv]; DEEP_WRITE_EVS] =
                [&[MuxEv::Write2], &[MuxEv::Write2, MuxEv::Write2, MuxEv::Fin], &[MuxEv::Write2, MuxEv::Fin], &[MuxEv::Write2, MuxEv::Rst]];
            let shuts: [Vec<Ans<()>>; 3] = [vec![], vec![Ans::Pending(true)], vec![Ans::Err(9)]];
            let mut c = base(2, 3);
            c.lfill = vec![Ans::Pending(false)];
            c.lwrite = self.deep_writes[i / (DEEP_WRITE_EVS * 3)].clone();
            c.lshut = shuts[i % 3].clone();
            c.steps = schedule(evs[(i / 3) % DEEP_WRITE_EVS]);
            return ("deep-write".into(), c);
        }
        i -= n_w;
        // mux-side event lists against a fixed mixed local side
        if i < self.deep_evs.len() {
            let mut c = base(1, 3);
            c.lfill = number_fill(&[Ans::Ready(2), Ans::Pending(true), Ans::Ready(1), Ans::Pending(true), Ans::Ready(1), Ans::Ready(0)]);
            c.lwrite = vec![Ans::Ready(1), Ans::Pending(true), Ans::Ready(64)];
            c.steps = schedule(&self.deep_evs[i]);
            return ("deep-events".into(), c);
        }
        i -= self.deep_evs.len();
        let mut r = Rng::new(self.seed).fork(i as u64 + 1);
        let long = i >= self.n_short;
        (if long { "random-long" } else { "random-short" }.to_string(), random_case(&mut r, long))
    }
}

// ---------------------------------------------------------------------------------------------
// Evaluation, shrinking, reporting
// ---------------------------------------------------------------------------------------------

/// Adjacent `Ready` pieces of a fill script merged and cut again into pieces of `size` bytes.
fn rechunk(lfill: &[Ans<Vec<u8>>], size: usize) -> Vec<Ans<Vec<u8>>> {
    let mut out = vec![];
    let mut run: Vec<u8> = vec![];
    let flush = |run: &mut Vec<u8>, out: &mut Vec<Ans<Vec<u8>>>| {
        out.extend(run.chunks(size).map(|c| Ans::Ready(c.to_vec())));
        run.clear();
    };
    for a in lfill {
        match a {
            Ans::Ready(d) if !d.is_empty() => run.extend_from_slice(d),
            other => {
                flush(&mut run, &mut out);
                out.push(other.clone());
            }
        }
    }
    flush(&mut run, &mut out);
    out
}

fn shrink_case(case: &Case, mut fails: impl FnMut(&Case) -> bool) -> Case {
    let mut c = case.clone();
    if c.is_huge() {
        // one run costs a large fraction of a second: coarser pieces (a short case text), fewer steps, no more
        for size in [4 * MIB, MIB] {
            let cand = Case { lfill: rechunk(&c.lfill, size), ..c.clone() };
            if cand.lfill.len() < c.lfill.len() && fails(&cand) {
                c = cand;
                break;
            }
        }
        c.steps = shrink_list(c.steps.clone(), |s| fails(&Case { steps: s.to_vec(), ..c.clone() }));
        return c;
    }
    for _round in 0..3 {
        let before = c.clone();
        let steps = shrink_list(c.steps.clone(), |s| fails(&Case { steps: s.to_vec(), ..c.clone() }));
        c.steps = steps;
        let v = shrink_list(c.lfill.clone(), |s| fails(&Case { lfill: s.to_vec(), ..c.clone() }));
        c.lfill = v;
        let v = shrink_list(c.lwrite.clone(), |s| fails(&Case { lwrite: s.to_vec(), ..c.clone() }));
        c.lwrite = v;
        let v = shrink_list(c.lflush.clone(), |s| fails(&Case { lflush: s.to_vec(), ..c.clone() }));
        c.lflush = v;
        let v = shrink_list(c.lshut.clone(), |s| fails(&Case { lshut: s.to_vec(), ..c.clone() }));
        c.lshut = v;
        if c == before {
            break;
        }
    }
    c
}

#[derive(Default)]
struct Part {
    evaluations: u64,
    nontrivial: Vec<u64>,
    dist: std::collections::BTreeMap<String, u64>,
    compared: u64,
    failures: Vec<(FailKind, String, String, pvh::Value)>,
    samples: Vec<pvh::Value>,
}

impl Part {
    fn count(&mut self, k: &str) {
        *self.dist.entry(k.to_string()).or_insert(0) += 1;
    }
    fn fail(&mut self, kind: FailKind, key: &str, desc: &str, replay: pvh::Value) {
        if self.failures.len() < 20 && !self.failures.iter().any(|f| f.1 == key) {
            self.failures.push((kind, key.to_string(), desc.to_string(), replay));
        }
    }
}

/// Compare precomputed model answers with the implementation's lines.
fn diff_answers(o: &Outcome, answers: &[String]) -> Option<(usize, String, String)> {
    let mut k = 0;
    for (req, ans) in o.reqs.iter().zip(answers) {
        if req == "poll" {
            if *ans != o.lines[k] {
                return Some((k, ans.clone(), o.lines[k].clone()));
            }
            k += 1;
        } else if ans != "ok" {
            return Some((k, format!("`{req}` -> {ans}"), "ok".into()));
        }
    }
    None
}

/// Run a group of cases, ask the model about all of them in one batch, judge each.
fn evaluate_group(group: &[(String, Case)], mode: &str, part: &mut Part, drv: &mut Option<Driver>, focus: Focus) {
    let outs: Vec<Outcome> = group.iter().map(|(_, c)| run_caught(c, mode)).collect();
    // (huge cases are judged by the monitors only)
    let huge: Vec<bool> = group.iter().map(|(_, c)| c.is_huge()).collect();
    let answers: Option<Vec<String>> = drv.as_mut().map(|d| {
        let all: Vec<String> = outs.iter().zip(&huge).filter(|(_, h)| !**h).flat_map(|(o, _)| o.reqs.iter().cloned()).collect();
        d.batch(&all)
    });
    let mut at = 0;
    for (((origin, case), o), h) in group.iter().zip(outs).zip(huge) {
        let pre = answers.as_ref().filter(|_| !h).map(|a| {
            let sl = &a[at..at + o.reqs.len()];
            at += o.reqs.len();
            diff_answers(&o, sl)
        });
        evaluate(case, origin, mode, part, drv, o, pre, focus);
        if part.failures.len() >= 8 {
            break;
        }
    }
}

/// The monitors that speak about credit (C03's share of the bridge).
const CREDIT_KEYS: [&str; 4] = ["credit-overrun", "credit-per-frame", "ack-before-consume", "peer-reset-for-overrun"];

/// The monitors that speak about progress (C04's share of the bridge: the forwarding loop is the library's own
/// writer on a stream whose reader keeps reading): parked with work to do and nobody to wake it, a wake-up
/// that does not arrive, bytes of the burst that never reach the reading peer.
const STALL_KEYS: [&str; 8] =
    ["hang", "pending-without-waker", "read-stalled", "lost-wakeup-read", "lost-wakeup-credit", "mux-waker-missing", "no-completion", "burst-not-delivered"];
/// … all reported under this key when the focus is C04
const STALL_KEY: &str = "bridge-stalled";

/// The monitors that speak about byte integrity (C02's share of the bridge: `into_copy_bidirectional` is the
/// library's own reader of a stream through `poll_fill_buf` / `consume` and its own writer of Push frames:
/// what it hands to the local side must be, at every moment, a prefix of what the peer wrote, each byte once
/// and in order, and what reaches the peer must be what the local side produced).
const INTEGRITY_KEYS: [&str; 3] = ["relay-in", "relay-out", "consume-order"];

#[derive(Clone, Copy, Debug, PartialEq, Eq)]
enum Focus {
    C13,
    C02,
    C03,
    C04,
}

impl Focus {
    /// The key a monitor's failure is reported under by this run (`None`: not this property's business).
    fn key(self, k: &str) -> Option<String> {
        match self {
            Focus::C13 => Some(k.to_string()),
            Focus::C02 => INTEGRITY_KEYS.contains(&k).then(|| format!("bridge:{k}")),
            Focus::C03 => CREDIT_KEYS.contains(&k).then(|| k.to_string()),
            Focus::C04 => STALL_KEYS.contains(&k).then(|| STALL_KEY.to_string()),
        }
    }
    /// The order in which a case's failures are looked at (C04 reports one key: the most telling monitor first).
    fn order(self, mut keys: Vec<&String>) -> Vec<&String> {
        if self == Focus::C04 {
            keys.sort_by_key(|k| STALL_KEYS.iter().position(|s| s == k).unwrap_or(STALL_KEYS.len()));
        }
        keys
    }
    fn desc(self, k: &str, d: &str) -> String {
        if self == Focus::C04 { format!("[{k}] {d}") } else { d.to_string() }
    }
}

#[allow(clippy::too_many_arguments)]
fn evaluate(case: &Case, origin: &str, mode: &str, part: &mut Part, drv: &mut Option<Driver>, o: Outcome, pre: Option<Option<(usize, String, String)>>, focus: Focus) {
    let text = case.to_text();
    part.evaluations += 1;
    // non-trivial: at least one byte was relayed, or a direction was closed / failed beyond the first fill
    let nontrivial = o.moved || o.polls >= 2;
    if nontrivial {
        part.nontrivial.push(fnv(text.as_bytes()));
    }
    part.count(&format!("case/{origin}"));
    part.count(&format!("polls/{}", o.polls.min(9)));
    part.count(&format!("final/{}", match &o.finished { Some(Res::Ok(..)) => "ok".to_string(), Some(Res::Err(e)) => format!("err-{}", e.split(':').next().unwrap_or("?")), Some(Res::Panic(_)) => "panic".into(), _ if o.dead_peer => "blocked-on-credit-of-vanished-peer".into(), _ => "pending".into() }));
    for l in &o.lines {
        for c in l.rsplit("calls=").next().unwrap_or("").split(',') {
            let mut it = c.split(':');
            let (a, b) = (it.next().unwrap_or(""), it.next().unwrap_or(""));
            if a == "W" {
                part.count(&format!("call/W:{}", it.next().unwrap_or("")));
            } else if !a.is_empty() && a != "-" && a != "C" {
                part.count(&format!("call/{a}:{b}"));
            }
        }
        if let Some(mw) = l.split(" mw=").nth(1).and_then(|s| s.split(' ').next()) {
            part.count(&format!("mux-wakers-held/{mw}"));
        }
    }
    if part.samples.len() < 4 && o.moved && o.polls >= 3 {
        part.samples.push(json!({"case": text, "trace": o.trace.iter().take(30).collect::<Vec<_>>()}));
    }
    for key in focus.order(o.fails.iter().map(|f| &f.0).collect()) {
        let Some(rkey) = focus.key(key) else { continue };
        if part.failures.iter().any(|f| f.1 == rkey) {
            continue;
        }
        let small = shrink_case(case, |c| run_caught(c, mode).fails.iter().any(|f| &f.0 == key));
        let o2 = run_caught(&small, mode);
        let desc = o2.fails.iter().find(|f| &f.0 == key).map_or_else(|| key.clone(), |f| f.1.clone());
        part.fail(FailKind::Impl, &rkey, &focus.desc(key, &desc), json!({"case": small.to_text(), "trace": o2.trace}));
    }
    if case.is_huge() {
        part.count("model/not-compared:huge-case-monitors-only");
    }
    if let (Some(d), Some(pre)) = (drv.as_mut(), pre) {
        part.compared += 1;
        if let Some((k, m, im)) = pre {
            let small = shrink_case(case, |c| {
                let o3 = run_caught(c, mode);
                model_diff(d, &o3).is_some()
            });
            let o2 = run_caught(&small, mode);
            let (k2, m2, im2) = model_diff(d, &o2).unwrap_or((k, m, im));
            let field_of = |a: &str, b: &str| {
                a.split(' ').zip(b.split(' ')).find(|(x, y)| x != y).map_or("?".to_string(), |(x, _)| x.split('=').next().unwrap_or("?").to_string())
            };
            part.fail(
                FailKind::Model,
                &format!("model:{}", field_of(&m2, &im2)),
                &format!("bridge poll #{}: model `{m2}` vs implementation `{im2}`", k2 + 1),
                json!({"case": small.to_text(), "model": m2, "impl": im2, "trace": o2.trace}),
            );
        }
    }
}

fn replay(path: &str, mode: &str, focus: Focus) -> i32 {
    let text = std::fs::read_to_string(path).expect("read replay file");
    let case_text = if path.ends_with(".json") {
        let v: pvh::Value = serde_json::from_str(&text).expect("replay json");
        let rp = if v.get("replay").is_some() { v["replay"].clone() } else { v };
        rp["case"].as_str().expect("replay has a case").to_string()
    } else {
        text
    };
    let Some(case) = Case::parse(&case_text) else {
        println!("cannot parse the case:\n{case_text}");
        return 2;
    };
    println!("{}", case.to_text());
    let o = run_caught(&case, mode);
    for l in &o.trace {
        println!("{l}");
    }
    let fails: Vec<(String, String)> = focus
        .order(o.fails.iter().map(|f| &f.0).collect())
        .into_iter()
        .filter_map(|k| focus.key(k).map(|rk| (rk, focus.desc(k, &o.fails.iter().find(|f| &f.0 == k).expect("key").1))))
        .collect();
    for (k, d) in &fails {
        println!("FAILS {k}: {d}");
    }
    if fails.is_empty() {
        println!("the property's monitors hold on this replay");
    }
    i32::from(!fails.is_empty())
}

fn main() {
    pvh::quiet_panics();
    let args = Args::parse();
    let mode = if args.flag("--pinned") { "pinned" } else { "fixed" };
    // `--focus C03`: the run that C03's check makes (copy_bidirectional.rs is one of the places where credit
    // is taken and Push frames are sent): the bulk family, the small enumerated families and random cases;
    // only the credit monitors are reported (everything else about the bridge is C13's).
    // `--focus C02`: the run that C02's check makes (the forwarding loop reads the stream through
    // `poll_fill_buf` / `consume`, "one frame at a time, keeping the remainder", and relays it to a local side
    // that may take part of a frame and then stall): the bulk-in families, the mini-bursts, the small
    // enumerated families and random cases; only the byte-integrity monitors (`INTEGRITY_KEYS`) are reported.
    // `--focus C04`: the run that C04's check makes (the forwarding loop is the library's own writer on a
    // stream; "every write at the sending end completes and every byte written becomes readable while the
    // receiving application keeps reading" must hold for what it forwards): the huge-burst family, its
    // small-scale analogue, the bulk families, the small enumerated families and random cases; only the
    // progress monitors (`STALL_KEYS`) are reported, all under the key `bridge-stalled`.
    let focus = match args.opt("--focus") {
        None | Some("C13") => Focus::C13,
        Some("C02") => Focus::C02,
        Some("C03") => Focus::C03,
        Some("C04") => Focus::C04,
        Some(other) => panic!("unknown focus {other}"),
    };
    if let Some(p) = &args.replay {
        std::process::exit(replay(p, mode, focus));
    }
    let rule = "one case = local scripts (answers to poll_fill_buf / poll_write / poll_flush / poll_shutdown) x a step list \
(bridge polls, local wake-ups, peer writes / reads / Finish / Reset, connection abort) run on the real CopyBidirectional over a real \
MuxStream of a real endpoint pair (a `drain` step = run to quiescence: the peer reads whatever arrives, the local side fires its wake-ups, the bridge is \
polled only when woken), followed by a co-operative completion phase in which the bridge is polled only when woken; \
non-trivial = at least one byte was relayed or the bridge was polled at least twice; distinct by case text";
    let mut rep = Report::new("bridge", &args, rule);

    let mut corpus: Vec<(String, Case)> = vec![];
    for (name, text) in pvh::corpus_files(args.corpus.as_deref()) {
        match Case::parse(&text) {
            Some(c) => corpus.push((format!("corpus:{name}"), c)),
            // (C03's and C04's corpus directories belong to the mux harness)
            None if focus != Focus::C13 => {}
            None => rep.fail(FailKind::Model, &format!("corpus:{name}"), "corpus file does not parse", json!({"file": name})),
        }
    }
    let (kl, km, kd, n_short, n_long) = match (args.tier, focus == Focus::C13) {
        (Tier::Quick, true) => (2, 1, 3, 1500, 500),
        (Tier::Thorough, true) => (4, 3, 6, 300_000, 100_000),
        (Tier::Quick, false) => (1, 1, 2, 600, 200),
        (Tier::Thorough, false) => (2, 2, 4, 30_000, 10_000),
    };
    // huge bursts (4-10 MiB readable at once; a case costs a good fraction of a second, each runs on its own
    // thread) and their small-scale analogues; not part of C03's run
    let (n_huge, n_mini) = match (args.tier, focus) {
        (_, Focus::C03) => (0, 0),
        (Tier::Quick, Focus::C02) => (0, 400),
        (Tier::Quick, Focus::C13) => (16, 400),
        (Tier::Quick, Focus::C04) => (24, 400),
        (Tier::Thorough, _) => (96, 20_000),
    };
    let n_huge = args.opt("--huge").and_then(|s| s.parse().ok()).unwrap_or(n_huge);
    let (kl, km, kd) = (
        args.opt("--kl").and_then(|s| s.parse().ok()).unwrap_or(kl),
        args.opt("--km").and_then(|s| s.parse().ok()).unwrap_or(km),
        args.opt("--kd").and_then(|s| s.parse().ok()).unwrap_or(kd),
    );
    let plan = Plan::new(corpus, kl, km, kd, n_short, n_long, args.seed, args.tier == Tier::Thorough, n_huge, n_mini);
    let n_bulk = plan.n_bulk();
    let n_enum = plan.n_exhaustive() + plan.n_deep();
    let total = plan.len();
    let threads = std::thread::available_parallelism().map_or(4, std::num::NonZero::get).min(16).min(total.max(1));
    const BLOCK: usize = 64;
    // blocks of case indices, dealt out to the workers in turn; every huge case is a block of its own, so
    // that they are spread over the workers, and these come last, so that a defect which small cases show as
    // well is reported with a small case
    let hr = plan.huge_range();
    let mut blocks: Vec<std::ops::Range<usize>> = vec![];
    for part in [0..hr.start, hr.end..total] {
        let mut lo = part.start;
        while lo < part.end {
            let hi = (lo + BLOCK).min(part.end);
            blocks.push(lo..hi);
            lo = hi;
        }
    }
    blocks.extend(hr.map(|i| i..i + 1));
    let blocks = &blocks;
    let n_blocks = blocks.len();
    let driver = args.driver.clone();
    let plan = &plan;
    let parts: Vec<Part> = std::thread::scope(|s| {
        let hs: Vec<_> = (0..threads)
            .map(|t| {
                let driver = driver.clone();
                s.spawn(move || {
                    let mut part = Part::default();
                    let mut drv = driver.as_deref().map(|p| Driver::spawn(p, &[]).expect("start Lean driver"));
                    let mut b = t;
                    while b < n_blocks {
                        let group: Vec<(String, Case)> = blocks[b].clone().map(|i| plan.get(i)).collect();
                        evaluate_group(&group, mode, &mut part, &mut drv, focus);
                        if part.failures.len() >= 8 {
                            break;
                        }
                        b += threads;
                    }
                    part
                })
            })
            .collect();
        hs.into_iter().map(|h| h.join().expect("worker")).collect()
    });
    for p in parts {
        rep.evaluations += p.evaluations;
        rep.nontrivial.extend(p.nontrivial);
        rep.model_compared += p.compared;
        for (k, v) in p.dist {
            rep.count_n(&k, v);
        }
        for s in p.samples {
            rep.sample(s);
        }
        for (kind, key, desc, replay) in p.failures {
            rep.fail(kind, &key, &desc, replay);
        }
    }
    rep.exhaustive = false;
    rep.notes.push(format!(
        "{n_bulk} bulk cases: {} with two or three chunks of up to 200000 bytes readable at once on the local side, credit 1 and 2; {} bulk-in cases \
(local poll_write stalled / one frame or one byte per round / threshold-1, threshold, threshold+1 frames per round, peer bursts of 2 x window frames before \
every bridge poll, {} window/threshold pairs of the bridge's endpoint, the other direction idle / ended early / busy)",
        plan.n_bulk_out(),
        plan.n_bulk_in(),
        plan.bulk_in.len()
    ));
    rep.notes.push(format!(
        "{n_huge} huge-burst cases: 4-10 MiB readable at once on the local side (every poll_fill_buf Ready with a piece of 8 KiB - 1 MiB until the data is exhausted, then end-of-file / Pending with a wake-up and a last piece / Pending for good / Pending with a wake-up and a second burst of 4-5 MiB), the local sink accepts everything, the peer (window 1-8) keeps reading and acknowledging, driven to quiescence (`drain`: the bridge is polled whenever and only when it is woken); MONITORS ONLY, not compared with the model (the model's byte strings are linked lists; these {n_huge} cases are not in the model-compared count); {n_mini} mini-burst cases of the same shape (4-40 pieces of 1-4 bytes, `drain` steps) which are compared with the model when a driver is given"
    ));
    if focus == Focus::C02 {
        rep.notes.push(format!(
            "focus C02: only the byte-integrity monitors are reported ({}), under the keys `bridge:<monitor>`",
            INTEGRITY_KEYS.join(", ")
        ));
    }
    if focus == Focus::C04 {
        rep.notes.push(format!(
            "focus C04: only the progress monitors are reported ({}), all under the key `{STALL_KEY}`; no model comparison in this run",
            STALL_KEYS.join(", ")
        ));
    }
    rep.notes.push(format!(
        "{n_enum} enumerated cases: every combination of local scripts with at most {kl} answers in total over alphabets of 6/6/4/4 answers x every \
mux-side event list of length <= {km} over 6 events x credit 1,2 (canonical schedule), plus single-script families up to {kd} answers; \
{n_short} short and {n_long} long random cases; model = {mode} code"
    ));
    rep.finish(&args);
    std::process::exit(i32::from(rep.has_failures()));
}
