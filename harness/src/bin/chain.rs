//! C20: the real `cow_bytes::{CowBytes, LongChain}` against a plain `Vec<u8>` run alongside (the
//! independent oracle) and against the Lean model (`drv_chain`, `Penguin.Model.Chain`).
//!
//! Parts:
//! * `exhaustive`: every operation sequence up to a depth bound from every small initial chain
//!   (<= 3 segments of 1..3 bytes, several borrowed/owned patterns), arguments at, inside and one
//!   past every segment boundary. The tree is walked with clones of the real chain.
//! * `random`: long sequences (<= 200 ops) over larger segments, boundary-biased arguments.
//! * `cow`: the `CowBytes` operations themselves, and every accessor / comparison / hash on borrowed
//!   and owned values holding the same bytes.
//! * corpus / `--replay`: recorded sequences.
//!
//! After every operation the harness observes `len()`, `remaining()`, `is_empty()`, `has_remaining()`,
//! `chunk()`, `chunks_vectored()` (0, 1 and 3 slots) and the `as_ref()` segments (or the panic and the
//! value left behind), checks them against the `Vec<u8>` reference, and asks the Lean model for the
//! same step from the same state.
//!
//! The operations are `LongChain`'s own mutators and the consuming methods a caller reaches through
//! `bytes::Buf`: `copy_to_bytes`, `copy_to_slice`, `get_u8`, `get_u16`, `get_u32` (on the unchanged
//! crate the `bytes` defaults over `chunk` / `advance` / `remaining`; an override is where a
//! regression would go). They are part of the random sequences and of a second exhaustive pass
//! (`buf pass`: every sequence over the `Buf` methods and the old operations with a reduced payload
//! alphabet, to a smaller depth).
//!
//! Non-trivial case: an operation sequence in which at least one operation is accepted (in range)
//! while the chain holds bytes before or after it.

use bytes::{Buf, Bytes};
use cow_bytes::{CowBytes, LongChain};
use std::io::IoSlice;
use pvh::{Args, Driver, FailKind, Report, Rng, Tier, Value, catch, hex, hexd, json, shrink_list, unhex};
use std::borrow::Borrow;
use std::collections::{BTreeMap, HashMap, HashSet};
use std::hash::{Hash, Hasher};

// ---------------------------------------------------------------------------------------------
// Text forms shared with the Lean driver, the corpus files and the replay files
// ---------------------------------------------------------------------------------------------

/// How to build one `CowBytes`: borrowed (`Temporary`) or owned (`Static`), and its bytes.
#[derive(Clone, Debug, PartialEq, Eq, Hash)]
struct SegSpec {
    stat: bool,
    bytes: Vec<u8>,
}

fn seg_text(stat: bool, bytes: &[u8]) -> String {
    format!("{}:{}", if stat { 'S' } else { 'T' }, hexd(bytes))
}

fn segs_text<'x>(it: impl Iterator<Item = (bool, &'x [u8])>) -> String {
    let v: Vec<String> = it.map(|(s, b)| seg_text(s, b)).collect();
    if v.is_empty() { "-".into() } else { v.join(",") }
}

fn parse_seg(t: &str) -> Option<SegSpec> {
    let (tag, h) = t.split_once(':')?;
    let stat = match tag {
        "T" => false,
        "S" => true,
        _ => return None,
    };
    Some(SegSpec { stat, bytes: unhex(h)? })
}

fn parse_segs(t: &str) -> Option<Vec<SegSpec>> {
    if t == "-" {
        return Some(vec![]);
    }
    t.split(',').map(parse_seg).collect()
}

#[derive(Clone, Debug, PartialEq, Eq, Hash)]
enum Op {
    Push(SegSpec),
    Insert(usize, SegSpec),
    Pop,
    Remove(usize),
    SplitTo(usize),
    SplitOff(usize),
    Truncate(usize),
    Advance(usize),
    Clear,
    /// `Buf::copy_to_bytes(n)`
    CopyToBytes(usize),
    /// `Buf::copy_to_slice(&mut [_; n])`
    CopyToSlice(usize),
    GetU8,
    GetU16,
    GetU32,
}

const NK: usize = 14;
const KINDS: [&str; NK] =
    ["push", "insert", "pop", "remove", "split_to", "split_off", "truncate", "advance", "clear", "copy_to_bytes", "copy_to_slice", "get_u8", "get_u16", "get_u32"];

/// Largest destination `copy_to_slice` is offered (the destination has to be allocated).
const MAX_SLICE: usize = 1 << 24;

impl Op {
    fn kind(&self) -> usize {
        match self {
            Op::Push(_) => 0,
            Op::Insert(..) => 1,
            Op::Pop => 2,
            Op::Remove(_) => 3,
            Op::SplitTo(_) => 4,
            Op::SplitOff(_) => 5,
            Op::Truncate(_) => 6,
            Op::Advance(_) => 7,
            Op::Clear => 8,
            Op::CopyToBytes(_) => 9,
            Op::CopyToSlice(_) => 10,
            Op::GetU8 => 11,
            Op::GetU16 => 12,
            Op::GetU32 => 13,
        }
    }
    /// The consuming `Buf` methods: the number of bytes asked for.
    fn wanted(&self) -> Option<usize> {
        match self {
            Op::CopyToBytes(n) | Op::CopyToSlice(n) => Some(*n),
            Op::GetU8 => Some(1),
            Op::GetU16 => Some(2),
            Op::GetU32 => Some(4),
            _ => None,
        }
    }
    fn text(&self) -> String {
        match self {
            Op::Push(s) => format!("push {}", seg_text(s.stat, &s.bytes)),
            Op::Insert(i, s) => format!("insert {i} {}", seg_text(s.stat, &s.bytes)),
            Op::Pop => "pop".into(),
            Op::Remove(i) => format!("remove {i}"),
            Op::SplitTo(n) => format!("split_to {n}"),
            Op::SplitOff(n) => format!("split_off {n}"),
            Op::Truncate(n) => format!("truncate {n}"),
            Op::Advance(n) => format!("advance {n}"),
            Op::Clear => "clear".into(),
            Op::CopyToBytes(n) => format!("copy_to_bytes {n}"),
            Op::CopyToSlice(n) => format!("copy_to_slice {n}"),
            Op::GetU8 => "get_u8".into(),
            Op::GetU16 => "get_u16".into(),
            Op::GetU32 => "get_u32".into(),
        }
    }
    fn parse(line: &str) -> Option<Op> {
        let t: Vec<&str> = line.split_whitespace().collect();
        Some(match t.as_slice() {
            ["push", s] => Op::Push(parse_seg(s)?),
            ["insert", i, s] => Op::Insert(i.parse().ok()?, parse_seg(s)?),
            ["pop"] => Op::Pop,
            ["remove", i] => Op::Remove(i.parse().ok()?),
            ["split_to", n] => Op::SplitTo(n.parse().ok()?),
            ["split_off", n] => Op::SplitOff(n.parse().ok()?),
            ["truncate", n] => Op::Truncate(n.parse().ok()?),
            ["advance", n] => Op::Advance(n.parse().ok()?),
            ["clear"] => Op::Clear,
            ["copy_to_bytes", n] => Op::CopyToBytes(n.parse().ok()?),
            ["copy_to_slice", n] => Op::CopyToSlice(n.parse().ok().filter(|n| *n <= MAX_SLICE)?),
            ["get_u8"] => Op::GetU8,
            ["get_u16"] => Op::GetU16,
            ["get_u32"] => Op::GetU32,
            _ => return None,
        })
    }
    fn ser(&self, buf: &mut Vec<u8>) {
        buf.push(0xF0 + self.kind() as u8);
        match self {
            Op::Push(s) => {
                buf.push(u8::from(s.stat));
                buf.extend_from_slice(&s.bytes);
            }
            Op::Insert(i, s) => {
                buf.extend_from_slice(&(*i as u64).to_le_bytes());
                buf.push(u8::from(s.stat));
                buf.extend_from_slice(&s.bytes);
            }
            Op::Remove(n) | Op::SplitTo(n) | Op::SplitOff(n) | Op::Truncate(n) | Op::Advance(n) | Op::CopyToBytes(n) | Op::CopyToSlice(n) => {
                buf.extend_from_slice(&(*n as u64).to_le_bytes());
            }
            Op::Pop | Op::Clear | Op::GetU8 | Op::GetU16 | Op::GetU32 => {}
        }
    }
    fn payload(&self) -> Option<&SegSpec> {
        match self {
            Op::Push(s) | Op::Insert(_, s) => Some(s),
            _ => None,
        }
    }
}

fn case_text(init: &[SegSpec], ops: &[Op]) -> String {
    let mut s = format!("chain {}", segs_text(init.iter().map(|s| (s.stat, s.bytes.as_slice()))));
    for o in ops {
        s.push_str(" ; ");
        s.push_str(&o.text());
    }
    s
}

// ---------------------------------------------------------------------------------------------
// Building real values
// ---------------------------------------------------------------------------------------------

static POOL: [u8; 256] = {
    let mut a = [0u8; 256];
    let mut i = 0;
    while i < 256 {
        a[i] = i as u8;
        i += 1;
    }
    a
};

/// An owned `Bytes` holding `b`; which of the crate's representations is used (shared heap buffer,
/// promotable `Vec`, `'static`) is derived from the content so that the text form fixes it.
fn owned(b: &[u8]) -> Bytes {
    let flavour = (b.len() + b.first().map_or(0, |x| usize::from(*x))) % 3;
    match flavour {
        0 => Bytes::copy_from_slice(b),
        1 => Bytes::from(b.to_vec()),
        _ => match pool_slice(b) {
            Some(s) => Bytes::from_static(s),
            None => {
                // a shared buffer with a non-zero offset
                let mut v = vec![0xEEu8; 3];
                v.extend_from_slice(b);
                Bytes::from(v).slice(3..)
            }
        },
    }
}

/// `b` as a slice of the static pool, when its bytes are consecutive values.
fn pool_slice(b: &[u8]) -> Option<&'static [u8]> {
    let Some(&f) = b.first() else { return Some(&[]) };
    let start = usize::from(f);
    if start + b.len() <= 256 && POOL[start..start + b.len()] == *b { Some(&POOL[start..start + b.len()]) } else { None }
}

fn mk_cow<'a>(stat: bool, bytes: &'a [u8]) -> CowBytes<'a> {
    if stat { CowBytes::Static(owned(bytes)) } else { CowBytes::Temporary(bytes) }
}

fn seg_of(c: &CowBytes<'_>) -> (bool, Vec<u8>) {
    (c.is_static(), c.as_ref().to_vec())
}

// ---------------------------------------------------------------------------------------------
// Observations
// ---------------------------------------------------------------------------------------------

#[derive(Clone, Debug, PartialEq, Eq)]
struct Obs {
    len: usize,
    rem: usize,
    empty: bool,
    /// `Buf::has_remaining()`
    more: bool,
    chunk: Vec<u8>,
    /// what `Buf::chunks_vectored` offers for a destination of `IOV_SLOTS[i]` slots
    iov: [Vec<Vec<u8>>; 3],
    segs: Vec<(bool, Vec<u8>)>,
}

const IOV_SLOTS: [usize; 3] = [0, 1, 3];

/// `Buf::chunks_vectored` with `k` slots: the slices it filled in.
fn vectored<B: Buf>(b: &B, k: usize) -> Vec<Vec<u8>> {
    let mut dst = vec![IoSlice::new(&[]); k];
    let n = b.chunks_vectored(&mut dst);
    assert!(n <= k, "chunks_vectored returned {n} for {k} slots");
    dst[..n].iter().map(|s| s.to_vec()).collect()
}

fn iov_text(l: &[Vec<u8>]) -> String {
    if l.is_empty() { "-".into() } else { l.iter().map(|c| hexd(c)).collect::<Vec<_>>().join("+") }
}

fn iovs_text(iov: &[Vec<Vec<u8>>; 3]) -> String {
    format!("{}|{}|{}", iov_text(&iov[0]), iov_text(&iov[1]), iov_text(&iov[2]))
}

/// What the property asks of `chunks_vectored` with `k` slots over the contents `all`.
fn iov_ok(l: &[Vec<u8>], k: usize, all: &[u8]) -> Result<(), String> {
    if l.len() > k {
        return Err(format!("{} slices for {k} slots", l.len()));
    }
    if l.iter().any(Vec::is_empty) {
        return Err(format!("an empty slice among {}", iov_text(l)));
    }
    let cat: Vec<u8> = l.iter().flatten().copied().collect();
    if !all.starts_with(&cat) {
        return Err(format!("the slices {} are not a prefix of the contents {}", iov_text(l), hexd(all)));
    }
    if k > 0 && !all.is_empty() && l.is_empty() {
        return Err(format!("no slice offered for {k} slots while {} bytes remain", all.len()));
    }
    Ok(())
}

impl Obs {
    fn of(c: &LongChain<'_>) -> Obs {
        Obs {
            len: c.len(),
            rem: c.remaining(),
            empty: c.is_empty(),
            more: c.has_remaining(),
            chunk: c.chunk().to_vec(),
            iov: [vectored(c, IOV_SLOTS[0]), vectored(c, IOV_SLOTS[1]), vectored(c, IOV_SLOTS[2])],
            segs: c.as_ref().iter().map(seg_of).collect(),
        }
    }
    fn segs_text(&self) -> String {
        segs_text(self.segs.iter().map(|(s, b)| (*s, b.as_slice())))
    }
    fn text(&self) -> String {
        format!("len={} rem={} empty={} more={} chunk={} iov={} segs={}", self.len, self.rem, self.empty, self.more, hexd(&self.chunk), iovs_text(&self.iov), self.segs_text())
    }
    /// Compact binary form (for fingerprints).
    fn ser(&self, buf: &mut Vec<u8>) {
        buf.extend_from_slice(&(self.len as u64).to_le_bytes());
        buf.extend_from_slice(&(self.rem as u64).to_le_bytes());
        buf.push(u8::from(self.empty) | (u8::from(self.more) << 1));
        buf.extend_from_slice(&(self.chunk.len() as u32).to_le_bytes());
        buf.extend_from_slice(&self.chunk);
        for l in &self.iov {
            buf.push(l.len() as u8);
            for c in l {
                buf.extend_from_slice(&(c.len() as u32).to_le_bytes());
                buf.extend_from_slice(c);
            }
        }
        buf.extend_from_slice(&(self.segs.len() as u32).to_le_bytes());
        for (s, b) in &self.segs {
            buf.push(u8::from(*s));
            buf.extend_from_slice(&(b.len() as u32).to_le_bytes());
            buf.extend_from_slice(b);
        }
    }
    fn concat(&self) -> Vec<u8> {
        self.segs.iter().flat_map(|(_, b)| b.iter().copied()).collect()
    }
    fn lens(&self) -> Vec<usize> {
        self.segs.iter().map(|(_, b)| b.len()).collect()
    }
    /// The part of the property that needs no reference: reported length = contents, no empty chunk.
    fn consistent(&self) -> Option<(&'static str, String)> {
        let total: usize = self.segs.iter().map(|(_, b)| b.len()).sum();
        if self.len != total || self.rem != total {
            return Some((
                "len-disagrees",
                format!("len() = {}, remaining() = {} but the segments hold {} bytes ({})", self.len, self.rem, total, self.segs_text()),
            ));
        }
        if self.empty != (total == 0) {
            return Some(("len-disagrees", format!("is_empty() = {} but the segments hold {} bytes", self.empty, total)));
        }
        if let Some(i) = self.segs.iter().position(|(_, b)| b.is_empty()) {
            return Some((
                "empty-chunk",
                format!("as_ref() exposes an empty segment at index {i} ({}), {} bytes remain", self.segs_text(), total),
            ));
        }
        if total > 0 && self.chunk.is_empty() {
            return Some(("empty-chunk", format!("chunk() is empty while {total} bytes remain")));
        }
        let first: &[u8] = self.segs.first().map_or(&[], |(_, b)| b.as_slice());
        if self.chunk != first {
            return Some(("chunk", format!("chunk() = {} but the first segment is {}", hexd(&self.chunk), hexd(first))));
        }
        if self.more != (total > 0) {
            return Some(("has-remaining", format!("has_remaining() = {} but the segments hold {} bytes", self.more, total)));
        }
        let all = self.concat();
        for (l, k) in self.iov.iter().zip(IOV_SLOTS) {
            if let Err(e) = iov_ok(l, k, &all) {
                return Some(("chunks-vectored", format!("chunks_vectored with {k} slots: {e}")));
            }
        }
        None
    }
}

enum Ret {
    Unit,
    Popped(Option<(bool, Vec<u8>)>),
    Removed((bool, Vec<u8>)),
    Part(Obs),
    /// the bytes handed out by `copy_to_bytes` / written by `copy_to_slice`
    Copied(Vec<u8>),
    /// the number read by `get_u8` / `get_u16` / `get_u32`
    Num(u64),
}

impl Ret {
    fn text(&self) -> String {
        match self {
            Ret::Unit => "-".into(),
            Ret::Popped(None) => "none".into(),
            Ret::Popped(Some((s, b))) | Ret::Removed((s, b)) => seg_text(*s, b),
            Ret::Part(o) => format!("[{}]", o.text()),
            Ret::Copied(b) => format!("b:{}", hexd(b)),
            Ret::Num(n) => format!("n:{n}"),
        }
    }
}

fn apply<'a>(c: &mut LongChain<'a>, op: &Op, payload: Option<CowBytes<'a>>) -> Ret {
    match op {
        Op::Push(_) => {
            c.push(payload.expect("payload"));
            Ret::Unit
        }
        Op::Insert(i, _) => {
            c.insert(*i, payload.expect("payload"));
            Ret::Unit
        }
        Op::Pop => Ret::Popped(c.pop().map(|s| seg_of(&s))),
        Op::Remove(i) => Ret::Removed(seg_of(&c.remove(*i))),
        Op::SplitTo(n) => Ret::Part(Obs::of(&c.split_to(*n))),
        Op::SplitOff(n) => Ret::Part(Obs::of(&c.split_off(*n))),
        Op::Truncate(n) => {
            c.truncate(*n);
            Ret::Unit
        }
        Op::Advance(n) => {
            c.advance(*n);
            Ret::Unit
        }
        Op::Clear => {
            c.clear();
            Ret::Unit
        }
        Op::CopyToBytes(n) => Ret::Copied(c.copy_to_bytes(*n).to_vec()),
        Op::CopyToSlice(n) => {
            let mut dst = vec![0xA5u8; *n];
            c.copy_to_slice(&mut dst);
            Ret::Copied(dst)
        }
        Op::GetU8 => Ret::Num(u64::from(c.get_u8())),
        Op::GetU16 => Ret::Num(u64::from(c.get_u16())),
        Op::GetU32 => Ret::Num(u64::from(c.get_u32())),
    }
}

// ---------------------------------------------------------------------------------------------
// The reference: a plain byte vector (plus the segment lengths, needed only to turn the segment
// indices of insert / pop / remove into byte ranges)
// ---------------------------------------------------------------------------------------------

#[derive(Clone, Debug, PartialEq, Eq)]
struct Ref {
    bytes: Vec<u8>,
    lens: Vec<usize>,
}

enum RefRet {
    Unit,
    Seg(Option<Vec<u8>>),
    Part(Ref),
    Copied(Vec<u8>),
    Num(u64),
}

/// What the property requires of one operation.
enum Exp {
    /// The argument is in range: the value becomes the reference's and this is returned.
    Done(RefRet),
    /// Out-of-range argument (index / length past the end, empty segment): panic or unchanged.
    Rejected,
}

impl Ref {
    fn of(init: &[SegSpec]) -> Ref {
        Ref { bytes: init.iter().flat_map(|s| s.bytes.iter().copied()).collect(), lens: init.iter().map(|s| s.bytes.len()).collect() }
    }
    fn offset(&self, i: usize) -> usize {
        self.lens[..i].iter().sum()
    }
    /// Keep the first `n` bytes, return the rest (`n <= len`).
    fn split(&mut self, n: usize) -> Ref {
        let tail = self.bytes.split_off(n);
        let mut front = vec![];
        let mut back = vec![];
        let mut acc = 0;
        for &l in &self.lens {
            if acc + l <= n {
                front.push(l);
            } else if acc >= n {
                back.push(l);
            } else {
                front.push(n - acc);
                back.push(acc + l - n);
            }
            acc += l;
        }
        self.lens = front;
        Ref { bytes: tail, lens: back }
    }
    fn apply(&mut self, op: &Op) -> Exp {
        let total = self.bytes.len();
        match op {
            Op::Push(s) => {
                if s.bytes.is_empty() {
                    return Exp::Rejected;
                }
                self.bytes.extend_from_slice(&s.bytes);
                self.lens.push(s.bytes.len());
                Exp::Done(RefRet::Unit)
            }
            Op::Insert(i, s) => {
                if *i > self.lens.len() || s.bytes.is_empty() {
                    return Exp::Rejected;
                }
                let off = self.offset(*i);
                self.bytes.splice(off..off, s.bytes.iter().copied());
                self.lens.insert(*i, s.bytes.len());
                Exp::Done(RefRet::Unit)
            }
            Op::Pop => match self.lens.pop() {
                None => Exp::Done(RefRet::Seg(None)),
                Some(l) => Exp::Done(RefRet::Seg(Some(self.bytes.split_off(total - l)))),
            },
            Op::Remove(i) => {
                if *i >= self.lens.len() {
                    return Exp::Rejected;
                }
                let off = self.offset(*i);
                let l = self.lens.remove(*i);
                Exp::Done(RefRet::Seg(Some(self.bytes.drain(off..off + l).collect())))
            }
            Op::SplitTo(n) => {
                if *n > total {
                    return Exp::Rejected;
                }
                let back = self.split(*n);
                let front = std::mem::replace(self, back);
                Exp::Done(RefRet::Part(front))
            }
            Op::SplitOff(n) => {
                if *n > total {
                    return Exp::Rejected;
                }
                Exp::Done(RefRet::Part(self.split(*n)))
            }
            Op::Truncate(n) => {
                if *n > total {
                    return Exp::Rejected;
                }
                let _ = self.split(*n);
                Exp::Done(RefRet::Unit)
            }
            Op::Advance(n) => {
                if *n > total {
                    return Exp::Rejected;
                }
                let back = self.split(*n);
                *self = back;
                Exp::Done(RefRet::Unit)
            }
            Op::Clear => {
                self.bytes.clear();
                self.lens.clear();
                Exp::Done(RefRet::Unit)
            }
            Op::CopyToBytes(n) | Op::CopyToSlice(n) => {
                if *n > total {
                    return Exp::Rejected;
                }
                let back = self.split(*n);
                let front = std::mem::replace(self, back);
                Exp::Done(RefRet::Copied(front.bytes))
            }
            Op::GetU8 | Op::GetU16 | Op::GetU32 => {
                let k = op.wanted().expect("size");
                if k > total {
                    return Exp::Rejected;
                }
                let back = self.split(k);
                let front = std::mem::replace(self, back);
                // big-endian: the first byte is the most significant
                Exp::Done(RefRet::Num(front.bytes.iter().fold(0u64, |a, b| a * 256 + u64::from(*b))))
            }
        }
    }
    fn text(&self) -> String {
        format!("bytes={} segment-lengths={:?}", hexd(&self.bytes), self.lens)
    }
}

/// A value of the implementation against the reference value.
fn against(o: &Obs, r: &Ref, what: &str) -> Option<(&'static str, String)> {
    if let Some((c, d)) = o.consistent() {
        return Some((c, format!("{what}: {d}")));
    }
    if o.concat() != r.bytes {
        return Some(("contents", format!("{what}: holds {} but the byte vector holds {}", hexd(&o.concat()), hexd(&r.bytes))));
    }
    if o.lens() != r.lens {
        return Some(("segments", format!("{what}: segment lengths {:?}, reference {:?}", o.lens(), r.lens)));
    }
    None
}

struct StepOut {
    before: Obs,
    after: Obs,
    ret: Option<Ret>,
    panicked: bool,
    /// 0 accepted, 1 rejected by panic, 2 rejected and unchanged
    outcome: usize,
    nontrivial: bool,
    fail: Option<(&'static str, String)>,
}

impl StepOut {
    /// The request line for the Lean driver: the state before the operation, and the operation.
    fn req(&self, op: &Op) -> String {
        format!("step {} {} {}", self.before.len, self.before.segs_text(), op.text())
    }
    /// What the implementation did, in the driver's response format.
    fn resp(&self) -> String {
        match &self.ret {
            None => format!("panic | {}", self.after.text()),
            Some(ret) => format!("ok {} | {}", ret.text(), self.after.text()),
        }
    }
    /// 128-bit fingerprint of (state before, operation) and 64-bit fingerprint of the outcome.
    fn fingerprints(&self, op: &Op, buf: &mut Vec<u8>) -> (u128, u64) {
        buf.clear();
        self.before.ser(buf);
        op.ser(buf);
        let key = fp128(buf);
        buf.clear();
        match &self.ret {
            None => buf.push(0),
            Some(Ret::Unit) => buf.push(1),
            Some(Ret::Popped(None)) => buf.push(2),
            Some(Ret::Popped(Some((s, b))) | Ret::Removed((s, b))) => {
                buf.push(3 + u8::from(*s));
                buf.extend_from_slice(b);
            }
            Some(Ret::Part(o)) => {
                buf.push(5);
                o.ser(buf);
            }
            Some(Ret::Copied(b)) => {
                buf.push(6);
                buf.extend_from_slice(b);
            }
            Some(Ret::Num(n)) => {
                buf.push(7);
                buf.extend_from_slice(&n.to_le_bytes());
            }
        }
        self.after.ser(buf);
        (key, fp128(buf) as u64)
    }
}

fn fp128(bs: &[u8]) -> u128 {
    let mut a: u64 = 0xcbf2_9ce4_8422_2325;
    let mut b: u64 = 0x9E37_79B9_7F4A_7C15;
    for x in bs {
        a = (a ^ u64::from(*x)).wrapping_mul(0x0100_0000_01b3);
        b = (b.rotate_left(5) ^ u64::from(*x)).wrapping_mul(0xBF58_476D_1CE4_E5B9);
    }
    (u128::from(a) << 64) | u128::from(b ^ (b >> 29))
}

/// One operation on the real chain and on the reference; every oracle of the property.
/// `before` is the observation of `c` as it is now.
fn eval_step<'a>(c: &mut LongChain<'a>, r: &mut Ref, before: Obs, op: &Op, payload: Option<CowBytes<'a>>) -> StepOut {
    let had_bytes = !r.bytes.is_empty();
    let got = catch(|| apply(c, op, payload));
    let after = match catch(|| Obs::of(c)) {
        Ok(o) => o,
        Err(p) => {
            return StepOut {
                after: before.clone(),
                before,
                ret: None,
                panicked: true,
                outcome: 1,
                nontrivial: false,
                fail: Some(("observer-panic", format!("an accessor panicked after `{}`: {p}", op.text()))),
            };
        }
    };
    let ref_before = r.clone();
    let exp = r.apply(op);
    let mut fail = None;
    let (panicked, outcome) = match (&got, &exp) {
        (Err(_), Exp::Rejected) => {
            // the value left behind must still be a consistent value
            if let Some((_, d)) = after.consistent() {
                fail = Some(("panic-left-inconsistent", format!("after the panic of `{}` the value is left inconsistent: {d}", op.text())));
            }
            (true, 1)
        }
        (Err(p), Exp::Done(_)) => {
            fail = Some(("panic-in-range", format!("`{}` panicked ({p}) although its argument is in range of {}", op.text(), ref_before.text())));
            (true, 1)
        }
        (Ok(ret), Exp::Rejected) => {
            if op.wanted().is_some() {
                // a call that is to hand out bytes the chain does not hold has to panic
                fail = Some(("out-of-range-accepted", format!("`{}` asks for more bytes than {} holds, did not panic and returned {}", op.text(), ref_before.text(), ret.text())));
            } else if after != before {
                let (cat, d) = after
                    .consistent()
                    .unwrap_or(("out-of-range-changed", format!("value changed from {} to {}", before.text(), after.text())));
                fail = Some((cat, format!("`{}` is out of range of {}, did not panic, and: {d}", op.text(), ref_before.text())));
            }
            (false, 2)
        }
        (Ok(ret), Exp::Done(rr)) => {
            fail = against(&after, r, &format!("after `{}`", op.text()));
            if fail.is_none() {
                fail = match (ret, rr) {
                    (Ret::Unit, RefRet::Unit) => None,
                    (Ret::Popped(None), RefRet::Seg(None)) => None,
                    (Ret::Popped(Some((_, b))) | Ret::Removed((_, b)), RefRet::Seg(Some(e))) if b == e => None,
                    (Ret::Part(o), RefRet::Part(pr)) => against(o, pr, &format!("the chain returned by `{}`", op.text())),
                    (Ret::Copied(b), RefRet::Copied(e)) if b == e => None,
                    (Ret::Num(a), RefRet::Num(e)) if a == e => None,
                    _ => Some(("returned", format!("`{}` returned {}", op.text(), ret.text()))),
                };
            }
            (false, 0)
        }
    };
    let nontrivial = outcome == 0 && (had_bytes || !r.bytes.is_empty());
    StepOut { before, after, ret: got.ok(), panicked, outcome, nontrivial, fail }
}

/// Read everything through the `Buf` interface the way a consumer does; the bytes must be the
/// reference's and no chunk may be empty while bytes remain.
fn drain(c: &LongChain<'_>, r: &Ref) -> Option<(&'static str, String)> {
    let mut d = c.clone();
    let res = catch(move || {
        let mut out = vec![];
        let mut chunks = 0usize;
        while d.has_remaining() {
            let ch = d.chunk();
            if ch.is_empty() {
                return Err(format!("chunk() empty after {} bytes while remaining() = {}", out.len(), d.remaining()));
            }
            out.extend_from_slice(ch);
            let n = ch.len();
            d.advance(n);
            chunks += 1;
        }
        let _ = chunks;
        Ok(out)
    });
    match res {
        Err(p) => Some(("drain", format!("reading the chain through Buf panicked: {p}"))),
        Ok(Err(e)) => Some(("empty-chunk", format!("reading the chain through Buf: {e}"))),
        Ok(Ok(out)) if out != r.bytes => Some(("drain", format!("reading through Buf gave {} but the byte vector holds {}", hexd(&out), hexd(&r.bytes)))),
        Ok(Ok(_)) => None,
    }
}

// ---------------------------------------------------------------------------------------------
// A whole case: initial chain + operation list (random part, corpus, replay, shrinking)
// ---------------------------------------------------------------------------------------------

struct CaseRun {
    steps: Vec<(String, String)>,
    /// (index of the failing op, or ops.len() for the final drain; category; description)
    fail: Option<(usize, &'static str, String)>,
    run_resp: String,
    nontrivial: bool,
    outcomes: Vec<(usize, usize)>,
}

fn run_case(init: &[SegSpec], ops: &[Op]) -> CaseRun {
    let arena: Vec<&[u8]> = init.iter().map(|s| s.bytes.as_slice()).chain(ops.iter().map(|o| o.payload().map_or(&[][..], |s| s.bytes.as_slice()))).collect();
    let mut c = LongChain::with_capacity(init.len());
    for (i, s) in init.iter().enumerate() {
        // build through the public API; an empty initial segment is not offered
        c.push(mk_cow(s.stat, arena[i]));
    }
    let mut r = Ref::of(init);
    let mut run = CaseRun { steps: vec![], fail: None, run_resp: String::new(), nontrivial: false, outcomes: vec![] };
    if let Some((cat, d)) = against(&Obs::of(&c), &r, "the initial chain") {
        run.fail = Some((0, cat, d));
        return run;
    }
    for (i, op) in ops.iter().enumerate() {
        let payload = op.payload().map(|s| mk_cow(s.stat, arena[init.len() + i]));
        let before = Obs::of(&c);
        let st = eval_step(&mut c, &mut r, before, op, payload);
        run.steps.push((st.req(op), st.resp()));
        run.nontrivial |= st.nontrivial;
        run.outcomes.push((op.kind(), st.outcome));
        if let Some((cat, d)) = st.fail {
            run.fail = Some((i, cat, d));
            return run;
        }
        if st.panicked {
            run.run_resp = format!("panic {i} | {}", Obs::of(&c).text());
            return run;
        }
    }
    run.run_resp = format!("ok {} | {}", ops.len(), Obs::of(&c).text());
    if let Some((cat, d)) = drain(&c, &r) {
        run.fail = Some((ops.len(), cat, d));
    }
    run
}

fn run_req(init: &[SegSpec], ops: &[Op]) -> String {
    let total: usize = init.iter().map(|s| s.bytes.len()).sum();
    let mut s = format!("run {} {}", total, segs_text(init.iter().map(|s| (s.stat, s.bytes.as_slice()))));
    for o in ops {
        s.push_str(" ; ");
        s.push_str(&o.text());
    }
    s
}

/// Shrink a failing case: fewer ops, fewer initial segments, smaller arguments, same failure category.
fn shrink_case(init: Vec<SegSpec>, ops: Vec<Op>, cat: &'static str) -> (Vec<SegSpec>, Vec<Op>) {
    let fails = |i: &[SegSpec], o: &[Op]| matches!(run_case(i, o).fail, Some((_, c, _)) if c == cat);
    let mut init = init;
    let mut ops = ops;
    for _ in 0..3 {
        let before = (init.clone(), ops.clone());
        ops = shrink_list(ops, |o| fails(&init, o));
        init = shrink_list(init, |i| fails(i, &ops));
        // smaller numbers and shorter payloads
        for k in 0..ops.len() {
            let cands: Vec<Op> = match &ops[k] {
                Op::Insert(i, s) => smaller(*i).into_iter().map(|j| Op::Insert(j, s.clone())).chain(shorter(s).into_iter().map(|t| Op::Insert(*i, t))).collect(),
                Op::Push(s) => shorter(s).into_iter().map(Op::Push).collect(),
                Op::Remove(i) => smaller(*i).into_iter().map(Op::Remove).collect(),
                Op::SplitTo(n) => smaller(*n).into_iter().map(Op::SplitTo).collect(),
                Op::SplitOff(n) => smaller(*n).into_iter().map(Op::SplitOff).collect(),
                Op::Truncate(n) => smaller(*n).into_iter().map(Op::Truncate).collect(),
                Op::Advance(n) => smaller(*n).into_iter().map(Op::Advance).collect(),
                Op::CopyToBytes(n) => smaller(*n).into_iter().map(Op::CopyToBytes).collect(),
                Op::CopyToSlice(n) => smaller(*n).into_iter().map(Op::CopyToSlice).collect(),
                Op::GetU32 => vec![Op::GetU8, Op::GetU16],
                Op::GetU16 => vec![Op::GetU8],
                Op::Pop | Op::Clear | Op::GetU8 => vec![],
            };
            for cnd in cands {
                let old = std::mem::replace(&mut ops[k], cnd);
                if fails(&init, &ops) {
                    break;
                }
                ops[k] = old;
            }
        }
        for k in 0..init.len() {
            for cnd in shorter(&init[k]) {
                if cnd.bytes.is_empty() {
                    continue;
                }
                let old = std::mem::replace(&mut init[k], cnd);
                if fails(&init, &ops) {
                    break;
                }
                init[k] = old;
            }
        }
        // an initial segment together with one operation (e.g. the `remove` that took it out again)
        let mut j = 0;
        while j < init.len() {
            let mut done = false;
            for k in 0..ops.len() {
                let mut i2 = init.clone();
                i2.remove(j);
                let mut o2 = ops.clone();
                o2.remove(k);
                if fails(&i2, &o2) {
                    init = i2;
                    ops = o2;
                    done = true;
                    break;
                }
            }
            if !done {
                j += 1;
            }
        }
        // canonical contents: bytes 01 02 .., borrowed
        let canon = |s: &SegSpec| -> Vec<SegSpec> {
            let bytes: Vec<u8> = (1..=s.bytes.len()).map(|x| x as u8).collect();
            let mut v = vec![];
            if s.stat || s.bytes != bytes {
                v.push(SegSpec { stat: false, bytes: bytes.clone() });
            }
            if s.bytes != bytes {
                v.push(SegSpec { stat: s.stat, bytes });
            }
            v
        };
        for k in 0..ops.len() {
            let cands: Vec<Op> = match &ops[k] {
                Op::Insert(i, s) => canon(s).into_iter().map(|t| Op::Insert(*i, t)).collect(),
                Op::Push(s) => canon(s).into_iter().map(Op::Push).collect(),
                _ => vec![],
            };
            for cnd in cands {
                let old = std::mem::replace(&mut ops[k], cnd);
                if fails(&init, &ops) {
                    break;
                }
                ops[k] = old;
            }
        }
        for k in 0..init.len() {
            for cnd in canon(&init[k]) {
                let old = std::mem::replace(&mut init[k], cnd);
                if fails(&init, &ops) {
                    break;
                }
                init[k] = old;
            }
        }
        if (init.clone(), ops.clone()) == before {
            break;
        }
    }
    (init, ops)
}

fn smaller(n: usize) -> Vec<usize> {
    let mut v = vec![];
    for c in [0, 1, 2, n / 2, n.saturating_sub(1)] {
        if c < n && !v.contains(&c) {
            v.push(c);
        }
    }
    v
}

fn shorter(s: &SegSpec) -> Vec<SegSpec> {
    let n = s.bytes.len();
    let mut v = vec![];
    for l in [0, 1, 2, n / 2, n.saturating_sub(1)] {
        if l < n && !v.iter().any(|t: &SegSpec| t.bytes.len() == l) {
            v.push(SegSpec { stat: s.stat, bytes: s.bytes[..l].to_vec() });
        }
    }
    v
}

// ---------------------------------------------------------------------------------------------
// Accumulator (one per worker thread, merged in a fixed order)
// ---------------------------------------------------------------------------------------------

#[derive(Default)]
struct Acc {
    evals: u64,
    nontrivial: HashSet<u64>,
    nontrivial_overflow: u64,
    outcomes: [[u64; 3]; NK],
    depth_hist: BTreeMap<usize, u64>,
    /// fingerprint of (state, op) -> (fingerprint of what the implementation did, line kept for the model)
    seen: HashMap<u128, (u64, bool)>,
    seen_overflow: u64,
    /// request / response lines kept for the comparison with the model
    kept: Vec<(String, String)>,
    /// steps first met at a depth below `keep_depth` are all kept, deeper ones when fingerprint % sample == 0
    keep_depth: usize,
    sample: u64,
    buf: Vec<u8>,
    fails: Vec<(Vec<SegSpec>, Vec<Op>, &'static str, String)>,
    fail_count: BTreeMap<&'static str, u64>,
}

const SEEN_CAP: usize = 5_000_000;
const NONTRIVIAL_CAP: usize = 6_000_000;

impl Acc {
    fn new(keep_depth: usize, sample: u64) -> Acc {
        Acc { keep_depth, sample: sample.max(1), ..Acc::default() }
    }
    fn step(&mut self, depth: usize, st: &StepOut, op: &Op) {
        let mut buf = std::mem::take(&mut self.buf);
        let (key, val) = st.fingerprints(op, &mut buf);
        self.buf = buf;
        let want = depth < self.keep_depth || (key as u64) % self.sample == 0;
        match self.seen.get_mut(&key) {
            Some((v, kept)) => {
                if *v != val {
                    *self.fail_count.entry("hidden-state").or_insert(0) += 1;
                    if self.fails.iter().filter(|f| f.2 == "hidden-state").count() < 2 {
                        self.fails.push((vec![], vec![], "hidden-state", format!("`{}` answered `{}` here and something else elsewhere", st.req(op), st.resp())));
                    }
                }
                if want && !*kept {
                    *kept = true;
                    self.kept.push((st.req(op), st.resp()));
                }
            }
            None => {
                if self.seen.len() >= SEEN_CAP {
                    self.seen_overflow += 1;
                    return;
                }
                self.seen.insert(key, (val, want));
                if want {
                    self.kept.push((st.req(op), st.resp()));
                }
            }
        }
    }
    fn case(&mut self, nontrivial: Option<u64>) {
        self.evals += 1;
        if let Some(h) = nontrivial {
            if self.nontrivial.len() < NONTRIVIAL_CAP {
                self.nontrivial.insert(h);
            } else {
                self.nontrivial_overflow += 1;
            }
        }
    }
    fn failure(&mut self, init: &[SegSpec], ops: &[Op], cat: &'static str, desc: String) {
        let n = self.fail_count.entry(cat).or_insert(0);
        *n += 1;
        if *n <= 4 {
            self.fails.push((init.to_vec(), ops.to_vec(), cat, desc));
        }
    }
    fn merge(&mut self, o: Acc) {
        self.evals += o.evals;
        self.nontrivial_overflow += o.nontrivial_overflow;
        for h in o.nontrivial {
            if self.nontrivial.len() < NONTRIVIAL_CAP {
                self.nontrivial.insert(h);
            } else {
                self.nontrivial_overflow += 1;
            }
        }
        for k in 0..NK {
            for j in 0..3 {
                self.outcomes[k][j] += o.outcomes[k][j];
            }
        }
        for (d, n) in o.depth_hist {
            *self.depth_hist.entry(d).or_insert(0) += n;
        }
        self.seen_overflow += o.seen_overflow;
        for (k, (v, kept)) in o.seen {
            match self.seen.get_mut(&k) {
                Some((v0, k0)) => {
                    if *v0 != v {
                        *self.fail_count.entry("hidden-state").or_insert(0) += 1;
                        if self.fails.iter().filter(|f| f.2 == "hidden-state").count() < 2 {
                            self.fails.push((vec![], vec![], "hidden-state", format!("the same (state, operation) (fingerprint {k:032x}) had different outcomes in two subtrees")));
                        }
                    }
                    *k0 |= kept;
                }
                None => {
                    self.seen.insert(k, (v, kept));
                }
            }
        }
        self.kept.extend(o.kept);
        for (c, n) in o.fail_count {
            *self.fail_count.entry(c).or_insert(0) += n;
        }
        self.fails.extend(o.fails);
    }
}

// ---------------------------------------------------------------------------------------------
// Exhaustive part
// ---------------------------------------------------------------------------------------------

/// Offsets at, one before and one past every segment boundary (0 and the end included), and one
/// offset strictly inside every segment.
fn boundary_offsets(lens: &[usize]) -> Vec<usize> {
    let mut v = vec![];
    let mut acc = 0usize;
    let mut push = |x: usize| {
        if !v.contains(&x) {
            v.push(x);
        }
    };
    push(0);
    push(1);
    for &l in lens {
        if l >= 2 {
            push(acc + l / 2);
        }
        acc += l;
        push(acc.saturating_sub(1));
        push(acc);
        push(acc + 1);
    }
    v.sort_unstable();
    v
}

struct Alphabet {
    /// payloads offered to push / insert at a given depth: (owned?, length)
    push: Vec<(bool, usize)>,
    insert: Vec<(bool, usize)>,
    /// offer the consuming `Buf` methods as well (the `buf pass`)
    buf: bool,
}

fn ops_for(r: &Ref, depth: usize, al: &Alphabet) -> Vec<Op> {
    let mut v = vec![];
    let k = r.lens.len();
    let seg = |stat: bool, n: usize, base: usize| SegSpec { stat, bytes: POOL[base..base + n].to_vec() };
    for &(stat, n) in &al.push {
        v.push(Op::Push(seg(stat, n, 0x40 + 0x10 * depth)));
    }
    for i in 0..=k + 1 {
        for &(stat, n) in &al.insert {
            v.push(Op::Insert(i, seg(stat, n, 0x80 + 0x10 * depth)));
        }
    }
    v.push(Op::Pop);
    for i in 0..=k {
        v.push(Op::Remove(i));
    }
    for n in boundary_offsets(&r.lens) {
        v.push(Op::SplitTo(n));
        v.push(Op::SplitOff(n));
        v.push(Op::Truncate(n));
        v.push(Op::Advance(n));
        if al.buf {
            v.push(Op::CopyToBytes(n));
            v.push(Op::CopyToSlice(n));
        }
    }
    v.push(Op::Clear);
    if al.buf {
        v.push(Op::GetU8);
        v.push(Op::GetU16);
        v.push(Op::GetU32);
    }
    v
}

#[allow(clippy::too_many_arguments)]
fn dfs(c: &LongChain<'static>, r: &Ref, before: &Obs, depth: usize, max: usize, path: &mut Vec<Op>, h: u64, nontriv: bool, init: &[SegSpec], al: &Alphabet, acc: &mut Acc) {
    for op in ops_for(r, depth, al) {
        let mut c2 = c.clone();
        let mut r2 = r.clone();
        let payload = op.payload().map(|s| if s.stat { CowBytes::Static(owned(&s.bytes)) } else { CowBytes::Temporary(pool_slice(&s.bytes).expect("pool payload")) });
        let st = eval_step(&mut c2, &mut r2, before.clone(), &op, payload);
        acc.step(depth, &st, &op);
        let (_, opfp) = {
            acc.buf.clear();
            op.ser(&mut acc.buf);
            (0, fp128(&acc.buf) as u64)
        };
        let hh = (h ^ opfp).wrapping_mul(0x0100_0000_01b3).rotate_left(17);
        let nt = nontriv || st.nontrivial;
        acc.outcomes[op.kind()][st.outcome] += 1;
        *acc.depth_hist.entry(depth + 1).or_insert(0) += 1;
        acc.case(nt.then_some(hh));
        path.push(op);
        if let Some((cat, d)) = st.fail {
            acc.failure(init, path, cat, d);
        } else if !st.panicked {
            if depth + 1 < max {
                dfs(&c2, &r2, &st.after, depth + 1, max, path, hh, nt, init, al, acc);
            } else if let Some((cat, d)) = drain(&c2, &r2) {
                acc.failure(init, path, cat, d);
            }
        }
        path.pop();
    }
}

/// Initial chains: every shape with <= `max_segs` segments of 1..=`max_len` bytes, in the given tag patterns.
fn initial_chains(max_segs: usize, max_len: usize) -> Vec<Vec<SegSpec>> {
    let mut shapes: Vec<Vec<usize>> = vec![vec![]];
    let mut frontier: Vec<Vec<usize>> = vec![vec![]];
    for _ in 0..max_segs {
        let mut next = vec![];
        for s in &frontier {
            for l in 1..=max_len {
                let mut t = s.clone();
                t.push(l);
                next.push(t);
            }
        }
        shapes.extend(next.iter().cloned());
        frontier = next;
    }
    let mut out = vec![];
    for sh in shapes {
        let pats: Vec<Vec<bool>> = match sh.len() {
            0 => vec![vec![]],
            1 => vec![vec![false], vec![true]],
            n => vec![vec![false; n], vec![true; n], (0..n).map(|i| i % 2 == 1).collect(), (0..n).map(|i| i % 2 == 0).collect()],
        };
        for p in pats {
            out.push(sh.iter().enumerate().map(|(j, &l)| SegSpec { stat: p[j], bytes: POOL[16 * j + 1..16 * j + 1 + l].to_vec() }).collect());
        }
    }
    out
}

fn build_static(init: &[SegSpec]) -> LongChain<'static> {
    let mut c = LongChain::new();
    for s in init {
        c.push(if s.stat { CowBytes::Static(owned(&s.bytes)) } else { CowBytes::Temporary(pool_slice(&s.bytes).expect("pool")) });
    }
    c
}

/// Jobs: (initial chain, depth bound, alphabet id). Run on worker threads, merged in job order.
fn exhaustive_part(jobs: &[(Vec<SegSpec>, usize, usize)], alphabets: &[Alphabet], threads: usize, keep_depth: usize, sample: u64) -> Acc {
    let next = std::sync::atomic::AtomicUsize::new(0);
    let results: std::sync::Mutex<Vec<(usize, Acc)>> = std::sync::Mutex::new(vec![]);
    std::thread::scope(|s| {
        for _ in 0..threads {
            s.spawn(|| {
                let mut acc = Acc::new(keep_depth, sample);
                let mut first = usize::MAX;
                loop {
                    let j = next.fetch_add(1, std::sync::atomic::Ordering::Relaxed);
                    if j >= jobs.len() {
                        break;
                    }
                    first = first.min(j);
                    let (init, max, al) = &jobs[j];
                    let c = build_static(init);
                    let r = Ref::of(init);
                    // the empty sequence
                    acc.case(None);
                    let o0 = Obs::of(&c);
                    if let Some((cat, d)) = against(&o0, &r, "the initial chain") {
                        acc.failure(init, &[], cat, d);
                        continue;
                    }
                    let mut path = vec![];
                    let h0 = pvh::fnv(case_text(init, &[]).as_bytes());
                    dfs(&c, &r, &o0, 0, *max, &mut path, h0, false, init, &alphabets[*al], &mut acc);
                }
                results.lock().expect("lock").push((first, acc));
            });
        }
    });
    let mut rs = results.into_inner().expect("lock");
    rs.sort_by_key(|(f, _)| *f);
    let mut total = Acc::new(keep_depth, sample);
    for (_, a) in rs {
        total.merge(a);
    }
    total
}

// ---------------------------------------------------------------------------------------------
// Random part
// ---------------------------------------------------------------------------------------------

fn rand_len(r: &mut Rng, allow_empty: bool) -> usize {
    match r.below(20) {
        0 | 1 if allow_empty => 0,
        0..=7 => r.range(1, 4) as usize,
        8..=16 => r.range(1, 40) as usize,
        17 | 18 => r.range(41, 120) as usize,
        _ => r.range(250, 300) as usize,
    }
}

fn rand_seg(r: &mut Rng, allow_empty: bool) -> SegSpec {
    let n = rand_len(r, allow_empty);
    SegSpec { stat: r.chance(1, 2), bytes: r.bytes(n) }
}

/// An in-range offset, biased toward segment boundaries.
fn rand_offset(r: &mut Rng, st: &Ref) -> usize {
    let total = st.bytes.len();
    if total == 0 {
        return 0;
    }
    if r.chance(3, 5) {
        let cands = boundary_offsets(&st.lens);
        let c = *r.pick(&cands);
        c.min(total)
    } else {
        r.range(0, total as u64) as usize
    }
}

/// How much a consuming `Buf` call asks for: in range; a few bytes, up to a boundary, or anything.
fn rand_take(r: &mut Rng, st: &Ref) -> usize {
    let total = st.bytes.len();
    match r.below(3) {
        0 => (r.below(6) as usize).min(total),
        _ => rand_offset(r, st),
    }
}

fn past(r: &mut Rng, total: usize) -> usize {
    match r.below(4) {
        0 | 1 => total + 1,
        2 => total + r.range(2, 1000) as usize,
        _ => usize::MAX - r.below(2) as usize,
    }
}

/// `risky`: may produce an argument that the implementation answers with a panic (which ends the sequence).
fn gen_op(r: &mut Rng, st: &Ref, risky: bool) -> Op {
    let total = st.bytes.len();
    let k = st.lens.len();
    let grow = if total < 60 { 45 } else if total > 2000 { 10 } else { 28 };
    let w = r.below(100);
    if w < grow {
        if r.chance(2, 3) {
            Op::Push(rand_seg(r, true))
        } else {
            let i = if risky && r.chance(1, 6) { k + 1 + r.below(3) as usize } else { r.range(0, k as u64) as usize };
            Op::Insert(i, rand_seg(r, true))
        }
    } else {
        match r.below(20) {
            0 | 1 => Op::Pop,
            2 | 3 => {
                if k == 0 || (risky && r.chance(1, 6)) {
                    if risky { Op::Remove(k + r.below(2) as usize) } else { Op::Pop }
                } else {
                    Op::Remove(r.below(k as u64) as usize)
                }
            }
            4 | 5 => Op::SplitTo(if risky && r.chance(1, 6) { past(r, total) } else { rand_offset(r, st) }),
            6 | 7 => Op::SplitOff(if risky && r.chance(1, 6) { past(r, total) } else { rand_offset(r, st) }),
            // an over-long truncate is offered often: it must be a no-op (or a panic)
            8 | 9 => Op::Truncate(if r.chance(1, 5) { past(r, total) } else { rand_offset(r, st) }),
            10 | 11 => Op::Advance(if risky && r.chance(1, 6) { past(r, total) } else { rand_offset(r, st) }),
            12 => {
                if r.chance(1, 8) {
                    Op::Clear
                } else {
                    Op::Advance(rand_offset(r, st).min(3))
                }
            }
            // the consuming `Buf` methods: mostly a header-sized or a boundary-sized request
            13 | 14 => Op::CopyToBytes(if risky && r.chance(1, 6) { past(r, total) } else { rand_take(r, st) }),
            15 | 16 => Op::CopyToSlice(if risky && r.chance(1, 6) { total + 1 + r.below(1000) as usize } else { rand_take(r, st) }),
            w => {
                let op = match w {
                    17 => Op::GetU8,
                    18 => Op::GetU16,
                    _ => Op::GetU32,
                };
                // short of bytes the call panics (and ends the sequence): only in a risky position
                if op.wanted().expect("size") <= total || risky { op } else { Op::CopyToBytes(total.min(1)) }
            }
        }
    }
}

fn gen_case(r: &mut Rng) -> (Vec<SegSpec>, Vec<Op>) {
    let k = r.below(5) as usize;
    let init: Vec<SegSpec> = (0..k).map(|_| rand_seg(r, false)).collect();
    let n = match r.below(10) {
        0 => r.range(1, 8),
        1..=3 => r.range(8, 60),
        _ => r.range(60, 200),
    } as usize;
    let risky_run = r.chance(1, 3);
    let mut st = Ref::of(&init);
    let mut ops = vec![];
    for i in 0..n {
        // risky arguments only near the end of a risky run, so that most sequences run long
        let risky = risky_run && (i + 1 == n || r.chance(1, 40));
        let op = gen_op(r, &st, risky);
        let _ = st.apply(&op);
        ops.push(op);
    }
    (init, ops)
}

// ---------------------------------------------------------------------------------------------
// CowBytes part
// ---------------------------------------------------------------------------------------------

#[derive(Default)]
struct Rec(Vec<u8>);
impl Hasher for Rec {
    fn finish(&self) -> u64 {
        0
    }
    fn write(&mut self, b: &[u8]) {
        self.0.extend_from_slice(b);
    }
}

fn hash_stream<T: Hash + ?Sized>(x: &T) -> Vec<u8> {
    let mut h = Rec::default();
    x.hash(&mut h);
    h.0
}

fn default_hash<T: Hash + ?Sized>(x: &T) -> u64 {
    let mut h = std::collections::hash_map::DefaultHasher::new();
    x.hash(&mut h);
    h.finish()
}

fn ord_text(o: Option<std::cmp::Ordering>) -> &'static str {
    match o {
        Some(std::cmp::Ordering::Less) => "lt",
        Some(std::cmp::Ordering::Equal) => "eq",
        Some(std::cmp::Ordering::Greater) => "gt",
        None => "none",
    }
}

const SEG_OPS: [&str; 9] = ["split_to", "split_off", "truncate", "advance", "copy_to_bytes", "copy_to_slice", "get_u8", "get_u16", "get_u32"];

/// An out-of-range argument may be ignored (value unchanged) instead of answered with a panic: only
/// by the operations that hand nothing out (`Bytes::truncate` does so); a call that is to return
/// bytes the value does not hold has to panic.
fn seg_op_ignorable(op: &str) -> bool {
    matches!(op, "split_to" | "split_off" | "truncate" | "advance")
}

/// The number of bytes (or the offset) the operation needs the value to hold.
fn seg_need(op: &str, n: usize) -> usize {
    match op {
        "get_u8" => 1,
        "get_u16" => 2,
        "get_u32" => 4,
        _ => n,
    }
}

/// The operations that take no argument (asked with `n` = 0 only).
fn seg_op_nullary(op: &str) -> bool {
    op.starts_with("get_")
}

/// What a `CowBytes` operation returns.
enum SegRet<'a> {
    Nothing,
    Seg(CowBytes<'a>),
    Copied(Vec<u8>),
    Num(u64),
}

/// One `CowBytes` operation: (response line, value afterwards (None after a panic), oracle failure).
fn seg_step<'a>(c: &CowBytes<'a>, op: &str, n: usize) -> (String, Option<CowBytes<'a>>, Option<(&'static str, String)>) {
    let v: Vec<u8> = c.as_ref().to_vec();
    let mut d = c.clone();
    let got = catch(|| match op {
        "split_to" => SegRet::Seg(d.split_to(n)),
        "split_off" => SegRet::Seg(d.split_off(n)),
        "truncate" => {
            d.truncate(n);
            SegRet::Nothing
        }
        "advance" => {
            d.advance(n);
            SegRet::Nothing
        }
        "copy_to_bytes" => SegRet::Copied(d.copy_to_bytes(n).to_vec()),
        "copy_to_slice" => {
            let mut dst = vec![0xA5u8; n];
            d.copy_to_slice(&mut dst);
            SegRet::Copied(dst)
        }
        "get_u8" => SegRet::Num(u64::from(d.get_u8())),
        "get_u16" => SegRet::Num(u64::from(d.get_u16())),
        "get_u32" => SegRet::Num(u64::from(d.get_u32())),
        _ => unreachable!(),
    });
    let after = seg_of(&d);
    let need = seg_need(op, n);
    let in_range = need <= v.len();
    let be = |b: &[u8]| b.iter().fold(0u64, |a, x| a * 256 + u64::from(*x));
    // reference: the plain vector
    let (exp_self, exp_ret, exp_num): (Vec<u8>, Option<Vec<u8>>, Option<u64>) = if in_range {
        match op {
            "split_to" | "copy_to_bytes" | "copy_to_slice" => (v[n..].to_vec(), Some(v[..n].to_vec()), None),
            "split_off" => (v[..n].to_vec(), Some(v[n..].to_vec()), None),
            "truncate" => (v[..n].to_vec(), None, None),
            "get_u8" | "get_u16" | "get_u32" => (v[need..].to_vec(), None, Some(be(&v[..need]))),
            _ => (v[n..].to_vec(), None, None),
        }
    } else {
        (v.clone(), None, None)
    };
    let what = format!("{} {op} {n}", seg_text(c.is_static(), &v));
    let mut fail = None;
    let accessors_ok = |x: &CowBytes<'_>| {
        x.len() == x.as_ref().len()
            && x.remaining() == x.as_ref().len()
            && x.chunk() == x.as_ref()
            && x.is_empty() == x.as_ref().is_empty()
            && x.has_remaining() != x.as_ref().is_empty()
            && IOV_SLOTS.iter().all(|k| iov_ok(&vectored(x, *k), *k, x.as_ref()).is_ok())
    };
    let line = match &got {
        Err(_) => {
            if in_range {
                fail = Some(("seg-panic-in-range", format!("`{what}` panicked although the argument is in range")));
            } else if after.1 != v || !accessors_ok(&d) {
                fail = Some(("seg-panic-left-inconsistent", format!("`{what}` panicked and left {}", hexd(&after.1))));
            }
            format!("panic {}", seg_text(after.0, &after.1))
        }
        Ok(ret) => {
            let (ret_bytes, ret_num, ret_text): (Option<Vec<u8>>, Option<u64>, String) = match ret {
                SegRet::Nothing => (None, None, "-".to_string()),
                SegRet::Seg(r) => {
                    let x = seg_of(r);
                    let t = seg_text(x.0, &x.1);
                    (Some(x.1), None, t)
                }
                SegRet::Copied(b) => (Some(b.clone()), None, format!("b:{}", hexd(b))),
                SegRet::Num(k) => (None, Some(*k), format!("n:{k}")),
            };
            if after.1 != exp_self || !accessors_ok(&d) {
                fail = Some(("seg-contents", format!("`{what}` left {} (len {}), the byte vector gives {}", hexd(&after.1), d.len(), hexd(&exp_self))));
            } else if !in_range && !seg_op_ignorable(op) {
                fail = Some(("seg-out-of-range-accepted", format!("`{what}` asks for more bytes than the value holds and did not panic")));
            } else if in_range && (ret_bytes != exp_ret || ret_num != exp_num) {
                fail = Some(("seg-returned", format!("`{what}` returned {ret_text}, the byte vector gives {:?} / {:?}", exp_ret.as_ref().map(|x| hexd(x)), exp_num)));
            } else if let SegRet::Seg(r) = ret {
                if !accessors_ok(r) || r.is_static() != c.is_static() {
                    fail = Some(("seg-returned", format!("`{what}` returned an inconsistent value")));
                }
            }
            format!("ok {} {}", seg_text(after.0, &after.1), ret_text)
        }
    };
    (line, got.is_ok().then_some(d), fail)
}

struct CowCtx {
    reqs: Vec<String>,
    impls: Vec<String>,
    seen: HashSet<String>,
    fails: Vec<(String, &'static str, String, Value)>,
}

impl CowCtx {
    fn line(&mut self, req: String, resp: String) {
        if self.seen.insert(req.clone()) {
            self.reqs.push(req);
            self.impls.push(resp);
        }
    }
}

fn seg_dfs(c: &CowBytes<'_>, depth: usize, path: &mut Vec<String>, origin: &str, cx: &mut CowCtx, rep: &mut Report) {
    let v = c.as_ref().to_vec();
    for op in SEG_OPS {
        for n in 0..=(if seg_op_nullary(op) { 0 } else { v.len() + 1 }) {
            let (line, next, fail) = seg_step(c, op, n);
            let need = seg_need(op, n);
            let req = format!("seg {} {op} {n}", seg_text(c.is_static(), &v));
            path.push(format!("{op} {n}"));
            rep.case((need <= v.len() && !v.is_empty()).then(|| pvh::fnv(format!("{origin} {}", path.join(" ; ")).as_bytes())));
            rep.count(&format!("cow/{op}/{}", if line.starts_with("panic") { "panic" } else if need > v.len() { "unchanged" } else { "ok" }));
            // borrowed and owned must give the same bytes (an out-of-range argument may panic in one
            // and be ignored in the other: both are allowed)
            let twin = mk_cow(!c.is_static(), &v);
            let (tline, _, _) = seg_step(&twin, op, n);
            let strip = |l: &str| l.replace("T:", "").replace("S:", "");
            if need <= v.len() && strip(&line) != strip(&tline) {
                cx.fails.push((
                    format!("variants differ: {req}"),
                    "seg-variants",
                    format!("`{req}` gives `{line}` but the other variant gives `{tline}`"),
                    json!({"op": "seg", "seg": seg_text(c.is_static(), &v), "ops": path.clone()}),
                ));
            }
            if need > v.len() && strip(&line) != strip(&tline) {
                rep.count(&format!("cow/{op}/out-of-range: one variant panics, the other ignores it"));
            }
            if let Some((cat, d)) = fail {
                cx.fails.push((format!("{cat}: {origin} ; {}", path.join(" ; ")), cat, d, json!({"op": "seg", "seg": origin, "ops": path.clone()})));
            }
            cx.line(req, line);
            if let Some(nx) = next {
                if depth > 1 {
                    seg_dfs(&nx, depth - 1, path, origin, cx, rep);
                }
            }
            path.pop();
        }
    }
}

fn cow_part(rep: &mut Report, tier: Tier) -> Vec<(String, String)> {
    let mut cx = CowCtx { reqs: vec![], impls: vec![], seen: HashSet::new(), fails: vec![] };
    let (max_len, depth) = match tier {
        Tier::Quick => (4usize, 3usize),
        Tier::Thorough => (6, 4),
    };
    // operations
    for n in 0..=max_len {
        let bytes: Vec<u8> = POOL[1..=n].to_vec();
        for stat in [false, true] {
            let c = mk_cow(stat, pool_slice(&bytes).expect("pool"));
            let origin = seg_text(stat, &bytes);
            seg_dfs(&c, depth, &mut vec![], &origin, &mut cx, rep);
        }
    }
    // accessors, comparisons and hash: borrowed and owned holding the same bytes
    let alphabet = [0x00u8, 0x01, 0x7f, 0xff];
    let mut strings: Vec<Vec<u8>> = vec![vec![]];
    let mut frontier: Vec<Vec<u8>> = vec![vec![]];
    for _ in 0..3 {
        let mut next = vec![];
        for s in &frontier {
            for &a in &alphabet {
                let mut t = s.clone();
                t.push(a);
                next.push(t);
            }
        }
        strings.extend(next.iter().cloned());
        frontier = next;
    }
    strings.push(POOL[..].to_vec());
    strings.push(POOL[..255].to_vec());
    for a in &strings {
        let t = CowBytes::Temporary(a.as_slice());
        let s = CowBytes::Static(owned(a));
        let d = CowBytes::Static(Bytes::from(a.clone()));
        rep.case((!a.is_empty()).then(|| pvh::fnv(format!("acc {}", hex(a)).as_bytes())));
        rep.count("cow/accessors");
        let mut lines = vec![];
        for x in [&t, &s, &d] {
            let br: &[u8] = x.borrow();
            let all_same = x.as_ref() == a.as_slice() && &**x == a.as_slice() && br == a.as_slice() && x.chunk() == a.as_slice();
            let conv = x.clone().into_static();
            let fmt_ok = format!("{x:x}") == hex(a) && format!("{x:X}") == hex(a).to_uppercase();
            let eqs = *x == *a.as_slice() && *x == Bytes::copy_from_slice(a) && *x == *a && x.partial_cmp(a.as_slice()) == Some(std::cmp::Ordering::Equal);
            if !(all_same && conv.as_ref() == a.as_slice() && fmt_ok && eqs && default_hash(x) == default_hash(a.as_slice())) {
                cx.fails.push((
                    format!("accessor: {}", seg_text(x.is_static(), a)),
                    "seg-accessor",
                    format!("an accessor of {} does not give the bytes of the value (as_ref/deref/borrow/chunk {all_same}, hex {fmt_ok}, eq {eqs})", seg_text(x.is_static(), a)),
                    json!({"op": "acc", "seg": seg_text(x.is_static(), a)}),
                ));
            }
            let iov = [vectored(x, IOV_SLOTS[0]), vectored(x, IOV_SLOTS[1]), vectored(x, IOV_SLOTS[2])];
            if x.has_remaining() == a.is_empty() || iov.iter().zip(IOV_SLOTS).any(|(l, k)| iov_ok(l, k, a).is_err()) {
                cx.fails.push((
                    format!("accessor: {}", seg_text(x.is_static(), a)),
                    "seg-accessor",
                    format!("has_remaining() = {} / chunks_vectored = {} of {} do not describe its bytes", x.has_remaining(), iovs_text(&iov), seg_text(x.is_static(), a)),
                    json!({"op": "acc", "seg": seg_text(x.is_static(), a)}),
                ));
            }
            lines.push(format!("len={} empty={} rem={} more={} chunk={} iov={} hash={}", x.len(), x.is_empty(), x.remaining(), x.has_remaining(), hexd(x.chunk()), iovs_text(&iov), hex(&hash_stream(x))));
        }
        if lines[0] != lines[1] || lines[0] != lines[2] {
            cx.fails.push((
                format!("variants differ: acc {}", hexd(a)),
                "seg-variants",
                format!("accessors differ between borrowed and owned for {}: `{}` / `{}` / `{}`", hexd(a), lines[0], lines[1], lines[2]),
                json!({"op": "acc", "seg": seg_text(false, a)}),
            ));
        }
        cx.line(format!("acc {}", seg_text(false, a)), lines[0].clone());
        cx.line(format!("acc {}", seg_text(true, a)), lines[1].clone());
    }
    for a in &strings {
        for b in &strings {
            if a.len() > 3 && b.len() > 3 && a.len() == b.len() {
                continue;
            }
            let want = format!("eq={} ord={}", a == b, ord_text(a.as_slice().partial_cmp(b.as_slice())));
            rep.case(Some(pvh::fnv(format!("cmp {} {}", hex(a), hex(b)).as_bytes())));
            rep.count("cow/compare");
            for (sa, sb) in [(false, false), (false, true), (true, false), (true, true)] {
                let x = mk_cow(sa, a);
                let y = mk_cow(sb, b);
                let by = Bytes::copy_from_slice(b);
                let got = format!("eq={} ord={}", x == y, ord_text(x.partial_cmp(&y)));
                let others = (x == *b.as_slice()) == (a == b)
                    && (x == by) == (a == b)
                    && (x == *b) == (a == b)
                    && x.partial_cmp(b.as_slice()) == a.as_slice().partial_cmp(b.as_slice())
                    && x.partial_cmp(&by) == a.as_slice().partial_cmp(b.as_slice())
                    && ((default_hash(&x) == default_hash(&y)) || a != b);
                if got != want || !others {
                    cx.fails.push((
                        format!("compare: {} {}", seg_text(sa, a), seg_text(sb, b)),
                        "seg-compare",
                        format!("comparing {} with {} gives `{got}`, the byte strings give `{want}` (other comparisons ok: {others})", seg_text(sa, a), seg_text(sb, b)),
                        json!({"op": "cmp", "a": seg_text(sa, a), "b": seg_text(sb, b)}),
                    ));
                }
                cx.line(format!("cmp {} {}", seg_text(sa, a), seg_text(sb, b)), got);
            }
        }
    }
    // views of ONE buffer (the same allocation: nested, overlapping, same start and different lengths):
    // comparisons are still comparisons of the bytes
    {
        let base: Vec<u8> = vec![1, 2, 1, 2, 1, 2, 3];
        let shared = Bytes::from(base.clone());
        let n = base.len();
        for i in 0..=n {
            for j in i..=n {
                for k in 0..=n {
                    for l in k..=n {
                        let (a, b) = (&base[i..j], &base[k..l]);
                        let want = format!("eq={} ord={}", a == b, ord_text(a.partial_cmp(b)));
                        rep.case(Some(pvh::fnv(format!("view {i} {j} {k} {l}").as_bytes())));
                        rep.count("cow/compare-views-of-one-buffer");
                        for (sa, sb) in [(false, false), (false, true), (true, false), (true, true)] {
                            let x = if sa { CowBytes::Static(shared.slice(i..j)) } else { CowBytes::Temporary(a) };
                            let y = if sb { CowBytes::Static(shared.slice(k..l)) } else { CowBytes::Temporary(b) };
                            let got = format!("eq={} ord={}", x == y, ord_text(x.partial_cmp(&y)));
                            let hash_ok = (default_hash(&x) == default_hash(&y)) || a != b;
                            if got != want || !hash_ok {
                                cx.fails.push((
                                    format!("compare views: {}[{i}..{j}] {}[{k}..{l}]", if sa { "S" } else { "T" }, if sb { "S" } else { "T" }),
                                    "seg-compare",
                                    format!("comparing the views [{i}..{j}] = {} and [{k}..{l}] = {} of one buffer {} gives `{got}`, the byte strings give `{want}` (hash consistent: {hash_ok})", hexd(a), hexd(b), hexd(&base)),
                                    json!({"op": "cmpview", "i": i, "j": j, "k": k, "l": l, "sa": sa, "sb": sb}),
                                ));
                            }
                        }
                    }
                }
            }
        }
    }
    for (key, _cat, desc, replay) in cx.fails.drain(..) {
        rep.fail(FailKind::Impl, &key, &desc, replay);
    }
    rep.count_n("cow/distinct driver lines", cx.reqs.len() as u64);
    cx.reqs.into_iter().zip(cx.impls).collect()
}

// ---------------------------------------------------------------------------------------------
// Reporting
// ---------------------------------------------------------------------------------------------

fn report_case_failure(rep: &mut Report, init: &[SegSpec], ops: &[Op], cat: &'static str, desc: &str) {
    if cat == "hidden-state" {
        rep.fail(FailKind::Impl, &format!("hidden-state: {desc}"), desc, json!({"op": "note", "what": desc}));
        return;
    }
    let (si, so) = shrink_case(init.to_vec(), ops.to_vec(), cat);
    let run = run_case(&si, &so);
    let (at, d) = match &run.fail {
        Some((i, _, d)) => (*i, d.clone()),
        None => (0, desc.to_string()),
    };
    let key = format!("{cat}: {}", case_text(&si, &so));
    rep.fail(
        FailKind::Impl,
        &key,
        &d,
        json!({
            "op": "chain-seq",
            "init": segs_text(si.iter().map(|s| (s.stat, s.bytes.as_slice()))),
            "ops": so.iter().map(Op::text).collect::<Vec<_>>(),
            "category": cat,
            "fails_at": at,
            "original": case_text(init, ops),
        }),
    );
}

/// Ask the model for every request line (several driver processes side by side) and compare its
/// answers with what the implementation did.
fn compare_lines(rep: &mut Report, driver: Option<&str>, lines: &[(String, String)]) -> u64 {
    let Some(path) = driver else { return 0 };
    if lines.is_empty() {
        return 0;
    }
    let workers = std::thread::available_parallelism().map_or(2, usize::from).clamp(1, 8).min(lines.len().div_ceil(20_000).max(1));
    let per = lines.len().div_ceil(workers);
    let mut answers: Vec<Vec<String>> = vec![];
    std::thread::scope(|s| {
        let hs: Vec<_> = lines
            .chunks(per)
            .map(|chunk| {
                s.spawn(move || {
                    let mut d = Driver::spawn(path, &[]).expect("start Lean driver");
                    let reqs: Vec<String> = chunk.iter().map(|(q, _)| q.clone()).collect();
                    d.batch(&reqs)
                })
            })
            .collect();
        for h in hs {
            answers.push(h.join().expect("driver worker"));
        }
    });
    let mut i = 0;
    for a in answers {
        for m in a {
            let (req, im) = &lines[i];
            i += 1;
            rep.model_compared += 1;
            if m != *im {
                let short: String = req.chars().take(300).collect();
                rep.fail(FailKind::Model, &short, &format!("model `{m}` vs implementation `{im}`"), json!({"op": "line", "line": req, "model": m, "impl": im}));
            }
        }
    }
    lines.len() as u64
}

fn parse_corpus(text: &str) -> Vec<(Vec<SegSpec>, Vec<Op>)> {
    let mut cases = vec![];
    let mut cur: Option<(Vec<SegSpec>, Vec<Op>)> = None;
    for l in text.lines() {
        let l = l.trim();
        if l.is_empty() || l.starts_with('#') {
            continue;
        }
        if let Some(rest) = l.strip_prefix("chain ") {
            if let Some(c) = cur.take() {
                cases.push(c);
            }
            cur = parse_segs(rest.trim()).map(|s| (s, vec![]));
        } else if let (Some(c), Some(op)) = (cur.as_mut(), Op::parse(l)) {
            c.1.push(op);
        }
    }
    if let Some(c) = cur {
        cases.push(c);
    }
    cases
}

fn replay(path: &str) -> i32 {
    let text = std::fs::read_to_string(path).expect("read replay file");
    let v: Value = serde_json::from_str(&text).expect("replay json");
    let rp = if v.get("replay").is_some() { &v["replay"] } else { &v };
    match rp["op"].as_str() {
        Some("chain-seq") => {
            let init = parse_segs(rp["init"].as_str().expect("init")).expect("segments");
            let ops: Vec<Op> = rp["ops"].as_array().expect("ops").iter().map(|o| Op::parse(o.as_str().expect("op")).expect("op text")).collect();
            println!("{}", case_text(&init, &[]));
            let run = run_case(&init, &ops);
            let mut r = Ref::of(&init);
            for (i, (req, resp)) in run.steps.iter().enumerate() {
                let e = r.apply(&ops[i]);
                println!("  {:<28} implementation: {resp}", ops[i].text());
                println!("  {:<28} byte vector:    {}", "", match e { Exp::Done(_) => r.text(), Exp::Rejected => format!("out of range (panic or unchanged): {}", r.text()) });
                let _ = req;
            }
            match run.fail {
                Some((i, cat, d)) => {
                    println!("FAILS at op {i} [{cat}]: {d}");
                    1
                }
                None => {
                    println!("holds on this input");
                    0
                }
            }
        }
        Some("seg") => {
            let s = parse_seg(rp["seg"].as_str().expect("seg")).expect("seg");
            let mut c = mk_cow(s.stat, &s.bytes);
            let mut rc = 0;
            for o in rp["ops"].as_array().expect("ops") {
                let t: Vec<&str> = o.as_str().expect("op").split_whitespace().collect();
                let (line, next, fail) = seg_step(&c, t[0], t[1].parse().expect("n"));
                println!("  {} {} -> {line}", t[0], t[1]);
                if let Some((cat, d)) = fail {
                    println!("FAILS [{cat}]: {d}");
                    rc = 1;
                }
                match next {
                    Some(n) => c = n,
                    None => break,
                }
            }
            if rc == 0 {
                println!("holds on this input");
            }
            rc
        }
        Some("cmpview") => {
            let g = |k: &str| rp[k].as_u64().expect("index") as usize;
            let (i, j, k, l) = (g("i"), g("j"), g("k"), g("l"));
            let (sa, sb) = (rp["sa"].as_bool().unwrap_or(false), rp["sb"].as_bool().unwrap_or(false));
            let base: Vec<u8> = vec![1, 2, 1, 2, 1, 2, 3];
            let shared = Bytes::from(base.clone());
            let (a, b) = (&base[i..j], &base[k..l]);
            let x = if sa { CowBytes::Static(shared.slice(i..j)) } else { CowBytes::Temporary(a) };
            let y = if sb { CowBytes::Static(shared.slice(k..l)) } else { CowBytes::Temporary(b) };
            let got = format!("eq={} ord={}", x == y, ord_text(x.partial_cmp(&y)));
            let want = format!("eq={} ord={}", a == b, ord_text(a.partial_cmp(b)));
            println!("  views [{i}..{j}] = {} and [{k}..{l}] = {} of one buffer {}: implementation {got}, byte strings {want}", hexd(a), hexd(b), hexd(&base));
            if got == want {
                println!("holds on this input");
                0
            } else {
                println!("FAILS [seg-compare]");
                1
            }
        }
        _ => {
            println!("replay: {rp}");
            println!("(re-run `pvh chain` with the same seed to re-evaluate this case)");
            0
        }
    }
}

fn main() {
    pvh::quiet_panics();
    let args = Args::parse();
    if let Some(p) = &args.replay {
        std::process::exit(replay(p));
    }
    let rule = "operation sequences on LongChain (every sequence up to a depth bound from every chain of <= 3 segments of 1..3 bytes \
in 4 borrowed/owned patterns, arguments at/one before/one past/inside every segment boundary; random sequences of <= 200 ops; the operations are LongChain's mutators and Buf::copy_to_bytes / copy_to_slice / get_u8 / get_u16 / get_u32), and \
CowBytes operation sequences, accessor sets and comparison pairs; one case = one operation sequence (or one accessor set / pair); \
non-trivial = at least one operation of the sequence is in range while the chain holds bytes before or after it; distinct by \
initial chain + operation list";
    let mut rep = Report::new(if args.flag("--light") { "chain-dbgassert" } else { "chain" }, &args, rule);
    let driver = args.driver.as_deref();
    let rng = Rng::new(args.seed);
    let mut steps: HashMap<String, String> = HashMap::new();
    let mut run_lines: Vec<(String, String)> = vec![];

    // corpus first
    for (name, text) in pvh::corpus_files(args.corpus.as_deref()) {
        for (init, ops) in parse_corpus(&text) {
            let run = run_case(&init, &ops);
            rep.case(run.nontrivial.then(|| pvh::fnv(case_text(&init, &ops).as_bytes())));
            rep.count(&format!("corpus/{name}"));
            for (q, a) in &run.steps {
                steps.entry(q.clone()).or_insert_with(|| a.clone());
            }
            if let Some((_, cat, d)) = &run.fail {
                report_case_failure(&mut rep, &init, &ops, cat, d);
            } else {
                run_lines.push((run_req(&init, &ops), run.run_resp.clone()));
            }
        }
    }

    // exhaustive
    let alphabets = [
        // full: empty and non-empty payloads, borrowed and owned
        Alphabet { push: vec![(false, 0), (true, 0), (false, 1), (true, 2)], insert: vec![(true, 0), (false, 2), (true, 1)], buf: false },
        // reduced (deeper levels)
        Alphabet { push: vec![(true, 0), (false, 2)], insert: vec![(false, 0), (true, 1)], buf: false },
        // buf pass: the consuming `Buf` methods next to every old operation, fewer payloads
        Alphabet { push: vec![(false, 2), (true, 1)], insert: vec![(true, 2)], buf: true },
    ];
    let all = initial_chains(3, 3);
    let deep: Vec<Vec<usize>> = vec![vec![], vec![1], vec![3], vec![2, 1], vec![1, 3], vec![3, 2, 1], vec![1, 1, 1], vec![2, 3, 3]];
    let is_deep = |c: &Vec<SegSpec>| deep.iter().any(|d| *d == c.iter().map(|s| s.bytes.len()).collect::<Vec<_>>());
    // mixed = borrowed and owned alternate (or the single segment is borrowed)
    let is_mixed = |c: &Vec<SegSpec>| c.iter().enumerate().all(|(i, s)| s.stat == (i % 2 == 1));
    let mut jobs: Vec<(Vec<SegSpec>, usize, usize)> = vec![];
    // (depth from every chain, depth from the `deep` chains, depth from the mixed `deep` chains over
    //  the reduced payload alphabet, all steps below this depth go to the model, sampling of deeper steps)
    // `--light`: the second pass of bin/check, built with the repo's debug assertions (LongChain's own
    // `verify_invariants`) and overflow checks switched on as additional oracles
    let light = args.flag("--light");
    let (d_all, d_deep, d_reduced, keep_depth, sample) = match (args.tier, light) {
        (Tier::Quick, false) => (3, 3, 4, 2, 3),
        (Tier::Thorough, false) => (4, 4, 5, 3, 60),
        (Tier::Quick, true) => (2, 2, 3, 2, 4),
        (Tier::Thorough, true) => (3, 3, 4, 2, 8),
    };
    // buf pass: depth from every chain, depth from the `deep` chains (all four tag patterns)
    let (b_all, b_deep) = match (args.tier, light) {
        (Tier::Quick, false) => (2, 3),
        (Tier::Thorough, false) => (3, 4),
        (Tier::Quick, true) => (2, 2),
        (Tier::Thorough, true) => (2, 3),
    };
    if light {
        rep.notes.push(format!("light pass (debug assertions {}): LongChain::verify_invariants and overflow checks act as additional oracles", if cfg!(debug_assertions) { "ON" } else { "off" }));
    }
    if let Some(d) = args.opt("--depth").and_then(|s| s.parse::<usize>().ok()) {
        for c in &all {
            jobs.push((c.clone(), d, 0));
        }
    } else {
        for c in &all {
            jobs.push((c.clone(), if is_deep(c) { d_deep } else { d_all }, 0));
            if is_deep(c) && is_mixed(c) && d_reduced > d_deep {
                jobs.push((c.clone(), d_reduced, 1));
            }
            jobs.push((c.clone(), if is_deep(c) { b_deep } else { b_all }, 2));
        }
    }
    // biggest jobs first (better load balance); the order is fixed
    jobs.sort_by_key(|(c, d, a)| (std::cmp::Reverse(*d), *a, c.len()));
    let threads = std::thread::available_parallelism().map_or(4, usize::from).min(16);
    let t0 = std::time::Instant::now();
    let acc = exhaustive_part(&jobs, &alphabets, threads, keep_depth, sample);
    rep.notes.push(format!(
        "exhaustive part: {} initial chains (<= 3 segments of 1..3 bytes; all-borrowed, all-owned and both alternating patterns); every operation sequence of length <= {d_all} from each (<= {d_deep} from the {} chains with segment lengths {:?}), and every sequence of length <= {d_reduced} over a reduced payload alphabet from the {} alternating ones of these; {} sequences in {:.1}s on {threads} threads",
        all.len(),
        all.iter().filter(|c| is_deep(c)).count(),
        deep,
        all.iter().filter(|c| is_deep(c) && is_mixed(c)).count(),
        acc.evals,
        t0.elapsed().as_secs_f64()
    ));
    rep.notes.push(format!(
        "buf pass (part of the exhaustive part): from each of the same initial chains every sequence of length <= {b_all} (<= {b_deep} from the {} chains named above) over copy_to_bytes / copy_to_slice (at, one before, one past and inside every segment boundary), get_u8 / get_u16 / get_u32 and every old operation with a reduced payload alphabet; has_remaining and chunks_vectored (0, 1, 3 slots) are observed after every operation of every part",
        all.iter().filter(|c| is_deep(c)).count()
    ));
    rep.notes.push(format!(
        "every step of the exhaustive part is checked against the byte vector; {} distinct (state, operation) steps occurred; sent to the model: all those met within the first {keep_depth} operations of a sequence and 1 in {sample} of the deeper ones (by fingerprint): {} lines{}",
        acc.seen.len(),
        acc.kept.len(),
        if acc.seen_overflow > 0 { format!("; {} steps beyond the fingerprint table cap were not de-duplicated", acc.seen_overflow) } else { String::new() }
    ));
    rep.evaluations += acc.evals;
    for (k, row) in acc.outcomes.iter().enumerate() {
        for (j, n) in row.iter().enumerate() {
            if *n > 0 {
                rep.count_n(&format!("exhaustive/{}/{}", KINDS[k], ["accepted", "rejected-panic", "rejected-unchanged"][j]), *n);
            }
        }
    }
    for (d, n) in &acc.depth_hist {
        rep.count_n(&format!("exhaustive/sequences of length {d}"), *n);
    }
    if acc.nontrivial_overflow > 0 {
        rep.notes.push(format!("{} further non-trivial sequences were evaluated but not fingerprinted (table cap {NONTRIVIAL_CAP})", acc.nontrivial_overflow));
    }
    rep.nontrivial.extend(acc.nontrivial.iter().copied());
    let mut fails = acc.fails;
    fails.sort_by(|a, b| (a.2, a.1.len(), case_text(&a.0, &a.1)).cmp(&(b.2, b.1.len(), case_text(&b.0, &b.1))));
    let mut per_cat: BTreeMap<&str, usize> = BTreeMap::new();
    for (init, ops, cat, d) in &fails {
        let n = per_cat.entry(cat).or_insert(0);
        *n += 1;
        if *n <= 3 {
            report_case_failure(&mut rep, init, ops, cat, d);
        }
    }
    for (cat, n) in &acc.fail_count {
        rep.count_n(&format!("failures/{cat}"), *n);
    }
    for (q, a) in acc.kept {
        steps.entry(q).or_insert(a);
    }

    // random
    let (n_random, n_random_steps) = match (args.tier, light) {
        (Tier::Quick, false) => (600, 600),
        (Tier::Thorough, false) => (40_000, 4_000),
        (Tier::Quick, true) => (300, 100),
        (Tier::Thorough, true) => (8_000, 500),
    };
    let mut r2 = rng.fork(2);
    let mut random_fail_cats: BTreeMap<&str, usize> = BTreeMap::new();
    let mut random_steps = 0u64;
    for i in 0..n_random {
        let (init, ops) = gen_case(&mut r2);
        let run = run_case(&init, &ops);
        rep.case(run.nontrivial.then(|| pvh::fnv(case_text(&init, &ops).as_bytes())));
        rep.count(&format!("random/length {}", match ops.len() { 0..=7 => "1-7", 8..=59 => "8-59", _ => "60-200" }));
        rep.count(if run.run_resp.starts_with("panic") { "random/ended by a panic" } else { "random/ran to the end" });
        for (k, o) in &run.outcomes {
            rep.count(&format!("random/{}/{}", KINDS[*k], ["accepted", "rejected-panic", "rejected-unchanged"][*o]));
        }
        if i < n_random_steps {
            for (q, a) in &run.steps {
                random_steps += 1;
                steps.entry(q.clone()).or_insert_with(|| a.clone());
            }
        }
        // the same sequence with every borrowed segment owned and vice versa: same bytes everywhere
        {
            let flip = |s: &SegSpec| SegSpec { stat: !s.stat, bytes: s.bytes.clone() };
            let finit: Vec<SegSpec> = init.iter().map(flip).collect();
            let fops: Vec<Op> = ops
                .iter()
                .map(|o| match o {
                    Op::Push(s) => Op::Push(flip(s)),
                    Op::Insert(i, s) => Op::Insert(*i, flip(s)),
                    other => other.clone(),
                })
                .collect();
            let run2 = run_case(&finit, &fops);
            let strip = |l: &str| l.replace("T:", "").replace("S:", "");
            let differ = run.steps.len() != run2.steps.len()
                || run.steps.iter().zip(&run2.steps).any(|(a, b)| strip(&a.1) != strip(&b.1))
                || strip(&run.run_resp) != strip(&run2.run_resp);
            rep.count("random/replayed with borrowed and owned swapped");
            if differ && run.fail.is_none() && run2.fail.is_none() {
                let k = run.steps.iter().zip(&run2.steps).position(|(a, b)| strip(&a.1) != strip(&b.1)).unwrap_or(0);
                rep.fail(
                    FailKind::Impl,
                    &format!("variants-differ: {}", case_text(&init, &ops[..(k + 1).min(ops.len())]).chars().take(300).collect::<String>()),
                    &format!("the same sequence with borrowed and owned segments swapped behaves differently at op {k}: `{}` vs `{}`", run.steps.get(k).map_or("", |x| x.1.as_str()), run2.steps.get(k).map_or("", |x| x.1.as_str())),
                    json!({"op": "chain-seq", "init": segs_text(init.iter().map(|s| (s.stat, s.bytes.as_slice()))), "ops": ops.iter().map(Op::text).collect::<Vec<_>>(), "category": "variants-differ"}),
                );
            }
        }
        if let Some((_, cat, d)) = &run.fail {
            let n = random_fail_cats.entry(cat).or_insert(0);
            *n += 1;
            if *n <= 3 {
                report_case_failure(&mut rep, &init, &ops, cat, d);
            }
        } else {
            run_lines.push((run_req(&init, &ops), run.run_resp.clone()));
        }
        if i < 3 {
            let cut = |t: String| if t.len() > 200 { format!("{}...", &t[..200]) } else { t };
            rep.sample(json!({"case": cut(case_text(&init, &ops[..ops.len().min(6)])), "ops": ops.len(), "result": cut(run.run_resp.clone())}));
        }
    }
    rep.notes.push(format!(
        "random part: {n_random} sequences of <= 200 operations, each compared with the model as a whole through Chain.run; the {random_steps} single steps of the first {n_random_steps} sequences also one by one"
    ));

    // model: every kept (state, op) step, every whole sequence through `run`, the CowBytes lines
    let mut step_lines: Vec<(String, String)> = steps.into_iter().collect();
    step_lines.sort();
    for (q, a) in step_lines.iter().filter(|(q, _)| q.len() < 60).take(6) {
        rep.sample(json!({"step": q, "impl": a}));
    }
    let t1 = std::time::Instant::now();
    let mut sent = 0;
    rep.count_n("model/single steps", step_lines.len() as u64);
    sent += compare_lines(&mut rep, driver, &step_lines);
    rep.count_n("model/whole sequences (Chain.run)", run_lines.len() as u64);
    sent += compare_lines(&mut rep, driver, &run_lines);
    let cow_lines = cow_part(&mut rep, args.tier);
    rep.count_n("model/CowBytes operations, accessors, comparisons", cow_lines.len() as u64);
    sent += compare_lines(&mut rep, driver, &cow_lines);

    rep.exhaustive = false; // exhaustive only up to the stated depth, not over the quantifier
    if driver.is_some() {
        rep.notes.push(format!("driver lines: {sent} in {:.1}s", t1.elapsed().as_secs_f64()));
    }
    rep.finish(&args);
    std::process::exit(i32::from(rep.has_failures()));
}
