//! C18: the real SOCKS4/4a/5 helpers (`penguin_socks::{v4, v5}`) against the Lean model (`drv_socks`)
//! and against builders / parsers written from RFC 1928 and the SOCKS4/4a protocol notes (below).
//!
//! Every case is one *op line* (the same text is the driver request, the corpus entry and the replay):
//!   r5|r4|am <bytes> <eof>     run v5::read_request / v4::read_request / v5::read_auth_methods on the
//!                              bytes; eof=1: the reader sees end of input after them (Cursor),
//!                              eof=0: the reader is left waiting (tokio duplex, writer kept open)
//!   r5p|r4p|amp <bytes> <eof>  the same for EVERY prefix of the bytes (answers run-length encoded)
//!   wr5 <rep> <4|6> <addr> <port> | wru <rep> | wam <method> | wr4 <rep>      the reply writers
//!   udpr <4|6> <addr> <port> <data>    v5::udp_relay_response
//!   udpp <bytes>                       v5::parse_udp_relay_header
//!   render <atyp> <raw>                textual form of an address as the readers return it
//!   udpc <bytes> | spec5|specreply5|specudp <first> <atyp> <raw> <port> | spec4 … | spec4a … | specgreeting … |
//!   specreply4 …                       Lean `Spec` functions vs. this file's RFC builders / client parser
//!
//! Canonical reader answer: `done <cmd> <hosthex> <port> <consumed> <writtenhex>` | `pending` |
//! `err <kind> <writtenhex>`.
//!
//! Non-trivial case: a reader run whose input gets past the first byte (version / command /
//! method count), any writer call, any UDP build, a UDP parse of at least 4 bytes.

use penguin_socks::{Error, v4, v5};
use pvh::{Args, Driver, FailKind, Report, Rng, Tier, catch, fnv, hex, hexd, json, shrink_bytes, unhex};
use std::future::Future;
use std::net::{IpAddr, Ipv4Addr, Ipv6Addr, SocketAddr};
use std::pin::{Pin, pin};
use std::task::{Context, Poll, Waker};
use tokio::io::{AsyncBufRead, AsyncRead, AsyncWrite, BufReader, ReadBuf};

// ---------------------------------------------------------------------------------------------
// Written from RFC 1928 (sections 3-7) and from SOCKS4.protocol / SOCKS4A.protocol only.
// ---------------------------------------------------------------------------------------------

/// `ATYP | DST.ADDR` of RFC 1928 section 5: 1 = 4 octets, 3 = length octet + name, 4 = 16 octets.
fn rfc_addr(atyp: u8, raw: &[u8]) -> Vec<u8> {
    let mut v = vec![atyp];
    if atyp == 3 {
        v.push(u8::try_from(raw.len()).expect("domain name <= 255 octets"));
    }
    v.extend_from_slice(raw);
    v
}

/// `VER CMD RSV ATYP DST.ADDR DST.PORT` (section 4).
fn rfc_request5(cmd: u8, atyp: u8, raw: &[u8], port: u16) -> Vec<u8> {
    let mut v = vec![0x05, cmd, 0x00];
    v.extend(rfc_addr(atyp, raw));
    v.extend_from_slice(&port.to_be_bytes());
    v
}

/// `VER REP RSV ATYP BND.ADDR BND.PORT` (section 6).
fn rfc_reply5(rep: u8, atyp: u8, raw: &[u8], port: u16) -> Vec<u8> {
    let mut v = vec![0x05, rep, 0x00];
    v.extend(rfc_addr(atyp, raw));
    v.extend_from_slice(&port.to_be_bytes());
    v
}

/// `RSV(2) FRAG ATYP DST.ADDR DST.PORT` (section 7), stand-alone datagram (FRAG = 0).
fn rfc_udp_header(atyp: u8, raw: &[u8], port: u16) -> Vec<u8> {
    let mut v = vec![0x00, 0x00, 0x00];
    v.extend(rfc_addr(atyp, raw));
    v.extend_from_slice(&port.to_be_bytes());
    v
}

/// `VER NMETHODS METHODS` (section 3).
fn rfc_greeting(methods: &[u8]) -> Vec<u8> {
    let mut v = vec![0x05, u8::try_from(methods.len()).expect("<= 255 methods")];
    v.extend_from_slice(methods);
    v
}

/// SOCKS4: `VN CD DSTPORT DSTIP USERID NULL`.
fn s4_request(cmd: u8, port: u16, ip: [u8; 4], userid: &[u8]) -> Vec<u8> {
    let mut v = vec![0x04, cmd];
    v.extend_from_slice(&port.to_be_bytes());
    v.extend_from_slice(&ip);
    v.extend_from_slice(userid);
    v.push(0);
    v
}

/// SOCKS4a: DSTIP = 0.0.0.x with x != 0, and the domain name follows the user id, NUL-terminated.
fn s4a_request(cmd: u8, port: u16, x: u8, userid: &[u8], domain: &[u8]) -> Vec<u8> {
    let mut v = s4_request(cmd, port, [0, 0, 0, x], userid);
    v.extend_from_slice(domain);
    v.push(0);
    v
}

/// SOCKS4 reply: `VN(=0) CD DSTPORT DSTIP`, the last two ignored by the client.
fn s4_reply(cd: u8) -> Vec<u8> {
    vec![0x00, cd, 0, 0, 0, 0, 0, 0]
}

/// What a conforming SOCKS5 client does with a datagram from the relay: RSV, FRAG (only stand-alone
/// datagrams are delivered directly), ATYP, address of that type, port, the rest is the payload.
fn client_parse_udp(b: &[u8]) -> Option<(u8, Vec<u8>, u16, Vec<u8>)> {
    if b.len() < 4 || b[2] != 0 {
        return None;
    }
    let (atyp, p) = (b[3], &b[4..]);
    let (alen, p) = match atyp {
        1 => (4, p),
        4 => (16, p),
        3 => (usize::from(*p.first()?), &p[1..]),
        _ => return None,
    };
    if p.len() < alen + 2 {
        return None;
    }
    Some((atyp, p[..alen].to_vec(), u16::from_be_bytes([p[alen], p[alen + 1]]), p[alen + 2..].to_vec()))
}

/// What the three request grammars say about an arbitrary byte string.
#[derive(Clone, Debug, PartialEq, Eq)]
enum Ref {
    /// A complete message followed by `bytes.len() - len` further bytes.
    Req { cmd: u8, atyp: u8, raw: Vec<u8>, port: u16, len: usize },
    Methods { methods: Vec<u8>, len: usize },
    /// A strict prefix of some well-formed message.
    Incomplete,
    /// No well-formed message starts like this; the documented error kind and reply bytes.
    Invalid { kind: String, reply: Vec<u8> },
}

fn ref5(b: &[u8]) -> Ref {
    if b.is_empty() {
        return Ref::Incomplete;
    }
    if b[0] != 5 {
        return Ref::Invalid { kind: format!("version:{}", b[0]), reply: vec![] };
    }
    if b.len() < 4 {
        return Ref::Incomplete;
    }
    let (cmd, atyp) = (b[1], b[3]); // b[2] is RSV: not validated by servers (noted as a leniency)
    let (alen, off) = match atyp {
        1 => (4, 4),
        4 => (16, 4),
        3 => match b.get(4) {
            Some(l) => (usize::from(*l), 5),
            None => return Ref::Incomplete,
        },
        t => return Ref::Invalid { kind: format!("atyp:{t}"), reply: rfc_reply5(0x08, 1, &[0, 0, 0, 0], 0) },
    };
    if b.len() < off + alen + 2 {
        return Ref::Incomplete;
    }
    let port = u16::from_be_bytes([b[off + alen], b[off + alen + 1]]);
    Ref::Req { cmd, atyp, raw: b[off..off + alen].to_vec(), port, len: off + alen + 2 }
}

/// The bytes after `VN` of a SOCKS4/4a request.
fn ref4(b: &[u8]) -> Ref {
    if b.len() < 7 {
        return Ref::Incomplete;
    }
    let cmd = b[0];
    let port = u16::from_be_bytes([b[1], b[2]]);
    let ip = [b[3], b[4], b[5], b[6]];
    let Some(ulen) = b[7..].iter().position(|x| *x == 0) else { return Ref::Incomplete };
    let after = 7 + ulen + 1;
    if ip[0] == 0 && ip[1] == 0 && ip[2] == 0 && ip[3] != 0 {
        let Some(dlen) = b[after..].iter().position(|x| *x == 0) else { return Ref::Incomplete };
        Ref::Req { cmd, atyp: 3, raw: b[after..after + dlen].to_vec(), port, len: after + dlen + 1 }
    } else {
        Ref::Req { cmd, atyp: 1, raw: ip.to_vec(), port, len: after }
    }
}

/// The bytes after `VER` of a method-selection message.
fn ref_auth(b: &[u8]) -> Ref {
    match b.first() {
        None => Ref::Incomplete,
        Some(n) if b.len() < 1 + usize::from(*n) => Ref::Incomplete,
        Some(n) => Ref::Methods { methods: b[1..=usize::from(*n)].to_vec(), len: 1 + usize::from(*n) },
    }
}

/// `Ok((atyp, raw, port, data))` or the documented error kind for a datagram sent to the relay.
fn ref_udp(b: &[u8]) -> Result<(u8, Vec<u8>, u16, Vec<u8>), String> {
    if b.len() < 4 {
        return Err("parse-associate".into());
    }
    if b[2] != 0 {
        return Err("fragmented".into());
    }
    match b[3] {
        1 | 3 | 4 => client_parse_udp(b).ok_or_else(|| "parse-associate".to_string()),
        t => Err(format!("unknown-atyp:{t}")),
    }
}

/// Does the host the implementation returned denote `(atyp, raw)`?
fn host_matches(atyp: u8, raw: &[u8], host: &[u8]) -> bool {
    let parsed = std::str::from_utf8(host).ok().and_then(|s| s.parse::<IpAddr>().ok());
    match atyp {
        1 => parsed == <[u8; 4]>::try_from(raw).ok().map(|o| IpAddr::V4(Ipv4Addr::from(o))),
        4 => parsed == <[u8; 16]>::try_from(raw).ok().map(|o| IpAddr::V6(Ipv6Addr::from(o))),
        _ => host == raw,
    }
}

// ---------------------------------------------------------------------------------------------
// Implementation side
// ---------------------------------------------------------------------------------------------

#[derive(Clone, Copy, Debug, PartialEq, Eq)]
enum Which {
    V5,
    V4,
    Auth,
}

impl Which {
    fn op(self) -> &'static str {
        match self {
            Which::V5 => "r5",
            Which::V4 => "r4",
            Which::Auth => "am",
        }
    }
    fn reference(self, b: &[u8]) -> Ref {
        match self {
            Which::V5 => ref5(b),
            Which::V4 => ref4(b),
            Which::Auth => ref_auth(b),
        }
    }
}

#[derive(Clone, Debug, PartialEq, Eq)]
enum Payload {
    Req(u8, Vec<u8>, u16),
    Methods(Vec<u8>),
}

#[derive(Clone, Debug, PartialEq, Eq)]
enum Outcome {
    Done { payload: Payload, consumed: usize, written: Vec<u8> },
    Pending,
    Err { kind: String, written: Vec<u8> },
    Panic(String),
}

impl Outcome {
    fn line(&self) -> String {
        match self {
            Outcome::Done { payload: Payload::Req(c, h, p), consumed, written } => {
                format!("done {c} {} {p} {consumed} {}", hexd(h), hexd(written))
            }
            Outcome::Done { payload: Payload::Methods(m), consumed, written } => {
                format!("done {} {consumed} {}", hexd(m), hexd(written))
            }
            Outcome::Pending => "pending".into(),
            Outcome::Err { kind, written } => format!("err {kind} {}", hexd(written)),
            Outcome::Panic(p) => format!("panic {}", p.replace(|c: char| c.is_whitespace() || c == ';' || c == '*', "_")),
        }
    }
    fn bucket(&self) -> String {
        match self {
            Outcome::Done { .. } => "done".into(),
            Outcome::Pending => "pending".into(),
            Outcome::Err { kind, .. } => format!("err-{}", kind.split(':').next().unwrap_or("?")),
            Outcome::Panic(_) => "panic".into(),
        }
    }
}

fn err_kind(e: &Error) -> String {
    match e {
        Error::SocksVersion(v) => format!("version:{v}"),
        Error::InvalidCommand(c) => format!("command:{c}"),
        Error::AddressType(t) => format!("atyp:{t}"),
        Error::ProcessSocksRequest(ctx, io) => {
            let k = if io.kind() == std::io::ErrorKind::UnexpectedEof { "eof".to_string() } else { format!("io-{:?}", io.kind()) };
            format!("{k}:{}", ctx.replace(' ', "-"))
        }
        Error::ParseAssociate => "parse-associate".into(),
        Error::FragmentedUdp => "fragmented".into(),
        Error::UnknownAddressType(y) => format!("unknown-atyp:{y}"),
    }
}

async fn call<S: AsyncBufRead + AsyncWrite + Unpin>(which: Which, s: &mut S) -> Result<Payload, Error> {
    match which {
        Which::V5 => v5::read_request(s).await.map(|(c, h, p)| Payload::Req(c, h, p)),
        Which::V4 => v4::read_request(s).await.map(|(c, h, p)| Payload::Req(c, h, p)),
        Which::Auth => v5::read_auth_methods(s).await.map(Payload::Methods),
    }
}

fn poll_now<F: Future>(f: Pin<&mut F>) -> Poll<F::Output> {
    let mut cx = Context::from_waker(Waker::noop());
    f.poll(&mut cx)
}

/// Everything that can be read right now from `r` without waiting.
fn drain<R: AsyncRead + Unpin>(r: &mut R) -> Vec<u8> {
    let mut out = vec![];
    let mut cx = Context::from_waker(Waker::noop());
    loop {
        let mut chunk = [0u8; 4096];
        let mut rb = ReadBuf::new(&mut chunk);
        match Pin::new(&mut *r).poll_read(&mut cx, &mut rb) {
            Poll::Ready(Ok(())) if !rb.filled().is_empty() => out.extend_from_slice(rb.filled()),
            _ => return out,
        }
    }
}

/// The reader sees end of input after `input` (in-memory `Cursor`; replies go to a `Vec`).
fn run_eof(which: Which, input: &[u8]) -> Outcome {
    catch(|| {
        let mut s = tokio::io::join(std::io::Cursor::new(input.to_vec()), Vec::<u8>::new());
        let res = {
            let mut fut = pin!(call(which, &mut s));
            poll_now(fut.as_mut())
        };
        let consumed = usize::try_from(s.reader().position()).expect("position");
        let written = s.writer().clone();
        match res {
            Poll::Pending => Outcome::Pending,
            Poll::Ready(Ok(payload)) => Outcome::Done { payload, consumed, written },
            Poll::Ready(Err(e)) => Outcome::Err { kind: err_kind(&e), written },
        }
    })
    .unwrap_or_else(Outcome::Panic)
}

/// The reader gets `input` and then nothing, the writing side stays open (`tokio::io::duplex`
/// behind a `BufReader`, as at the use site in `client/handle_remote/socks.rs`).
fn run_pending(which: Which, input: &[u8]) -> Outcome {
    catch(|| {
        let (mut ours, theirs) = tokio::io::duplex(input.len() + 64);
        let mut cx = Context::from_waker(Waker::noop());
        let mut off = 0;
        while off < input.len() {
            match Pin::new(&mut ours).poll_write(&mut cx, &input[off..]) {
                Poll::Ready(Ok(n)) if n > 0 => off += n,
                other => panic!("harness: duplex refused the input: {other:?}"),
            }
        }
        let mut s = BufReader::new(theirs);
        let res = {
            let mut fut = pin!(call(which, &mut s));
            let mut r = poll_now(fut.as_mut());
            for _ in 0..2 {
                if r.is_pending() {
                    r = poll_now(fut.as_mut());
                }
            }
            r
        };
        match res {
            Poll::Pending => Outcome::Pending,
            Poll::Ready(r) => {
                let left = s.buffer().len() + drain(s.get_mut()).len();
                let consumed = input.len() - left;
                let written = drain(&mut ours);
                match r {
                    Ok(payload) => Outcome::Done { payload, consumed, written },
                    Err(e) => Outcome::Err { kind: err_kind(&e), written },
                }
            }
        }
    })
    .unwrap_or_else(Outcome::Panic)
}

fn run_reader(which: Which, input: &[u8], eof: bool) -> Outcome {
    if eof { run_eof(which, input) } else { run_pending(which, input) }
}

/// The property's oracle for one reader run. `Some(why)` when the implementation fails it.
fn reader_oracle(which: Which, input: &[u8], eof: bool, out: &Outcome) -> Option<String> {
    if let Outcome::Panic(p) = out {
        return Some(format!("panicked: {p}"));
    }
    let r = which.reference(input);
    let got = out.line();
    match (&r, out) {
        (Ref::Req { cmd, atyp, raw, port, len }, Outcome::Done { payload: Payload::Req(c, h, p), consumed, written }) => {
            if c != cmd || p != port {
                Some(format!("well-formed request: command/port {cmd}/{port} expected, got `{got}`"))
            } else if !host_matches(*atyp, raw, h) {
                Some(format!("well-formed request for address type {atyp} {}: the reader returned host {:?}", hex(raw), String::from_utf8_lossy(h)))
            } else if consumed != len {
                Some(format!("well-formed request of {len} bytes: the reader consumed {consumed}"))
            } else if !written.is_empty() {
                Some(format!("well-formed request: the reader wrote {}", hex(written)))
            } else {
                None
            }
        }
        (Ref::Methods { methods, len }, Outcome::Done { payload: Payload::Methods(m), consumed, written }) => {
            (m != methods || consumed != len || !written.is_empty())
                .then(|| format!("method list {} of {len} bytes expected, got `{got}`", hexd(methods)))
        }
        (Ref::Req { .. } | Ref::Methods { .. }, _) => Some(format!("well-formed message not accepted: `{got}`")),
        (Ref::Incomplete, Outcome::Done { .. }) => Some(format!("truncated message accepted: `{got}`")),
        (Ref::Incomplete, Outcome::Pending) => eof.then(|| "reader still waiting although the input has ended".to_string()),
        (Ref::Incomplete, Outcome::Err { kind, .. }) => {
            if !eof {
                Some(format!("truncated message while more input can come: error `{kind}` instead of waiting"))
            } else if !kind.starts_with("eof:") {
                Some(format!("truncated message at end of input: error `{kind}` is not an unexpected-EOF error"))
            } else {
                None
            }
        }
        (Ref::Invalid { .. }, Outcome::Done { .. }) => Some(format!("malformed message accepted: `{got}`")),
        (Ref::Invalid { .. }, Outcome::Pending) => eof.then(|| "reader still waiting although the input has ended".to_string()),
        (Ref::Invalid { kind, reply }, Outcome::Err { kind: k, written }) => (k != kind || written != reply)
            .then(|| format!("malformed message: error `{kind}` with reply {} expected, got `{got}`", hexd(reply))),
        (_, Outcome::Panic(_)) => unreachable!(),
    }
}

/// Run one of the reply writers into a `Vec<u8>`: the bytes written as hex, or `err <kind>`.
macro_rules! writer_call {
    ($w:ident => $call:expr) => {
        catch(|| {
            let mut buf: Vec<u8> = Vec::new();
            let res = {
                let $w = &mut buf;
                let mut fut = pin!($call);
                poll_now(fut.as_mut())
            };
            match res {
                Poll::Ready(Ok(())) => hexd(&buf),
                Poll::Ready(Err(e)) => format!("err {}", err_kind(&e)),
                Poll::Pending => "pending".to_string(),
            }
        })
    };
}

fn udp_parse_line(bs: &[u8]) -> Result<String, String> {
    catch(|| match v5::parse_udp_relay_header(bytes::Bytes::copy_from_slice(bs)) {
        Ok((h, p, d)) => format!("ok {} {p} {}", hexd(&h), hexd(&d)),
        Err(e) => format!("err {}", err_kind(&e)),
    })
}

fn udp_parse_oracle(bs: &[u8], got: &Result<String, String>) -> Option<String> {
    let line = match got {
        Err(p) => return Some(format!("panicked: {p}")),
        Ok(l) => l,
    };
    match ref_udp(bs) {
        Err(kind) => (*line != format!("err {kind}")).then(|| format!("error `{kind}` expected, got `{line}`")),
        Ok((atyp, raw, port, data)) => {
            let t: Vec<&str> = line.split(' ').collect();
            let ok = t.len() == 4
                && t[0] == "ok"
                && unhex(t[1]).is_some_and(|h| host_matches(atyp, &raw, &h))
                && t[2] == port.to_string()
                && t[3] == hexd(&data);
            (!ok).then(|| format!("datagram for address type {atyp} {} port {port} payload {}: got `{line}`", hex(&raw), hexd(&data)))
        }
    }
}

fn sockaddr(fam: u8, raw: &[u8], port: u16) -> Option<SocketAddr> {
    match fam {
        4 => Some(SocketAddr::from((<[u8; 4]>::try_from(raw).ok()?, port))),
        6 => Some(SocketAddr::from((<[u8; 16]>::try_from(raw).ok()?, port))),
        _ => None,
    }
}

fn atyp_of(fam: u8) -> u8 {
    if fam == 4 { 1 } else { 4 }
}

/// What evaluating one op line on the implementation gave.
struct Eval {
    /// canonical answer, compared with the driver's answer
    line: String,
    /// the implementation fails an oracle: (canonical key, description, replay line)
    fail: Option<(String, String, String)>,
    /// number of implementation runs behind this line, and how many count as non-trivial
    fingerprints: Vec<Option<u64>>,
    buckets: Vec<String>,
    /// `true`: the line only compares a Lean `Spec` function with this file's RFC code
    spec_only: bool,
}

fn rle(lines: &[String]) -> String {
    let mut out = String::new();
    let mut i = 0;
    while i < lines.len() {
        let mut j = i;
        while j < lines.len() && lines[j] == lines[i] {
            j += 1;
        }
        if !out.is_empty() {
            out.push(';');
        }
        out.push_str(&format!("{}*{}", j - i, lines[i]));
        i = j;
    }
    out
}

fn which_of(op: &str) -> Option<(Which, bool)> {
    Some(match op {
        "r5" => (Which::V5, false),
        "r4" => (Which::V4, false),
        "am" => (Which::Auth, false),
        "r5p" => (Which::V5, true),
        "r4p" => (Which::V4, true),
        "amp" => (Which::Auth, true),
        _ => return None,
    })
}

fn reader_nontrivial(which: Which, input: &[u8]) -> bool {
    match which {
        Which::V5 => input.len() >= 2 && input[0] == 5,
        Which::V4 | Which::Auth => input.len() >= 2,
    }
}

fn one_reader_run(which: Which, input: &[u8], eof: bool, ev: &mut Eval) -> String {
    let out = run_reader(which, input, eof);
    ev.fingerprints.push(reader_nontrivial(which, input).then(|| fnv(format!("{} {} {eof}", which.op(), hex(input)).as_bytes())));
    ev.buckets.push(format!("{}/{}/{}", which.op(), if eof { "eof" } else { "open" }, out.bucket()));
    if ev.fail.is_none() {
        if let Some(why) = reader_oracle(which, input, eof, &out) {
            let small = shrink_bytes(input.to_vec(), |c| reader_oracle(which, c, eof, &run_reader(which, c, eof)).is_some());
            let out_s = run_reader(which, &small, eof);
            let why_s = reader_oracle(which, &small, eof, &out_s).unwrap_or_else(|| why.clone());
            let l = format!("{} {} {}", which.op(), hexd(&small), u8::from(eof));
            let desc = if small == input {
                why
            } else {
                format!("{why_s} [shrunk from {} {} {}: {why}]", which.op(), hexd(&input[..input.len().min(80)]), u8::from(eof))
            };
            ev.fail = Some((l.clone(), desc, l));
        }
    }
    out.line()
}

fn eval_line(line: &str) -> Option<Eval> {
    let t: Vec<&str> = line.split_whitespace().collect();
    let mut ev = Eval { line: String::new(), fail: None, fingerprints: vec![], buckets: vec![], spec_only: false };
    let whole = Some(fnv(line.as_bytes()));
    let u8at = |i: usize| t.get(i).and_then(|s| s.parse::<u8>().ok());
    let u16at = |i: usize| t.get(i).and_then(|s| s.parse::<u16>().ok());
    let hexat = |i: usize| t.get(i).and_then(|s| unhex(s));
    match *t.first()? {
        op @ ("r5" | "r4" | "am" | "r5p" | "r4p" | "amp") => {
            let (which, sweep) = which_of(op)?;
            let bs = hexat(1)?;
            let eof = match *t.get(2)? {
                "0" => false,
                "1" => true,
                _ => return None,
            };
            if sweep {
                let lines: Vec<String> = (0..=bs.len()).map(|k| one_reader_run(which, &bs[..k], eof, &mut ev)).collect();
                ev.line = rle(&lines);
            } else {
                ev.line = one_reader_run(which, &bs, eof, &mut ev);
            }
        }
        "wr5" => {
            let (rep, fam, raw, port) = (u8at(1)?, u8at(2)?, hexat(3)?, u16at(4)?);
            let sa = sockaddr(fam, &raw, port)?;
            let got = writer_call!(w => v5::write_response(w, rep, sa));
            let want = hex(&rfc_reply5(rep, atyp_of(fam), &raw, port));
            ev.line = got.clone().unwrap_or_else(|p| format!("panic {p}"));
            if got.as_deref() != Ok(want.as_str()) {
                ev.fail = Some((line.into(), format!("reply per RFC 1928 section 6 is {want}, the writer produced `{}`", ev.line), line.into()));
            }
            ev.fingerprints.push(whole);
            ev.buckets.push(format!("wr5/v{fam}"));
        }
        op @ ("wru" | "wam" | "wr4") => {
            let code = u8at(1)?;
            let (got, want) = match op {
                "wru" => (writer_call!(w => v5::write_response_unspecified(w, code)), rfc_reply5(code, 1, &[0, 0, 0, 0], 0)),
                "wam" => (writer_call!(w => v5::write_auth_method(w, code)), vec![0x05, code]),
                _ => (writer_call!(w => v4::write_response(w, code)), s4_reply(code)),
            };
            ev.line = got.clone().unwrap_or_else(|p| format!("panic {p}"));
            if got.as_deref() != Ok(hex(&want).as_str()) {
                ev.fail = Some((line.into(), format!("the message per the RFC is {}, the writer produced `{}`", hex(&want), ev.line), line.into()));
            }
            ev.fingerprints.push(whole);
            ev.buckets.push(op.to_string());
        }
        "udpr" => {
            let (fam, raw, port, data) = (u8at(1)?, hexat(2)?, u16at(3)?, hexat(4)?);
            let sa = sockaddr(fam, &raw, port)?;
            let run = |d: &[u8]| catch(|| v5::udp_relay_response(sa, d));
            let check = |d: &[u8], got: &Result<Vec<u8>, String>| -> Option<String> {
                match got {
                    Err(p) => Some(format!("panicked: {p}")),
                    Ok(v) => {
                        let want = (atyp_of(fam), raw.clone(), port, d.to_vec());
                        let parsed = client_parse_udp(v);
                        (parsed.as_ref() != Some(&want)).then(|| {
                            format!(
                                "relay datagram {} for {sa} payload {}: a conforming client reads {}",
                                hex(v),
                                hexd(d),
                                parsed.map_or("nothing (unparseable)".to_string(), |(a, r, p, x)| format!("atyp {a} addr {} port {p} payload {}", hex(&r), hexd(&x)))
                            )
                        })
                    }
                }
            };
            let got = run(&data);
            ev.line = got.as_ref().map(|v| hex(v)).unwrap_or_else(|p| format!("panic {p}"));
            if check(&data, &got).is_some() {
                let small = shrink_bytes(data.clone(), |d| check(d, &run(d)).is_some());
                let why = check(&small, &run(&small)).unwrap_or_default();
                let l = format!("udpr {fam} {} {port} {}", hex(&raw), hexd(&small));
                // canonical key: the defect does not depend on the address or payload values
                ev.fail = Some((format!("udpr {fam}"), why, l));
            }
            ev.fingerprints.push(whole);
            ev.buckets.push(format!("udpr/v{fam}/payload-{}", len_bucket(data.len())));
        }
        "udpp" => {
            let bs = hexat(1)?;
            let got = udp_parse_line(&bs);
            ev.line = got.clone().unwrap_or_else(|p| format!("panic {p}"));
            if udp_parse_oracle(&bs, &got).is_some() {
                let small = shrink_bytes(bs.clone(), |c| udp_parse_oracle(c, &udp_parse_line(c)).is_some());
                let why = udp_parse_oracle(&small, &udp_parse_line(&small)).unwrap_or_default();
                let l = format!("udpp {}", hexd(&small));
                ev.fail = Some((l.clone(), why, l));
            }
            ev.fingerprints.push((bs.len() >= 4).then(|| fnv(line.as_bytes())));
            let kind = ev.line.split(' ').nth(1).unwrap_or("?").split(':').next().unwrap_or("?").to_string();
            ev.buckets.push(if ev.line.starts_with("ok ") { "udpp/ok".to_string() } else { format!("udpp/err-{kind}") });
        }
        "render" => {
            let (atyp, raw) = (u8at(1)?, hexat(2)?);
            let text = match atyp {
                1 => Ipv4Addr::from(<[u8; 4]>::try_from(raw.as_slice()).ok()?).to_string().into_bytes(),
                4 => Ipv6Addr::from(<[u8; 16]>::try_from(raw.as_slice()).ok()?).to_string().into_bytes(),
                _ => raw.clone(),
            };
            ev.line = hexd(&text);
            if !host_matches(atyp, &raw, &text) {
                ev.fail = Some((line.into(), "std's textual form does not parse back to the address".into(), line.into()));
            }
            ev.fingerprints.push(whole);
            ev.buckets.push(format!("render/atyp{atyp}"));
        }
        // ---- Lean `Spec` functions against this file's RFC builders / client parser ----
        "udpc" => {
            let bs = hexat(1)?;
            ev.line = match client_parse_udp(&bs) {
                Some((a, r, p, d)) => format!("some {a} {} {p} {}", hexd(&r), hexd(&d)),
                None => "none".into(),
            };
            ev.spec_only = true;
        }
        "spec5" | "specreply5" | "specudp" => {
            let (first, atyp, raw, port) = (u8at(1)?, u8at(2)?, hexat(3)?, u16at(4)?);
            if !matches!((atyp, raw.len()), (1, 4) | (4, 16) | (3, 0..=255)) {
                return None;
            }
            ev.line = hex(&match t[0] {
                "spec5" => rfc_request5(first, atyp, &raw, port),
                "specreply5" => rfc_reply5(first, atyp, &raw, port),
                _ => rfc_udp_header(atyp, &raw, port),
            });
            ev.spec_only = true;
        }
        "specgreeting" => {
            ev.line = hex(&rfc_greeting(&hexat(1)?));
            ev.spec_only = true;
        }
        "spec4" => {
            let (cmd, port, ip, uid) = (u8at(1)?, u16at(2)?, hexat(3)?, hexat(4)?);
            ev.line = hex(&s4_request(cmd, port, <[u8; 4]>::try_from(ip.as_slice()).ok()?, &uid));
            ev.spec_only = true;
        }
        "spec4a" => {
            let (cmd, port, x, uid, dom) = (u8at(1)?, u16at(2)?, u8at(3)?, hexat(4)?, hexat(5)?);
            ev.line = hex(&s4a_request(cmd, port, x, &uid, &dom));
            ev.spec_only = true;
        }
        "specreply4" => {
            ev.line = hex(&s4_reply(u8at(1)?));
            ev.spec_only = true;
        }
        _ => return None,
    }
    if ev.spec_only {
        ev.fingerprints.push(None);
        ev.buckets.push(format!("spec/{}", t[0]));
    }
    Some(ev)
}

fn len_bucket(n: usize) -> &'static str {
    match n {
        0 => "0",
        1..=3 => "1-3",
        4..=255 => "4-255",
        256..=1024 => "256-1024",
        _ => "1025+",
    }
}

struct Ctx {
    rep: Report,
    drv: Option<Driver>,
    queue: Vec<String>,
    queued_bytes: usize,
}

impl Ctx {
    fn push(&mut self, line: String) {
        self.queued_bytes += line.len();
        self.queue.push(line);
        if self.queue.len() >= 2048 || self.queued_bytes > (8 << 20) {
            self.flush();
        }
    }

    fn flush(&mut self) {
        let lines = std::mem::take(&mut self.queue);
        self.queued_bytes = 0;
        if lines.is_empty() {
            return;
        }
        let model = self.drv.as_mut().map(|d| d.batch(&lines));
        for (i, l) in lines.iter().enumerate() {
            let Some(ev) = eval_line(l) else {
                self.rep.fail(FailKind::Model, &format!("harness: unparseable op line {l}"), "harness bug", json!({"line": l}));
                continue;
            };
            for fp in &ev.fingerprints {
                self.rep.case(*fp);
            }
            for b in &ev.buckets {
                self.rep.count(b);
            }
            if let Some((key, desc, replay)) = &ev.fail {
                self.rep.fail(FailKind::Impl, key, desc, json!({"line": replay, "found_in": l}));
            }
            if let Some(m) = &model {
                self.rep.model_compared += ev.fingerprints.len() as u64;
                if m[i] != ev.line {
                    let (ml, il) = first_difference(&m[i], &ev.line);
                    self.rep.fail(
                        FailKind::Model,
                        &format!("model {}", l.chars().take(200).collect::<String>()),
                        &format!("{} `{ml}` vs {} `{il}`", if ev.spec_only { "Lean Spec" } else { "model" }, if ev.spec_only { "harness RFC code" } else { "implementation" }),
                        json!({"line": l, "model": ml, "impl": il}),
                    );
                }
            }
            if self.rep.samples.len() < 12 && (i % 293 == 0) {
                self.rep.sample(json!({"op": l.chars().take(160).collect::<String>(), "impl": ev.line.chars().take(200).collect::<String>()}));
            }
        }
    }
}

/// For run-length encoded answers: the first segment where the two differ.
fn first_difference(a: &str, b: &str) -> (String, String) {
    let (sa, sb): (Vec<&str>, Vec<&str>) = (a.split(';').collect(), b.split(';').collect());
    for i in 0..sa.len().max(sb.len()) {
        let (x, y) = (sa.get(i).copied().unwrap_or("<none>"), sb.get(i).copied().unwrap_or("<none>"));
        if x != y {
            return (format!("[segment {i}] {x}"), format!("[segment {i}] {y}"));
        }
    }
    (a.into(), b.into())
}

// ---------------------------------------------------------------------------------------------
// Generators
// ---------------------------------------------------------------------------------------------

fn port(r: &mut Rng) -> u16 {
    match r.below(7) {
        0 => 0,
        1 => 1,
        2 => 80,
        3 => 0x00ff,
        4 => 0x0100,
        5 => 0xffff,
        _ => r.next() as u16,
    }
}

fn ip4(r: &mut Rng) -> [u8; 4] {
    match r.below(10) {
        0 => [0, 0, 0, 0],
        1 => [127, 0, 0, 1],
        2 => [255, 255, 255, 255],
        3 => [0, 0, 0, r.range(1, 255) as u8], // the SOCKS4a marker
        4 => [0, r.next() as u8, r.next() as u8, r.next() as u8], // first octet 0 but not the marker
        5 => [0, 0, r.range(1, 255) as u8, 0],
        6 => [r.range(1, 255) as u8, 0, 0, 0],
        _ => [r.next() as u8, r.next() as u8, r.next() as u8, r.next() as u8],
    }
}

fn ip6(r: &mut Rng) -> [u8; 16] {
    let mut a = [0u8; 16];
    match r.below(10) {
        0 => {}
        1 => a[15] = 1,
        2 => a = [0xff; 16],
        3 => {
            // IPv4-mapped
            a[10] = 0xff;
            a[11] = 0xff;
            a[12..].copy_from_slice(&ip4(r));
        }
        4 => a[12..].copy_from_slice(&ip4(r)), // IPv4-compatible
        5 | 6 => {
            // runs of zero groups of various lengths and positions
            for g in 0..8 {
                if r.chance(1, 2) {
                    a[2 * g] = if r.chance(1, 2) { 0 } else { r.next() as u8 };
                    a[2 * g + 1] = r.range(1, 255) as u8;
                }
            }
        }
        7 => {
            a[0] = 0x20;
            a[1] = 0x01;
            a[2] = 0x0d;
            a[3] = 0xb8;
            a[15] = r.next() as u8;
        }
        _ => a.copy_from_slice(&r.bytes(16)),
    }
    a
}

fn nulfree(r: &mut Rng, n: usize) -> Vec<u8> {
    (0..n).map(|_| r.range(1, 255) as u8).collect()
}

fn garbage(r: &mut Rng) -> Vec<u8> {
    let n = match r.below(4) {
        0 => 0,
        1 => 1,
        _ => r.range(0, 12) as usize,
    };
    // trailing bytes deliberately look like protocol bytes (NULs, versions, another request)
    (0..n).map(|_| *r.pick(&[0u8, 0, 1, 3, 4, 5, 0xff, 0x61])).collect()
}

/// A well-formed SOCKS5 request with the given address type (domain length as given).
fn gen_req5(r: &mut Rng, cmd: u8, atyp: u8, dlen: usize) -> Vec<u8> {
    let raw = match atyp {
        1 => ip4(r).to_vec(),
        4 => ip6(r).to_vec(),
        _ => {
            if r.chance(1, 2) { r.bytes(dlen) } else { nulfree(r, dlen) }
        }
    };
    rfc_request5(cmd, atyp, &raw, port(r))
}

fn cmd_byte(r: &mut Rng) -> u8 {
    match r.below(4) {
        0 => 1,
        1 => *r.pick(&[2u8, 3]),
        _ => r.next() as u8,
    }
}

fn sweep_or_sample(cx: &mut Ctx, r: &mut Rng, which: Which, bytes: &[u8], sample: usize) {
    if bytes.len() <= 700 {
        for eof in [1, 0] {
            cx.push(format!("{}p {} {eof}", which.op(), hexd(bytes)));
        }
    } else {
        // long inputs: the complete message, the truncation points around every field boundary
        // (computed from the grammar position of the NULs / lengths) and random ones
        let mut ks: Vec<usize> = vec![bytes.len(), bytes.len() - 1, 0, 1, 7, 8];
        for (i, b) in bytes.iter().enumerate() {
            if *b == 0 && i > 6 {
                ks.extend([i, i + 1]);
            }
        }
        for _ in 0..sample {
            ks.push(r.below(bytes.len() as u64 + 1) as usize);
        }
        ks.sort_unstable();
        ks.dedup();
        for k in ks.into_iter().filter(|k| *k <= bytes.len()) {
            for eof in [1, 0] {
                cx.push(format!("{} {} {eof}", which.op(), hexd(&bytes[..k])));
            }
        }
    }
}

fn socks5_part(cx: &mut Ctx, r: &mut Rng, n_random: usize) {
    // every domain length 0..=255, the command byte running through all 256 values
    for dlen in 0..=255usize {
        let cmd = (dlen as u8).wrapping_mul(37).wrapping_add(1);
        let mut b = gen_req5(r, cmd, 3, dlen);
        cx.push(format!("spec5 {cmd} 3 {} {}", hexd(&b[5..5 + dlen]), u16::from_be_bytes([b[b.len() - 2], b[b.len() - 1]])));
        b.extend(garbage(r));
        sweep_or_sample(cx, r, Which::V5, &b, 0);
    }
    // every command byte with every address type
    for cmd in 0..=255u8 {
        for atyp in [1u8, 3, 4] {
            let dlen = r.range(0, 40) as usize;
            let mut b = gen_req5(r, cmd, atyp, dlen);
            b.extend(garbage(r));
            sweep_or_sample(cx, r, Which::V5, &b, 0);
        }
    }
    // every version byte, every address type byte, reserved byte not zero
    for v in 0..=255u8 {
        let (c, t) = (cmd_byte(r), *r.pick(&[1u8, 3, 4]));
        let mut b = gen_req5(r, c, t, 5);
        b[0] = v;
        sweep_or_sample(cx, r, Which::V5, &b, 0);
        for k in 0..=b.len().min(2) {
            cx.push(format!("r5 {} {}", hexd(&b[..k]), k % 2));
        }
    }
    for t in 0..=255u8 {
        let c = cmd_byte(r);
        let mut b = gen_req5(r, c, 1, 0);
        b[3] = t;
        if r.chance(1, 2) {
            b[2] = r.next() as u8;
        }
        b.truncate(4 + r.range(0, 6) as usize);
        sweep_or_sample(cx, r, Which::V5, &b, 0);
    }
    for _ in 0..64 {
        let (c, t, l) = (cmd_byte(r), *r.pick(&[1u8, 3, 4]), r.range(0, 20) as usize);
        let mut b = gen_req5(r, c, t, l);
        b[2] = r.range(1, 255) as u8;
        cx.rep.count("gen/req5-reserved-nonzero");
        sweep_or_sample(cx, r, Which::V5, &b, 0);
    }
    for _ in 0..n_random {
        let atyp = *r.pick(&[1u8, 3, 3, 4]);
        let dlen = match r.below(6) {
            0 => 0,
            1 => 255,
            2 => r.range(1, 3) as usize,
            _ => r.range(0, 255) as usize,
        };
        let c = cmd_byte(r);
        let mut b = gen_req5(r, c, atyp, dlen);
        b.extend(garbage(r));
        cx.rep.count(&format!("gen/req5-atyp{atyp}"));
        sweep_or_sample(cx, r, Which::V5, &b, 0);
    }
}

fn socks4_part(cx: &mut Ctx, r: &mut Rng, n_random: usize, long: &[usize]) {
    let emit = |cx: &mut Ctx, r: &mut Rng, cmd: u8, ip: [u8; 4], ulen: usize, dlen: usize| {
        let (uid, dom, p) = (nulfree(r, ulen), nulfree(r, dlen), port(r));
        let is4a = ip[0] == 0 && ip[1] == 0 && ip[2] == 0 && ip[3] != 0;
        let mut b = if is4a { s4a_request(cmd, p, ip[3], &uid, &dom) } else { s4_request(cmd, p, ip, &uid) };
        if is4a {
            cx.push(format!("spec4a {cmd} {p} {} {} {}", ip[3], hexd(&uid), hexd(&dom)));
        } else {
            cx.push(format!("spec4 {cmd} {p} {} {}", hex(&ip), hexd(&uid)));
        }
        cx.rep.count(if is4a { "gen/req4a" } else if ip[0] == 0 { "gen/req4-first-octet-0" } else { "gen/req4" });
        b.extend(garbage(r));
        sweep_or_sample(cx, r, Which::V4, &b[1..], 24); // the reader is called after the version byte
    };
    // every user-id length and every domain length 0..=255
    for n in 0..=255usize {
        let cmd = (n as u8).wrapping_mul(101).wrapping_add(1);
        let x = r.range(1, 255) as u8;
        emit(cx, r, cmd, [0, 0, 0, x], n, 255 - n);
        let ip = ip4(r);
        emit(cx, r, cmd, ip, 255 - n, 0);
    }
    for cmd in 0..=255u8 {
        let ip = ip4(r);
        let (ul, dl) = (r.range(0, 9) as usize, r.range(0, 30) as usize);
        emit(cx, r, cmd, ip, ul, dl);
    }
    // every DSTIP of the form 0.0.0.x and a.b.c.d with single non-zero octets
    for x in 0..=255u8 {
        emit(cx, r, 1, [0, 0, 0, x], 2, 3);
        emit(cx, r, 1, [0, 0, x, 0], 1, 0);
        emit(cx, r, 1, [0, x, 0, 0], 0, 0);
        emit(cx, r, 1, [x, 0, 0, 0], 0, 0);
    }
    // fields longer than the BufReader's buffer
    for &n in long {
        emit(cx, r, 1, [0, 0, 0, 7], n, 3);
        emit(cx, r, 1, [0, 0, 0, 7], 3, n);
        emit(cx, r, 2, [10, 0, 0, 7], n, 0);
    }
    for _ in 0..n_random {
        let ip = ip4(r);
        let ulen = match r.below(5) {
            0 => 0,
            1 => 1,
            _ => r.range(0, 300) as usize,
        };
        let dlen = match r.below(5) {
            0 => 0,
            1 => 255,
            _ => r.range(0, 300) as usize,
        };
        let c = cmd_byte(r);
        emit(cx, r, c, ip, ulen, dlen);
    }
}

fn auth_part(cx: &mut Ctx, r: &mut Rng) {
    for n in 0..=255usize {
        let methods = r.bytes(n);
        let mut b = rfc_greeting(&methods);
        cx.push(format!("specgreeting {}", hexd(&methods)));
        b.extend(garbage(r));
        sweep_or_sample(cx, r, Which::Auth, &b[1..], 0);
    }
}

fn random_bytes_part(cx: &mut Ctx, r: &mut Rng, n: usize) {
    for _ in 0..n {
        let len = match r.below(10) {
            0..=5 => r.range(0, 16) as usize,
            6..=8 => r.range(0, 64) as usize,
            _ => r.range(0, 400) as usize,
        };
        let mut b: Vec<u8> = if r.chance(1, 2) { r.bytes(len) } else { (0..len).map(|_| *r.pick(&[0u8, 1, 3, 4, 5, 0xff])).collect() };
        let which = *r.pick(&[Which::V5, Which::V5, Which::V4, Which::Auth]);
        if which == Which::V5 && !b.is_empty() && r.chance(7, 8) {
            b[0] = 5;
        }
        for eof in [1, 0] {
            cx.push(format!("{} {} {eof}", which.op(), hexd(&b)));
        }
    }
}

fn writers_part(cx: &mut Ctx, r: &mut Rng, per_code: usize) {
    for code in 0..=255u8 {
        cx.push(format!("wru {code}"));
        cx.push(format!("wam {code}"));
        cx.push(format!("wr4 {code}"));
        cx.push(format!("specreply4 {code}"));
        for _ in 0..per_code {
            let p = port(r);
            let a4 = ip4(r);
            let a6 = ip6(r);
            cx.push(format!("wr5 {code} 4 {} {p}", hex(&a4)));
            cx.push(format!("wr5 {code} 6 {} {p}", hex(&a6)));
            cx.push(format!("specreply5 {code} 1 {} {p}", hex(&a4)));
            cx.push(format!("specreply5 {code} 4 {} {p}", hex(&a6)));
        }
    }
}

fn udp_part(cx: &mut Ctx, r: &mut Rng, n: usize) {
    // relay -> client datagrams
    for i in 0..n {
        let len = match r.below(8) {
            0 => 0,
            1 => r.range(1, 3) as usize,
            2 => 2048,
            3 => r.range(2040, 2048) as usize,
            _ => r.range(0, 2048) as usize,
        };
        let data = r.bytes(len);
        let p = port(r);
        let line = if i % 2 == 0 { format!("udpr 4 {} {p} {}", hex(&ip4(r)), hexd(&data)) } else { format!("udpr 6 {} {p} {}", hex(&ip6(r)), hexd(&data)) };
        // the Spec's own client parser on the implementation's answer (monitor)
        if let Some(ev) = eval_line(&line) {
            if !ev.line.starts_with("panic") && len <= 64 {
                cx.push(format!("udpc {}", ev.line));
            }
        }
        cx.push(line);
    }
    // client -> relay datagrams: every address type, every domain length, every truncation point of the header
    let mut headers: Vec<Vec<u8>> = vec![];
    for dlen in 0..=255usize {
        let raw = if r.chance(1, 2) { r.bytes(dlen) } else { nulfree(r, dlen) };
        let p = port(r);
        cx.push(format!("specudp 0 3 {} {p}", hexd(&raw)));
        headers.push(rfc_udp_header(3, &raw, p));
    }
    for _ in 0..128 {
        let (a4, a6, p) = (ip4(r), ip6(r), port(r));
        cx.push(format!("specudp 0 1 {} {p}", hex(&a4)));
        cx.push(format!("specudp 0 4 {} {p}", hex(&a6)));
        headers.push(rfc_udp_header(1, &a4, p));
        headers.push(rfc_udp_header(4, &a6, port(r)));
    }
    for h in &headers {
        let len = match r.below(4) {
            0 => 0,
            1 => r.range(1, 3) as usize,
            _ => r.range(0, 2048) as usize,
        };
        let mut b = h.clone();
        b.extend(r.bytes(len));
        cx.push(format!("udpp {}", hexd(&b)));
        cx.push(format!("udpc {}", hexd(&b[..b.len().min(h.len() + 8)])));
        for k in 0..h.len() {
            cx.push(format!("udpp {}", hexd(&h[..k])));
        }
        // reserved bytes are not interpreted; FRAG != 0 is refused; unknown address types are refused
        let mut m = b.clone();
        m.truncate(h.len() + 4);
        m[0] = r.next() as u8;
        m[1] = r.next() as u8;
        cx.push(format!("udpp {}", hexd(&m)));
    }
    for v in 1..=255u8 {
        let mut b = headers[usize::from(v) % headers.len()].clone();
        b[2] = v;
        cx.push(format!("udpp {}", hexd(&b)));
        cx.push(format!("udpp {}", hexd(&b[..4.min(b.len())])));
        cx.push(format!("udpp {}", hexd(&b[..3])));
        cx.push(format!("udpc {}", hexd(&b)));
        let mut b = headers[usize::from(v) % headers.len()].clone();
        b[3] = v;
        cx.push(format!("udpp {}", hexd(&b)));
        cx.push(format!("udpc {}", hexd(&b)));
    }
    for _ in 0..n {
        let len = r.range(0, 40) as usize;
        let mut b: Vec<u8> = if r.chance(1, 2) { r.bytes(len) } else { (0..len).map(|_| *r.pick(&[0u8, 1, 3, 4, 5, 0xff])).collect() };
        if b.len() > 3 && r.chance(3, 4) {
            b[2] = 0;
            b[3] = *r.pick(&[1u8, 3, 4]);
        }
        cx.push(format!("udpp {}", hexd(&b)));
        cx.push(format!("udpc {}", hexd(&b)));
    }
}

fn render_part(cx: &mut Ctx, r: &mut Rng, n: usize) {
    for _ in 0..n {
        cx.push(format!("render 1 {}", hex(&ip4(r))));
        cx.push(format!("render 4 {}", hex(&ip6(r))));
    }
    // every position and length of one run of zero groups, with and without a second run
    for start in 0..8usize {
        for len in 0..=(8 - start) {
            for second in [false, true] {
                let mut a = [0x11u8; 16];
                for g in start..start + len {
                    a[2 * g] = 0;
                    a[2 * g + 1] = 0;
                }
                if second && start >= 3 {
                    a[0] = 0;
                    a[1] = 0;
                    a[2] = 0;
                    a[3] = 0;
                }
                cx.push(format!("render 4 {}", hex(&a)));
            }
        }
    }
}

fn replay(path: &str) -> i32 {
    let text = std::fs::read_to_string(path).expect("read replay file");
    let v: pvh::Value = serde_json::from_str(&text).expect("replay json");
    let rp = if v.get("replay").is_some() { &v["replay"] } else { &v };
    let Some(line) = rp["line"].as_str() else {
        println!("replay file has no op line");
        return 2;
    };
    match eval_line(line) {
        None => {
            println!("unparseable op line: {line}");
            2
        }
        Some(ev) => {
            println!("op             {line}");
            println!("implementation {}", ev.line);
            match ev.fail {
                Some((_, why, small)) => {
                    println!("FAILS: {why}\n(minimal: {small})");
                    1
                }
                None => {
                    println!("holds on this input");
                    0
                }
            }
        }
    }
}

fn main() {
    pvh::quiet_panics();
    let args = Args::parse();
    if let Some(p) = &args.replay {
        std::process::exit(replay(p));
    }
    let rule = "SOCKS5 / SOCKS4 / SOCKS4a requests and method lists generated from the RFC grammars (every address type, \
every domain / user-id / method-list length 0..255, every command, version and address-type byte, trailing bytes), \
each run on EVERY prefix, once with end of input after the prefix (Cursor) and once with the writer kept open (duplex); \
random byte strings; every reply code x IPv4/IPv6 bound addresses; UDP relay datagrams built for random addresses and \
payloads 0..2048 and parsed by an RFC client parser; UDP headers of every address type / domain length parsed at every \
truncation point, all FRAG and ATYP values. One evaluation = one call of the real function. Non-trivial = a reader run \
whose input gets past its first byte (SOCKS5: version 5 and at least one more byte), any writer / UDP build call, a UDP \
parse of >= 4 bytes; distinct by (function, input, mode)";
    let mut cx = Ctx {
        rep: Report::new("socks", &args, rule),
        drv: args.driver.as_deref().map(|p| Driver::spawn(p, &[]).expect("start Lean driver")),
        queue: vec![],
        queued_bytes: 0,
    };
    let rng = Rng::new(args.seed);
    for (name, text) in pvh::corpus_files(args.corpus.as_deref()) {
        for l in text.lines().map(str::trim).filter(|l| !l.is_empty() && !l.starts_with('#')) {
            cx.rep.count(&format!("corpus/{name}"));
            cx.push(l.to_string());
        }
    }
    cx.flush();
    let (n5, n4, nrand, per_code, nudp, nrender, long): (usize, usize, usize, usize, usize, usize, &[usize]) = match args.tier {
        Tier::Quick => (300, 200, 6000, 2, 600, 2000, &[8191, 8192, 9000]),
        Tier::Thorough => (12_000, 7000, 600_000, 48, 30_000, 200_000, &[8185, 8191, 8192, 8193, 9000, 16_384, 20_000]),
    };
    socks5_part(&mut cx, &mut rng.fork(1), n5);
    socks4_part(&mut cx, &mut rng.fork(2), n4, long);
    auth_part(&mut cx, &mut rng.fork(3));
    random_bytes_part(&mut cx, &mut rng.fork(4), nrand);
    writers_part(&mut cx, &mut rng.fork(5), per_code);
    udp_part(&mut cx, &mut rng.fork(6), nudp);
    render_part(&mut cx, &mut rng.fork(7), nrender);
    cx.flush();
    cx.rep.exhaustive = false;
    cx.rep.notes.push(
        "enumerated completely: domain length 0..255 (SOCKS5 request, UDP header), user-id and SOCKS4a domain length 0..255, \
method count 0..255, all 256 command / version / ATYP / FRAG / reply-code / method bytes, DSTIP 0.0.0.x for every x, and every \
truncation point of every generated message up to 700 bytes (longer ones: all field boundaries plus random points); \
address, port and payload values are sampled"
            .into(),
    );
    cx.rep.notes.push("leniency (not a failure): the RSV byte of a SOCKS5 request and the RSV bytes of a UDP header are not validated".into());
    if let Some(d) = &cx.drv {
        cx.rep.notes.push(format!("driver lines: {}", d.lines));
    }
    cx.rep.finish(&args);
    std::process::exit(i32::from(cx.rep.has_failures()));
}
