//! C19 (part 1): the real `penguin_mux::timing::Backoff` against the Lean model (`drv_client`,
//! request `backoff`) and against the property's closed form computed here as an independent oracle:
//! the k-th consecutive `advance` since creation / the last `reset` returns
//! `min(initial * mult^k, max)` while `count == 0 || k < count`, else `None`.
//!
//! Case = (initial, max, mult, count, word over a=advance / r=reset). Durations are whole
//! milliseconds. Non-trivial case: at least two `advance` calls (so that the multiplication, the
//! clamp or the retry limit is exercised); distinct by content.
//!
//! The tuple space initial,max <= 8, mult <= 3, count <= 5 is enumerated completely, each tuple with
//! a fixed family of operation words (12 advances; 12 advances with one reset at every position;
//! thorough: every word of length <= 8); on top of that random tuples with large values (up to the
//! `Duration` overflow panic of `old * mult`, which the model predicts as `panic`).

use penguin_mux::timing::Backoff;
use pvh::{Args, Driver, FailKind, Report, Rng, Tier, catch, fnv, json};
use std::time::Duration;

#[derive(Clone, Debug)]
struct Case {
    initial: u64,
    max: u64,
    mult: u32,
    count: u32,
    ops: String,
}

impl Case {
    fn line(&self) -> String {
        format!(
            "backoff {} {} {} {} {}",
            self.initial,
            self.max,
            self.mult,
            self.count,
            if self.ops.is_empty() { "-" } else { &self.ops }
        )
    }
}

/// Run the real generator. Tokens: a number of milliseconds, `none`, `panic` (run stops), or
/// `frac:<nanos>` if a delay is not a whole number of milliseconds (cannot happen for whole-ms
/// parameters; kept so that a surprise is visible instead of rounded away).
fn run_impl(c: &Case) -> String {
    let mut out: Vec<String> = vec![];
    let mut b = Backoff::new(Duration::from_millis(c.initial), Duration::from_millis(c.max), c.mult, c.count);
    for op in c.ops.chars() {
        match op {
            'r' => b.reset(),
            'a' => match catch(|| b.advance()) {
                Ok(Some(d)) => {
                    if d.subsec_nanos() % 1_000_000 == 0 {
                        out.push(d.as_millis().to_string());
                    } else {
                        out.push(format!("frac:{}", d.as_nanos()));
                    }
                }
                Ok(None) => out.push("none".into()),
                Err(_) => {
                    out.push("panic".into());
                    break;
                }
            },
            _ => unreachable!(),
        }
    }
    if out.is_empty() { "-".into() } else { out.join(" ") }
}

/// Largest whole number of milliseconds a `Duration` holds.
const DURATION_MAX_MS: u128 = (u64::MAX as u128) * 1000 + 999;

/// The property's closed form, written without any generator state except `k`.
fn oracle(c: &Case) -> String {
    let mut out: Vec<String> = vec![];
    let mut k: u32 = 0;
    for op in c.ops.chars() {
        if op == 'r' {
            k = 0;
            continue;
        }
        if c.count != 0 && k >= c.count {
            out.push("none".into());
            continue;
        }
        // min(initial * mult^k, max) with "infinity" for anything beyond u128
        let pow = u128::from(c.mult).checked_pow(k);
        let unclamped = pow.and_then(|p| p.checked_mul(u128::from(c.initial)));
        let d = match unclamped {
            Some(v) => v.min(u128::from(c.max)),
            None if c.initial == 0 => 0, // 0 * (something beyond u128) is still 0
            None => u128::from(c.max),
        };
        // the implementation computes the next value eagerly: `old * mult` must fit a Duration
        if d * u128::from(c.mult) > DURATION_MAX_MS {
            out.push("panic".into());
            break;
        }
        out.push(d.to_string());
        k += 1;
    }
    if out.is_empty() { "-".into() } else { out.join(" ") }
}

fn words_upto(len: usize) -> Vec<String> {
    let mut v = vec![String::new()];
    let mut layer = vec![String::new()];
    for _ in 0..len {
        let mut next = Vec::with_capacity(layer.len() * 2);
        for w in &layer {
            next.push(format!("{w}a"));
            next.push(format!("{w}r"));
        }
        v.extend(next.iter().cloned());
        layer = next;
    }
    v
}

fn family(tier: Tier, rng: &mut Rng) -> Vec<String> {
    let mut v = vec!["a".repeat(12)];
    for p in 0..=12 {
        v.push(format!("{}r{}", "a".repeat(p), "a".repeat(12 - p)));
    }
    // two resets, and resets back to back
    for _ in 0..8 {
        let mut w = String::new();
        let mut adv = 0;
        while adv < 12 {
            if rng.chance(1, 4) {
                w.push('r');
            } else {
                w.push('a');
                adv += 1;
            }
        }
        v.push(w);
    }
    if tier == Tier::Thorough {
        v.extend(words_upto(8));
    } else {
        v.extend(words_upto(4));
    }
    v.sort();
    v.dedup();
    v
}

fn big(rng: &mut Rng) -> u64 {
    match rng.below(8) {
        0 => 0,
        1 => 1,
        2 => 200,
        3 => u64::MAX,
        4 => u64::MAX / 2 + 1,
        5 => 1u64 << rng.below(64),
        6 => rng.below(100_000),
        _ => rng.next(),
    }
}

fn big32(rng: &mut Rng) -> u32 {
    match rng.below(8) {
        0 => 0,
        1 => 1,
        2 => 2,
        3 => u32::MAX,
        4 => 1u32 << rng.below(32),
        5 => rng.below(10) as u32,
        _ => rng.next() as u32,
    }
}

fn check(rep: &mut Report, cases: &[Case], drv: &mut Option<Driver>, origin: &str) {
    for chunk in cases.chunks(8192) {
        let model: Option<Vec<String>> = drv.as_mut().map(|d| d.batch(&chunk.iter().map(Case::line).collect::<Vec<_>>()));
        for (i, c) in chunk.iter().enumerate() {
            let line = c.line();
            let advs = c.ops.chars().filter(|x| *x == 'a').count();
            rep.case((advs >= 2).then(|| fnv(line.as_bytes())));
            rep.count(&format!("origin/{origin}"));
            let got = run_impl(c);
            let want = oracle(c);
            if got.contains("none") {
                rep.count("saw/none");
            }
            if got.contains("panic") {
                rep.count("saw/panic");
            }
            if c.ops.contains('r') {
                rep.count("saw/reset");
            }
            if got != want {
                // shrink the operation word
                let mut small = c.clone();
                let ops: Vec<char> = c.ops.chars().collect();
                let shr = pvh::shrink_list(ops, |w| {
                    let t = Case { ops: w.iter().collect(), ..c.clone() };
                    run_impl(&t) != oracle(&t)
                });
                small.ops = shr.into_iter().collect();
                rep.fail(
                    FailKind::Impl,
                    &small.line(),
                    &format!("Backoff returns `{}`, the closed form min(initial*mult^k, max)/None says `{}`", run_impl(&small), oracle(&small)),
                    json!({"op": "backoff", "line": small.line(), "original": line}),
                );
            }
            if let Some(m) = &model {
                rep.model_compared += 1;
                if m[i] != got {
                    rep.fail(
                        FailKind::Model,
                        &format!("model {line}"),
                        &format!("model `{}` vs implementation `{got}`", m[i]),
                        json!({"op": "backoff", "line": line, "model": m[i], "impl": got}),
                    );
                }
            }
            if i == 0 {
                rep.sample(json!({"case": line, "impl": got}));
            }
        }
    }
}

fn parse_line(line: &str) -> Option<Case> {
    let t: Vec<&str> = line.split_whitespace().collect();
    if t.len() != 6 || t[0] != "backoff" {
        return None;
    }
    let ops = if t[5] == "-" { String::new() } else { t[5].to_string() };
    if !ops.chars().all(|c| c == 'a' || c == 'r') {
        return None;
    }
    Some(Case { initial: t[1].parse().ok()?, max: t[2].parse().ok()?, mult: t[3].parse().ok()?, count: t[4].parse().ok()?, ops })
}

fn replay(path: &str) -> i32 {
    let text = std::fs::read_to_string(path).expect("read replay file");
    let v: pvh::Value = serde_json::from_str(&text).expect("replay json");
    let rp = if v.get("replay").is_some() { &v["replay"] } else { &v };
    let Some(c) = rp["line"].as_str().and_then(parse_line) else {
        println!("unknown replay");
        return 2;
    };
    let got = run_impl(&c);
    let want = oracle(&c);
    println!("case        {}", c.line());
    println!("impl        {got}");
    println!("closed form {want}");
    if got == want {
        println!("holds on this input");
        0
    } else {
        println!("FAILS");
        1
    }
}

fn main() {
    pvh::quiet_panics();
    let args = Args::parse();
    if let Some(p) = &args.replay {
        std::process::exit(replay(p));
    }
    let rule = "case = (initial, max, mult, count, word over advance/reset) on the real Backoff, whole milliseconds; \
all tuples initial,max <= 8, mult <= 3, count <= 5 x a fixed family of words (12 advances, one reset at every position, \
random interleavings, every word up to a length bound), plus random large tuples up to the Duration overflow panic; \
non-trivial = at least two advance calls; distinct by content";
    let mut rep = Report::new("backoff", &args, rule);
    let mut drv = args.driver.as_deref().map(|p| Driver::spawn(p, &[]).expect("start Lean driver"));
    let rng = Rng::new(args.seed);
    // corpus first
    let mut corpus = vec![];
    for (_name, text) in pvh::corpus_files(args.corpus.as_deref()) {
        corpus.extend(text.lines().filter_map(parse_line));
    }
    check(&mut rep, &corpus, &mut drv, "corpus");
    // the complete small tuple space
    let fam = family(args.tier, &mut rng.fork(1));
    let mut cases = vec![];
    for initial in 0..=8u64 {
        for max in 0..=8u64 {
            for mult in 0..=3u32 {
                for count in 0..=5u32 {
                    for w in &fam {
                        cases.push(Case { initial, max, mult, count, ops: w.clone() });
                    }
                }
            }
        }
    }
    check(&mut rep, &cases, &mut drv, "small-tuples");
    rep.exhaustive = true;
    rep.notes.push(format!(
        "tuple space initial,max in 0..=8, mult in 0..=3, count in 0..=5 enumerated completely (1944 tuples) x {} operation words each",
        fam.len()
    ));
    // the client's own parameters
    let mut cl = vec![];
    for max in [0u64, 1, 199, 200, 201, 399, 400, 1000, 10_000, 300_000, u64::MAX] {
        for count in [0u32, 1, 2, 3, 10, 64] {
            cl.push(Case { initial: 200, max, mult: 2, count, ops: "a".repeat(70) });
            cl.push(Case { initial: 200, max, mult: 2, count, ops: format!("{}r{}", "a".repeat(5), "a".repeat(12)) });
        }
    }
    check(&mut rep, &cl, &mut drv, "client-parameters");
    // random large values
    let n_big = match args.tier {
        Tier::Quick => 4000,
        Tier::Thorough => 100_000,
    };
    let mut r2 = rng.fork(2);
    let bigs: Vec<Case> = (0..n_big)
        .map(|_| {
            let len = r2.range(1, 16) as usize;
            let ops: String = (0..len).map(|_| if r2.chance(1, 6) { 'r' } else { 'a' }).collect();
            Case { initial: big(&mut r2), max: big(&mut r2), mult: big32(&mut r2), count: if r2.chance(1, 2) { 0 } else { r2.below(6) as u32 }, ops }
        })
        .collect();
    check(&mut rep, &bigs, &mut drv, "random-large");
    if let Some(d) = &drv {
        rep.notes.push(format!("driver lines: {}", d.lines));
    }
    rep.finish(&args);
    std::process::exit(i32::from(rep.has_failures()));
}
