//! C16: the real keepalive machinery — `penguin_mux::config::Options` (builder) and the multiplexor
//! task's ping loop (`task.rs` `schedule_ping_task`, `process_message` on `Pong`) — against the Lean
//! model (`drv_timing`) and against the property's own bounds evaluated on observed times.
//!
//! The task runs on a tokio current-thread runtime with the clock paused (time moves only when the
//! runtime is idle, straight to the next timer), with a `TimestampProvider` newtype over
//! `tokio::time::Instant` and an in-memory WebSocket that records every `Ping` with its time in ms
//! and answers with `Pong` after scripted delays.
//!
//! All times are u64 milliseconds since the task started (`Nat` in the model). The long-uptime family
//! (keepalive intervals of minutes to days, a peer that answers for weeks or months of model time and
//! then falls silent, or never does) exercises uptimes below, around and above 2^31 / 2^32 ms: under the
//! paused clock a run costs one timer step per tick, whatever the length of the interval.
//!
//! Non-trivial case: a builder sequence with at least two keepalive setter calls, or a run with
//! keepalive enabled in which at least two ticks fall inside the horizon.

use penguin_mux::config::Options;
use penguin_mux::timing::{OptionalDuration, TimestampProvider};
use penguin_mux::ws::{Message, WebSocket};
use penguin_mux::{Error, Multiplexor};
use pvh::{Args, Driver, FailKind, Report, Rng, Tier, catch, fnv, json, shrink_list};
use rand::SeedableRng;
use std::future::Future;
use std::pin::Pin;
use std::sync::{Arc, Mutex};
use std::task::{Context, Poll, Waker};
use std::time::Duration;
use tokio::time::{Instant, Sleep};

// ---------------------------------------------------------------------------------------------
// Clock
// ---------------------------------------------------------------------------------------------

/// `TimestampProvider` over the runtime's (paused) clock.
#[derive(Clone, Copy, Debug)]
struct Ti(Instant);

impl TimestampProvider for Ti {
    fn now() -> Self {
        Self(Instant::now())
    }
    fn duration_since(&self, earlier: Self) -> Duration {
        self.0.saturating_duration_since(earlier.0)
    }
}

// ---------------------------------------------------------------------------------------------
// Builder calls
// ---------------------------------------------------------------------------------------------

#[derive(Clone, Debug, PartialEq, Eq)]
enum Setter {
    I(Option<u64>),
    T(Option<u64>),
    Dg(u64),
    Sb(u64),
    Bb(u64),
    Fr(u64),
    Rw(u64),
    Th(u64),
}

fn od_tok(v: Option<u64>) -> String {
    v.map_or_else(|| "-".to_string(), |x| x.to_string())
}

fn parse_od(s: &str) -> Option<Option<u64>> {
    if s == "-" { Some(None) } else { s.parse().ok().map(Some) }
}

impl Setter {
    fn tok(&self) -> String {
        match self {
            Self::I(v) => format!("i:{}", od_tok(*v)),
            Self::T(v) => format!("t:{}", od_tok(*v)),
            Self::Dg(n) => format!("dg:{n}"),
            Self::Sb(n) => format!("sb:{n}"),
            Self::Bb(n) => format!("bb:{n}"),
            Self::Fr(n) => format!("fr:{n}"),
            Self::Rw(n) => format!("rw:{n}"),
            Self::Th(n) => format!("th:{n}"),
        }
    }
    fn parse(s: &str) -> Option<Self> {
        let (k, v) = s.split_once(':')?;
        Some(match k {
            "i" => Self::I(parse_od(v)?),
            "t" => Self::T(parse_od(v)?),
            "dg" => Self::Dg(v.parse().ok()?),
            "sb" => Self::Sb(v.parse().ok()?),
            "bb" => Self::Bb(v.parse().ok()?),
            "fr" => Self::Fr(v.parse().ok()?),
            "rw" => Self::Rw(v.parse().ok()?),
            "th" => Self::Th(v.parse().ok()?),
            _ => return None,
        })
    }
    fn is_keepalive(&self) -> bool {
        matches!(self, Self::I(_) | Self::T(_))
    }
}

/// ms -> `OptionalDuration` through the public API: `-` = NONE, `0` = a finite zero duration
/// (`from_secs(0)`; `From<Duration>` would turn it into NONE), otherwise `From<Duration>`.
fn od(v: Option<u64>) -> OptionalDuration {
    match v {
        None => OptionalDuration::NONE,
        Some(0) => OptionalDuration::from_secs(0),
        Some(ms) => Duration::from_millis(ms).into(),
    }
}

/// The real builder (may panic on the documented asserts: run under `catch`).
fn build_real(calls: &[Setter]) -> Options {
    let mut o = Options::new();
    for c in calls {
        o = match *c {
            Setter::I(v) => o.keepalive_interval(od(v)),
            Setter::T(v) => o.keepalive_timeout(od(v)),
            Setter::Dg(n) => o.datagram_buffer_size(n as usize),
            Setter::Sb(n) => o.stream_buffer_size(n as usize),
            Setter::Bb(n) => o.bind_buffer_size(n as usize),
            Setter::Fr(n) => o.max_flow_id_retries(n as usize),
            Setter::Rw(n) => o.rwnd(n as u32),
            Setter::Th(n) => o.default_rwnd_threshold(n as u32),
        };
    }
    o
}

/// `Debug` of a `Duration` (`5s`, `1.5s`, `250ms`, ...) -> whole milliseconds.
fn parse_duration_ms(s: &str) -> Option<u64> {
    let (num, scale_ns): (&str, u128) = if let Some(x) = s.strip_suffix("ns") {
        (x, 1)
    } else if let Some(x) = s.strip_suffix("µs") {
        (x, 1_000)
    } else if let Some(x) = s.strip_suffix("ms") {
        (x, 1_000_000)
    } else if let Some(x) = s.strip_suffix('s') {
        (x, 1_000_000_000)
    } else {
        return None;
    };
    let (ip, fp) = num.split_once('.').unwrap_or((num, ""));
    let mut ns: u128 = ip.parse::<u128>().ok()? * scale_ns;
    let mut unit = scale_ns;
    for ch in fp.chars() {
        let d = u128::from(ch.to_digit(10)?);
        if unit % 10 != 0 {
            return None;
        }
        unit /= 10;
        ns += d * unit;
    }
    if ns % 1_000_000 != 0 {
        return None;
    }
    u64::try_from(ns / 1_000_000).ok()
}

/// The fields of the real `Options`, read through its derived `Debug` (the fields are `pub(crate)`).
#[derive(Clone, Debug, PartialEq, Eq)]
struct Eff {
    interval: Option<u64>,
    timeout: Option<u64>,
    rest: [u64; 6],
}

impl Eff {
    fn line(&self) -> String {
        let r = &self.rest;
        format!("ok {} {} {} {} {} {} {} {}", od_tok(self.interval), od_tok(self.timeout), r[0], r[1], r[2], r[3], r[4], r[5])
    }
}

fn read_options(o: &Options) -> Eff {
    let dbg = format!("{o:?}");
    let inner = dbg.strip_prefix("Options { ").and_then(|s| s.strip_suffix(" }")).expect("Options Debug shape");
    let mut map = std::collections::BTreeMap::new();
    for part in inner.split(", ") {
        let (k, v) = part.split_once(": ").expect("field: value");
        map.insert(k.to_string(), v.to_string());
    }
    let odv = |name: &str| -> Option<u64> {
        let v = map.get(name).unwrap_or_else(|| panic!("Options Debug has no field {name}"));
        let v = v.strip_prefix("OptionalDuration(").and_then(|s| s.strip_suffix(')')).expect("OptionalDuration Debug shape");
        if v == "None" {
            None
        } else {
            let d = v.strip_prefix("Some(").and_then(|s| s.strip_suffix(')')).expect("Some(..)");
            Some(parse_duration_ms(d).unwrap_or_else(|| panic!("duration {d}")))
        }
    };
    let num = |name: &str| -> u64 { map.get(name).and_then(|v| v.parse().ok()).unwrap_or_else(|| panic!("Options Debug field {name}")) };
    Eff {
        interval: odv("keepalive_interval"),
        timeout: odv("keepalive_timeout"),
        rest: [
            num("datagram_buffer_size"),
            num("stream_buffer_size"),
            num("bind_buffer_size"),
            num("max_flow_id_retries"),
            num("rwnd"),
            num("default_rwnd_threshold"),
        ],
    }
}

/// What the documentation promises for a sequence of setter calls, written without the code:
/// the interval is the last one given; the timeout is the last one given, "implicitly clamped" to
/// the interval if it is lower (a timeout of NONE = never stays NONE; with keepalive disabled there
/// is nothing to clamp against). `None` when a documented assert fires.
fn spec_config(calls: &[Setter]) -> Option<(Option<u64>, Option<u64>)> {
    let mut i = None;
    let mut t = None;
    for c in calls {
        match *c {
            Setter::I(v) => i = v,
            Setter::T(v) => t = v,
            Setter::Dg(0) | Setter::Sb(0) | Setter::Fr(0) | Setter::Rw(0) | Setter::Th(0) => return None,
            _ => {}
        }
    }
    let t = match (t, i) {
        (Some(t), Some(i)) => Some(t.max(i)),
        (t, _) => t,
    };
    Some((i, t))
}

fn calls_line(calls: &[Setter]) -> String {
    if calls.is_empty() { "-".into() } else { calls.iter().map(Setter::tok).collect::<Vec<_>>().join(",") }
}

fn parse_calls(s: &str) -> Option<Vec<Setter>> {
    if s == "-" { Some(vec![]) } else { s.split(',').map(Setter::parse).collect() }
}

/// Oracle on the real builder for one call sequence: `Some((kind, why))` when it fails.
fn builder_oracle(calls: &[Setter], got: &Result<Eff, String>) -> Option<(&'static str, String)> {
    match (spec_config(calls), got) {
        (None, Err(_)) => None,
        (None, Ok(e)) => Some(("builder-assert-missing", format!("a documented assert should have fired, got `{}`", e.line()))),
        (Some(_), Err(p)) => Some(("builder-panic", format!("builder panicked: {p}"))),
        (Some((i, t)), Ok(e)) => {
            if let (Some(iv), Some(tv)) = (e.interval, e.timeout) {
                if tv < iv {
                    return Some((
                        "builder-timeout-below-interval",
                        format!("effective keepalive_timeout {tv} ms < keepalive_interval {iv} ms: a peer answering every ping at once is declared dead"),
                    ));
                }
            }
            if e.interval != i {
                return Some((
                    "builder-interval",
                    format!("keepalive_interval is {} but the last value set was {}", od_tok(e.interval), od_tok(i)),
                ));
            }
            if e.timeout != t {
                let kind = match (e.timeout, e.interval) {
                    (None, Some(_)) => "builder-finite-timeout-becomes-never",
                    (None, None) => "builder-finite-timeout-lost-while-disabled",
                    _ => "builder-timeout",
                };
                return Some((
                    kind,
                    format!(
                        "keepalive_timeout is {} but the requested timeout (clamped to the interval if lower) is {}; keepalive_interval is {}",
                        od_tok(e.timeout),
                        od_tok(t),
                        od_tok(e.interval)
                    ),
                ));
            }
            None
        }
    }
}

fn build_observed(calls: &[Setter]) -> Result<Eff, String> {
    catch(|| read_options(&build_real(calls)))
}

// ---------------------------------------------------------------------------------------------
// Scripted WebSocket
// ---------------------------------------------------------------------------------------------

#[derive(Debug, Default)]
struct Shared {
    pings: Vec<u64>,
    pongs: Vec<u64>,
    close_at: Option<u64>,
    other_sent: u64,
    peer_pings_given: u64,
    pongs_sent: u64,
}

struct ScriptWs {
    start: Instant,
    delays: Vec<Option<u64>>,
    rest: Option<u64>,
    nping: usize,
    /// arrival times (ms since start) of pongs on their way, sorted
    pending: Vec<u64>,
    /// arrival times of `Ping` messages the peer sends on its own (its keepalive), sorted
    peer_pings: Vec<u64>,
    sleep: Option<Pin<Box<Sleep>>>,
    waker: Option<Waker>,
    closed: bool,
    silent_after_close: bool,
    /// from this time on (ms) the sink accepts nothing more: `poll_ready` stays pending (the peer has
    /// stopped reading and the transport's send buffer is full)
    block_at: Option<u64>,
    /// … and closing the sink has to flush first, so `poll_close` stays pending too
    wedge_close: bool,
    /// frames for the endpoint produced by the scripted peer (the answer to a `Connect`)
    inbound: std::collections::VecDeque<Message>,
    shared: Arc<Mutex<Shared>>,
}

impl ScriptWs {
    fn ms(&self) -> u64 {
        u64::try_from(Instant::now().saturating_duration_since(self.start).as_millis()).expect("ms")
    }
    fn blocked(&self) -> bool {
        self.block_at.is_some_and(|b| self.ms() >= b)
    }
}

impl WebSocket for ScriptWs {
    fn poll_ready_unpin(&mut self, _cx: &mut Context<'_>) -> Poll<Result<(), Error>> {
        if self.blocked() {
            // never woken: the peer never reads again
            return Poll::Pending;
        }
        Poll::Ready(Ok(()))
    }
    fn start_send_unpin(&mut self, item: Message) -> Result<(), Error> {
        let now = self.ms();
        if let Message::Binary(b) = &item {
            // the scripted peer accepts every stream: `Connect` is answered with `Acknowledge` (window 60000)
            if b.len() >= 5 && b[0] & 0x0f == 0 {
                let mut f = vec![0x71, b[1], b[2], b[3], b[4]];
                f.extend_from_slice(&60_000u32.to_be_bytes());
                self.inbound.push_back(Message::Binary(f.into()));
                if let Some(w) = self.waker.take() {
                    w.wake();
                }
            }
        }
        if matches!(item, Message::Ping) {
            self.shared.lock().expect("lock").pings.push(now);
            let d = self.delays.get(self.nping).copied().unwrap_or(self.rest);
            self.nping += 1;
            if let Some(d) = d {
                self.pending.push(now + d);
                self.pending.sort_unstable();
                if let Some(w) = self.waker.take() {
                    w.wake();
                }
            }
        } else {
            let mut sh = self.shared.lock().expect("lock");
            sh.other_sent += 1;
            if matches!(item, Message::Pong) { sh.pongs_sent += 1; }
        }
        Ok(())
    }
    fn poll_flush_unpin(&mut self, _cx: &mut Context<'_>) -> Poll<Result<(), Error>> {
        Poll::Ready(Ok(()))
    }
    fn poll_close_unpin(&mut self, _cx: &mut Context<'_>) -> Poll<Result<(), Error>> {
        let now = self.ms();
        let mut sh = self.shared.lock().expect("lock");
        if sh.close_at.is_none() {
            sh.close_at = Some(now);
        }
        drop(sh);
        if self.wedge_close && self.blocked() {
            // the close has to flush what the transport holds, and nothing leaves any more
            return Poll::Pending;
        }
        self.closed = true;
        if let Some(w) = self.waker.take() {
            w.wake();
        }
        Poll::Ready(Ok(()))
    }
    fn poll_next_unpin(&mut self, cx: &mut Context<'_>) -> Poll<Option<Result<Message, Error>>> {
        if self.closed {
            if self.silent_after_close {
                self.waker = Some(cx.waker().clone());
                return Poll::Pending;
            }
            // the peer completes the close handshake
            return Poll::Ready(None);
        }
        if let Some(m) = self.inbound.pop_front() {
            return Poll::Ready(Some(Ok(m)));
        }
        loop {
            let now = self.ms();
            // the peer's own pings say nothing about our pings being answered
            let pp = self.peer_pings.first().copied();
            let due = match (self.pending.first().copied(), pp) {
                (None, None) => {
                    self.waker = Some(cx.waker().clone());
                    return Poll::Pending;
                }
                (Some(a), Some(b)) => a.min(b),
                (Some(a), None) | (None, Some(a)) => a,
            };
            if due <= now {
                if self.pending.first() == Some(&due) {
                    self.pending.remove(0);
                    self.shared.lock().expect("lock").pongs.push(now);
                    return Poll::Ready(Some(Ok(Message::Pong)));
                }
                self.peer_pings.remove(0);
                self.shared.lock().expect("lock").peer_pings_given += 1;
                return Poll::Ready(Some(Ok(Message::Ping)));
            }
            let deadline = self.start + Duration::from_millis(due);
            match &mut self.sleep {
                Some(s) => s.as_mut().reset(deadline),
                None => self.sleep = Some(Box::pin(tokio::time::sleep_until(deadline))),
            }
            if self.sleep.as_mut().expect("armed").as_mut().poll(cx).is_pending() {
                self.waker = Some(cx.waker().clone());
                return Poll::Pending;
            }
        }
    }
}

// ---------------------------------------------------------------------------------------------
// One run of the real task
// ---------------------------------------------------------------------------------------------

#[derive(Clone, Debug, PartialEq, Eq)]
struct Case {
    calls: Vec<Setter>,
    /// answer delay per ping index; `None` = never answered
    delays: Vec<Option<u64>>,
    /// delay for every later ping
    rest: Option<u64>,
    /// unsolicited pongs (arrival times)
    extra: Vec<u64>,
    /// pings the peer sends on its own (arrival times): the endpoint answers them, they do not count
    /// as answers to its own pings
    pp: Vec<u64>,
    horizon: u64,
    /// the transport stays silent after the endpoint closed it (instead of completing the close)
    silent: bool,
    /// the sink accepts nothing from this time on (the peer has stopped reading; `poll_ready` pending for ever)
    block: Option<u64>,
    /// … and `poll_close` is pending too while the sink is blocked (a close that must flush first)
    wedge: bool,
    /// times at which the application sends a datagram / writes one byte on a stream (opened at start-up)
    dg: Vec<u64>,
    pw: Vec<u64>,
}

/// Answer delays as one token: `-` = empty list, `x` = this ping is never answered, `d*n` = `n` times `d`
/// (written for runs of four or more: a peer that answers at once for a hundred days is `0*100`).
fn delays_tok(v: &[Option<u64>]) -> String {
    if v.is_empty() {
        return "-".into();
    }
    let one = |d: &Option<u64>| d.map_or_else(|| "x".to_string(), |x| x.to_string());
    let mut out: Vec<String> = vec![];
    let mut k = 0;
    while k < v.len() {
        let n = v[k..].iter().take_while(|d| **d == v[k]).count();
        if n >= 4 {
            out.push(format!("{}*{n}", one(&v[k])));
        } else {
            out.extend(std::iter::repeat_n(one(&v[k]), n));
        }
        k += n;
    }
    out.join(",")
}

fn parse_delays(v: &str) -> Option<Vec<Option<u64>>> {
    if v == "-" {
        return Some(vec![]);
    }
    let one = |d: &str| -> Option<Option<u64>> { if d == "x" { Some(None) } else { d.parse().ok().map(Some) } };
    let mut out = vec![];
    for part in v.split(',') {
        match part.split_once('*') {
            Some((d, n)) => {
                let n: usize = n.parse().ok().filter(|n| *n <= 1_000_000)?;
                out.extend(std::iter::repeat_n(one(d)?, n));
            }
            None => out.push(one(part)?),
        }
    }
    Some(out)
}

fn csv(v: &[u64]) -> String {
    if v.is_empty() { "-".into() } else { v.iter().map(ToString::to_string).collect::<Vec<_>>().join(",") }
}

impl Case {
    fn line(&self) -> String {
        let mut l = format!(
            "case calls={} delays={} rest={} extra={} pp={} h={} silent={}",
            calls_line(&self.calls),
            delays_tok(&self.delays),
            od_tok(self.rest),
            csv(&self.extra),
            csv(&self.pp),
            self.horizon,
            u8::from(self.silent)
        );
        // (only when used: older corpus lines and replays stay valid as they are)
        if let Some(b) = self.block {
            l.push_str(&format!(" block={b} wedge={}", u8::from(self.wedge)));
        }
        if !self.dg.is_empty() {
            l.push_str(&format!(" dg={}", csv(&self.dg)));
        }
        if !self.pw.is_empty() {
            l.push_str(&format!(" pw={}", csv(&self.pw)));
        }
        l
    }
    fn plain() -> Self {
        Self { calls: vec![], delays: vec![], rest: None, extra: vec![], pp: vec![], horizon: 0, silent: false, block: None, wedge: false, dg: vec![], pw: vec![] }
    }
    fn parse(line: &str) -> Option<Self> {
        let mut it = line.split_whitespace();
        if it.next()? != "case" {
            return None;
        }
        let mut c = Self::plain();
        let list = |v: &str| -> Option<Vec<u64>> { if v == "-" { Some(vec![]) } else { v.split(',').map(|d| d.parse().ok()).collect() } };
        for kv in it {
            let (k, v) = kv.split_once('=')?;
            match k {
                "calls" => c.calls = parse_calls(v)?,
                "delays" => c.delays = parse_delays(v)?,
                "rest" => c.rest = parse_od(v)?,
                "extra" => c.extra = if v == "-" { vec![] } else { v.split(',').map(|d| d.parse().ok()).collect::<Option<Vec<_>>>()? },
                "pp" => c.pp = if v == "-" { vec![] } else { v.split(',').map(|d| d.parse().ok()).collect::<Option<Vec<_>>>()? },
                "h" => c.horizon = v.parse().ok()?,
                "silent" => c.silent = v == "1",
                "block" => c.block = Some(v.parse().ok()?),
                "wedge" => c.wedge = v == "1",
                "dg" => c.dg = list(v)?,
                "pw" => c.pw = list(v)?,
                _ => return None,
            }
        }
        Some(c)
    }
    /// Answer delay of ping number `k` (sent at `k * iv`): a ping that is due once the sink is blocked
    /// never reaches the peer.
    fn delay(&self, k: usize, iv: u64) -> Option<u64> {
        if self.block.is_some_and(|b| k as u64 * iv >= b) {
            return None;
        }
        self.delays.get(k).copied().unwrap_or(self.rest)
    }
}

#[derive(Clone, Debug, PartialEq, Eq)]
enum Exit {
    /// the task was still running at the horizon and had not closed the transport
    Alive,
    /// the task closed the transport at `close_at` and returned `Err(KeepaliveTimeout)` at `exit_at`
    Timeout { close_at: u64, exit_at: u64 },
    /// the task closed the transport at `close_at` but had not returned at the horizon
    Hung { close_at: u64 },
    Other { what: String, at: u64 },
    Panic(String),
}

#[derive(Clone, Debug)]
struct Obs {
    eff: Eff,
    pings: Vec<u64>,
    pongs: Vec<u64>,
    exit: Exit,
}

fn run_real(case: &Case) -> Result<Obs, String> {
    let eff = build_observed(&case.calls)?;
    let calls = case.calls.clone();
    let shared = Arc::new(Mutex::new(Shared::default()));
    let sh2 = shared.clone();
    let case2 = case.clone();
    let exit = catch(move || {
        let rt = tokio::runtime::Builder::new_current_thread().enable_time().start_paused(true).build().expect("runtime");
        rt.block_on(async move {
            let start = Instant::now();
            let mut pending = case2.extra.clone();
            pending.sort_unstable();
            let mut peer_pings = case2.pp.clone();
            peer_pings.sort_unstable();
            let ws = ScriptWs {
                start,
                peer_pings,
                delays: case2.delays.clone(),
                rest: case2.rest,
                nping: 0,
                pending,
                sleep: None,
                waker: None,
                closed: false,
                silent_after_close: case2.silent,
                block_at: case2.block,
                wedge_close: case2.wedge,
                inbound: std::collections::VecDeque::new(),
                shared: sh2.clone(),
            };
            let opts = build_real(&calls);
            let rng = rand::rngs::SmallRng::seed_from_u64(7);
            let (mux, taskdata) = Multiplexor::new_detailed::<_, Ti>(ws, opts, rng);
            let mux = Arc::new(mux);
            let mut handle = tokio::spawn(taskdata.into_task());
            if !case2.dg.is_empty() || !case2.pw.is_empty() {
                // application traffic: datagrams and one-byte stream writes at the scripted times (they
                // queue behind each other, and behind nothing else, on the endpoint's outbound queue)
                let m2 = mux.clone();
                let mut events: Vec<(u64, bool)> = case2.dg.iter().map(|t| (*t, false)).chain(case2.pw.iter().map(|t| (*t, true))).collect();
                events.sort_unstable();
                let want_stream = !case2.pw.is_empty();
                tokio::spawn(async move {
                    use tokio::io::AsyncWriteExt;
                    let mut stream = if want_stream { m2.new_stream_channel(b"h", 80).await.ok() } else { None };
                    for (t, is_write) in events {
                        tokio::time::sleep_until(start + Duration::from_millis(t)).await;
                        if is_write {
                            if let Some(st) = stream.as_mut() {
                                let _ = st.write_all(b"x").await;
                            }
                        } else {
                            let d = penguin_mux::Datagram { flow_id: 7, target_host: bytes::Bytes::from_static(b"h"), target_port: 53, data: bytes::Bytes::from_static(b"payload") };
                            let _ = m2.send_datagram(d).await;
                        }
                    }
                    std::future::pending::<()>().await;
                });
            }
            let res = tokio::time::timeout(Duration::from_millis(case2.horizon), &mut handle).await;
            let at = u64::try_from(Instant::now().saturating_duration_since(start).as_millis()).expect("ms");
            let close_at = sh2.lock().expect("lock").close_at;
            let exit = match res {
                Err(_elapsed) => {
                    handle.abort();
                    match close_at {
                        Some(close_at) => Exit::Hung { close_at },
                        None => Exit::Alive,
                    }
                }
                Ok(Err(join)) => Exit::Panic(if join.is_panic() { "task panicked".into() } else { "task cancelled".into() }),
                Ok(Ok(Err(Error::KeepaliveTimeout))) => match close_at {
                    Some(close_at) => Exit::Timeout { close_at, exit_at: at },
                    None => Exit::Other { what: "KeepaliveTimeout without closing the transport".into(), at },
                },
                Ok(Ok(other)) => Exit::Other { what: format!("{other:?}"), at },
            };
            drop(mux);
            exit
        })
    })
    .unwrap_or_else(Exit::Panic);
    let sh = shared.lock().expect("lock");
    Ok(Obs { eff, pings: sh.pings.clone(), pongs: sh.pongs.clone(), exit })
}

/// Canonical observation line, same shape as the model's answer to `run`.
fn obs_line(o: &Obs) -> String {
    let end = match &o.exit {
        Exit::Alive => "alive".to_string(),
        Exit::Timeout { close_at, .. } | Exit::Hung { close_at } => format!("timeout {close_at}"),
        Exit::Other { what, at } => format!("other {at} {}", what.replace(' ', "_")),
        Exit::Panic(_) => return "panic".into(),
    };
    format!("pings {} end {end}", csv(&o.pings))
}

fn model_req(case: &Case, eff: &Eff) -> String {
    let mut s = format!(
        "{} {} {} {} {} {}",
        // `runb <block>`: pings due once the sink is blocked reach neither the sink nor the peer
        case.block.map_or_else(|| "run".to_string(), |b| format!("runb {b}")),
        od_tok(eff.interval),
        od_tok(eff.timeout),
        case.horizon,
        od_tok(case.rest),
        csv(&{
            let mut e = case.extra.clone();
            e.sort_unstable();
            e
        })
    );
    for d in &case.delays {
        s.push(' ');
        s.push_str(&od_tok(*d));
    }
    s
}

/// The property's own bounds on one observed run. `(key, description)` when one fails.
/// `i`, `t`: the configuration the documentation promises for the call sequence (`spec_config`).
fn run_oracle(case: &Case, o: &Obs) -> Option<(String, String)> {
    let Some((i, t)) = spec_config(&case.calls) else {
        return None; // builder assert: covered by the builder oracle
    };
    let cfg = format!("I={} T={}", od_tok(i), od_tok(t));
    if i == Some(0) {
        // a finite zero interval is outside the property's quantifier (I > 0); tokio rejects it
        return None;
    }
    if let Exit::Panic(p) = &o.exit {
        return Some(("panic".into(), format!("the task panicked ({p}) with {cfg}")));
    }
    if let Exit::Other { what, at } = &o.exit {
        return Some(("other-exit".into(), format!("the task ended with {what} at {at} ms with {cfg}")));
    }
    let (end, timed_out) = match &o.exit {
        Exit::Timeout { close_at, .. } | Exit::Hung { close_at } => (*close_at, true),
        _ => (case.horizon, false),
    };
    let Some(iv) = i else {
        // disabled: no ping, no timeout
        if !o.pings.is_empty() {
            return Some(("disabled-ping".into(), format!("keepalive disabled but a ping was sent at {} ms", o.pings[0])));
        }
        if timed_out {
            return Some(("disabled-timeout".into(), format!("keepalive disabled but the connection timed out at {end} ms")));
        }
        return None;
    };
    // a ping every I from start-up until the end
    let mut expect = 0u64;
    for &p in &o.pings {
        if p != expect {
            return Some(("ping-schedule".into(), format!("{cfg}: ping at {p} ms, expected one at {expect} ms (pings {:?})", o.pings)));
        }
        expect += iv;
    }
    // (once the sink is blocked no ping can be handed to it: pings are demanded for the ticks before that)
    let ping_end = case.block.map_or(end, |b| b.min(end));
    let blocked_by_end = case.block.is_some_and(|b| b <= end);
    if expect < ping_end || (!timed_out && expect == end && !blocked_by_end) {
        return Some(("ping-missing".into(), format!("{cfg}: no ping at {expect} ms although the connection lived until {end} ms")));
    }
    if let Exit::Timeout { close_at, exit_at } = &o.exit {
        if exit_at != close_at {
            return Some(("late-exit".into(), format!("{cfg}: transport closed at {close_at} ms, task returned at {exit_at} ms")));
        }
    }
    let last_pong = o.pongs.iter().copied().filter(|&p| p <= end).max().unwrap_or(0);
    if timed_out {
        let Some(tv) = t else {
            return Some(("timeout-none".into(), format!("{cfg}: no timeout configured but the connection timed out at {end} ms")));
        };
        let since = end - last_pong;
        // every ping sent so far was answered within T => no timeout allowed
        // (with a blocked sink the pings issued at the ticks before `end` count, handed to the sink or not:
        // one that never left has not been answered)
        let issued = if case.block.is_some() { end.div_ceil(iv) as usize } else { o.pings.len() };
        let sent: Vec<Option<u64>> = (0..issued).map(|k| case.delay(k, iv)).collect();
        if tv >= iv && sent.iter().all(|d| d.is_some_and(|d| d <= tv)) {
            let key = if tv % iv == 0 { "live-peer-timeout" } else { "live-peer-timeout-T-not-multiple-of-I" };
            return Some((
                format!("{key} {cfg} delays={}", delays_tok(&sent)),
                format!("{cfg}: every ping was answered within T (delays {}) but the connection timed out at {end} ms", delays_tok(&sent)),
            ));
        }
        if since <= tv {
            return Some((
                format!("early-timeout {cfg}"),
                format!("{cfg}: timed out at {end} ms, only {since} ms after the last pong ({last_pong} ms)"),
            ));
        }
        if since > tv + iv {
            return Some((
                format!("late-timeout {cfg}"),
                format!("{cfg}: timed out at {end} ms, {since} ms after the last pong ({last_pong} ms) > T + I"),
            ));
        }
    } else if let Some(tv) = t {
        // still alive at the horizon: the last pong must be recent enough
        if end - last_pong > tv + iv {
            return Some((
                format!("dead-peer-not-detected {cfg}"),
                format!("{cfg}: last pong at {last_pong} ms, still no timeout at {end} ms (> T + I later)"),
            ));
        }
    }
    if let Exit::Hung { close_at } = &o.exit {
        // the timeout was detected (the task began to close the transport) but the task never returned:
        // the connection is not terminated, no pending call ever fails. Under the paused clock "not
        // returned at the horizon" means every future of the task is parked for good.
        let why = if case.wedge && case.block.is_some_and(|b| b <= *close_at) {
            "wind-down-stuck-on-blocked-sink"
        } else {
            "task-stuck-after-timeout"
        };
        return Some((
            format!("{why} {cfg}"),
            format!("{cfg}: keepalive timeout detected at {close_at} ms (the task started closing the transport) but the task had not returned at {} ms and never will: {}", case.horizon,
                if why == "wind-down-stuck-on-blocked-sink" { "wind_down awaits poll_close, which cannot complete while the sink is blocked (a close that has to flush first); the connection is never reported as ended" } else { "it is parked in wind_down" }),
        ));
    }
    None
}

// ---------------------------------------------------------------------------------------------
// Generators
// ---------------------------------------------------------------------------------------------

const INTERVALS: [u64; 9] = [2, 3, 7, 10, 100, 250, 1000, 3000, 25_000];

fn gen_noise(r: &mut Rng) -> Setter {
    match r.below(6) {
        0 => Setter::Dg(r.range(1, 2000)),
        1 => Setter::Sb(r.range(1, 64)),
        2 => Setter::Bb(r.range(0, 8)),
        3 => Setter::Fr(r.range(1, 9)),
        4 => Setter::Rw(*r.pick(&[1, 4, 512, 65_536, 4_294_967_295])),
        _ => Setter::Th(r.range(1, 600)),
    }
}

fn rel_timeout(r: &mut Rng, i: u64) -> Option<u64> {
    Some(match r.below(14) {
        0 => return None,
        1 => 1,
        2 => (i / 2).max(1),
        3 => (i - 1).max(1),
        4 => i,
        5 => i + 1,
        6 => i + i / 2,
        7 => 2 * i - 1,
        8 => 2 * i,
        9 => 2 * i + 1,
        10 => 2 * i + i / 2,
        11 => 3 * i,
        12 => 60 * i / 25,
        _ => 5 * i,
    })
}

/// Builder call sequences that end in a chosen (interval, requested timeout), in different orders.
fn gen_calls(r: &mut Rng, i: Option<u64>, t: Option<u64>) -> Vec<Setter> {
    let other_i = Some(*r.pick(&INTERVALS));
    let other_t = Some(r.range(1, 30_000));
    let mut calls = match r.below(8) {
        0 => vec![Setter::I(i), Setter::T(t)],
        1 => vec![Setter::T(t), Setter::I(i)],
        2 => vec![Setter::I(other_i), Setter::T(t), Setter::I(i)],
        3 => vec![Setter::T(other_t), Setter::I(i), Setter::T(t)],
        4 => vec![Setter::I(None), Setter::T(t), Setter::I(i)],
        5 => vec![Setter::T(None), Setter::I(other_i), Setter::T(t), Setter::I(i)],
        6 => vec![Setter::I(i), Setter::T(other_t), Setter::I(other_i), Setter::I(i), Setter::T(t)],
        _ => vec![Setter::T(t), Setter::I(other_i), Setter::I(i)],
    };
    if r.chance(1, 3) {
        let k = r.below(calls.len() as u64 + 1) as usize;
        calls.insert(k, gen_noise(r));
    }
    calls
}

fn gen_case(r: &mut Rng) -> Case {
    let i = if r.chance(1, 14) { None } else { Some(*r.pick(&INTERVALS)) };
    let t = match i {
        Some(iv) => rel_timeout(r, iv),
        None => if r.chance(1, 2) { None } else { Some(r.range(1, 5000)) },
    };
    let calls = match r.below(12) {
        0 if i.is_none() && t.is_none() => vec![],
        1 if t.is_none() => vec![Setter::I(i)],
        2 if i.is_none() => vec![Setter::T(t)],
        _ => gen_calls(r, i, t),
    };
    let iv = i.unwrap_or(1000);
    // the timeout the documentation promises (for sizing delays and the horizon only)
    let tv = t.map_or(3 * iv, |x| x.max(iv));
    let n_answered = r.below(7) as usize;
    let within = |r: &mut Rng| -> u64 {
        match r.below(6) {
            0 => 0,
            1 => tv,
            2 => iv.min(tv),
            3 => r.range(0, iv),
            _ => r.range(0, tv),
        }
    };
    let (delays, rest): (Vec<Option<u64>>, Option<u64>) = match r.below(10) {
        0 => (vec![], Some(0)),                                                         // always answered at once
        1 => (vec![], Some(tv)),                                                        // always answered after exactly T
        2 => { let d = within(r); (vec![], Some(d)) }                                   // constant delay within T
        3 => ((0..r.range(4, 40)).map(|_| Some(within(r))).collect(), Some(within(r))), // varying delays within T
        4 | 5 => ((0..n_answered).map(|_| Some(within(r))).collect(), None),            // k rounds then silent
        6 => (vec![], None),                                                            // never answered
        7 => ((0..r.range(1, 12)).map(|_| Some(r.range(tv + 1, tv + 3 * iv))).collect(), if r.chance(1, 2) { None } else { Some(tv + 1) }), // late
        8 => ((0..n_answered).map(|_| Some(r.range(0, iv))).collect(), None),           // prompt for k rounds then silent
        _ => ((0..r.range(1, 30)).map(|_| if r.chance(1, 4) { None } else { Some(r.range(0, tv + iv)) }).collect(), if r.chance(1, 2) { None } else { Some(within(r)) }),
    };
    let extra: Vec<u64> = if r.chance(1, 8) { (0..r.range(1, 4)).map(|_| r.range(0, 12 * iv)).collect() } else { vec![] };
    let ticks = match r.below(4) {
        0 => r.range(1, 6),
        1 => delays.len() as u64 + tv / iv + r.range(2, 5),
        _ => delays.len() as u64 + r.range(0, 2 * (tv / iv) + 6),
    }
    .min(80);
    let horizon = ticks * iv + 1;
    // a peer with its own keepalive (or an intermediary that pings): regularly, or at random times
    let pp: Vec<u64> = match r.below(8) {
        0 => { let per = (*r.pick(&[iv / 2, iv, tv / 2, tv])).max(1); let off = r.range(0, per); (0..).map(|k| off + k * per).take_while(|t| *t < horizon).take(400).collect() }
        1 => (0..r.range(1, 6)).map(|_| r.range(0, horizon)).collect(),
        _ => vec![],
    };
    let mut c = Case { calls, delays, rest, extra, pp, horizon, silent: r.chance(1, 16), ..Case::plain() };
    if r.chance(1, 10) {
        // the peer answers k pings and then is gone while our sending direction backs up: from `block` on
        // the sink accepts nothing more (with / without application traffic queued behind the pings,
        // with a close that completes at once / that has to flush first)
        let k = r.below(6);
        if r.chance(2, 3) {
            c.delays = (0..k).map(|_| Some(r.range(0, iv.min(tv)))).collect();
            c.rest = None;
        }
        let block = match r.below(5) {
            0 => (k * iv).saturating_sub(iv) + 1,
            1 => k * iv,
            2 => k * iv + r.range(1, iv - 1),
            3 => (k * iv).saturating_sub(1),
            _ => r.range(0, c.horizon),
        };
        c.block = Some(block);
        c.wedge = r.chance(1, 2);
        let times = |r: &mut Rng| -> Vec<u64> { let mut v: Vec<u64> = (0..r.range(1, 6)).map(|_| r.range(0, block + 2 * iv)).collect(); v.sort_unstable(); v };
        if r.chance(2, 3) { c.dg = times(r); }
        if r.chance(1, 3) { c.pw = times(r); }
        if r.chance(3, 4) {
            c.horizon = c.horizon.max(((block + tv) / iv + 3).min(200) * iv + 1);
        }
    }
    c
}

fn gen_builder_seq(r: &mut Rng) -> Vec<Setter> {
    const POOL: [Option<u64>; 9] = [None, Some(0), Some(1), Some(3000), Some(5000), Some(10_000), Some(10_001), Some(20_000), Some(25_000)];
    let n = r.below(9) as usize;
    (0..n)
        .map(|_| match r.below(10) {
            0..=3 => Setter::I(if r.chance(1, 6) { Some(r.range(1, 100_000)) } else { *r.pick(&POOL) }),
            4..=7 => Setter::T(if r.chance(1, 6) { Some(r.range(1, 100_000)) } else { *r.pick(&POOL) }),
            8 => gen_noise(r),
            _ if r.chance(3, 4) => gen_noise(r),
            _ => match r.below(6) {
                // values on which the documented asserts fire
                0 => Setter::Dg(0),
                1 => Setter::Sb(0),
                2 => Setter::Fr(0),
                3 => Setter::Rw(0),
                4 => Setter::Th(0),
                _ => Setter::Bb(0),
            },
        })
        .collect()
}

// ---------------------------------------------------------------------------------------------
// Long uptime: intervals of minutes to days, weeks and months of model time before anything happens
// ---------------------------------------------------------------------------------------------

const MINUTE: u64 = 60_000;
const HOUR: u64 = 60 * MINUTE;
const DAY: u64 = 24 * HOUR;

/// Uptimes (ms) at which a counter of elapsed time narrower than 64 bits wraps or saturates:
/// 2^31 / 2^32 microseconds (35.8 / 71.6 min), 2^16 seconds (18.2 h), 2^31 / 2^32 milliseconds
/// (24.9 / 49.7 days). All time arithmetic of the harness and of the model is u64 / `Nat` milliseconds.
const UPTIME_MARKS: [(&str, u64); 5] =
    [("2^31us", (1 << 31) / 1000), ("2^32us", (1 << 32) / 1000), ("2^16s", (1 << 16) * 1000), ("2^31ms", 1 << 31), ("2^32ms", 1 << 32)];

/// A peer that answers the first `n` pings (ping `k`, sent at `k * iv`, after `delay(k)` ms) and is
/// silent from then on: the task has to end with a keepalive timeout in (T, T + I] after the last pong.
fn long_uptime_dead(calls: Vec<Setter>, iv: u64, tv: u64, n: u64, mut delay: impl FnMut(u64) -> u64) -> Case {
    let delays: Vec<Option<u64>> = (0..n).map(|k| Some(delay(k))).collect();
    let last_pong = (0..n).map(|k| k * iv + delays[k as usize].unwrap_or(0)).max().unwrap_or(0);
    Case { calls, delays, rest: None, horizon: ((last_pong + tv) / iv + 6) * iv + 1, ..Case::plain() }
}

/// The mirror: a peer that answers every ping after `d` ms, for `ticks` intervals: never timed out.
fn long_uptime_live(calls: Vec<Setter>, iv: u64, d: u64, ticks: u64) -> Case {
    Case { calls, delays: vec![], rest: Some(d), horizon: ticks * iv + 1, ..Case::plain() }
}

/// The fixed part of the family. `full`: the larger grid of the thorough tier.
fn long_uptime_grid(full: bool) -> Vec<Case> {
    let mut v = vec![];
    let ivs: &[u64] = if full { &[DAY, 6 * HOUR, 12 * HOUR, 7 * HOUR, 2 * DAY] } else { &[DAY, 6 * HOUR] };
    for &iv in ivs {
        // (a T that is not a multiple of I is safe here: every answer comes within one interval)
        let tvs: &[u64] = if full { &[iv, 2 * iv, 3 * iv, iv + iv / 2, 5 * iv] } else { &[iv, 2 * iv, 3 * iv] };
        for &tv in tvs {
            let calls = |order: u64| match order % 3 {
                0 => vec![Setter::I(Some(iv)), Setter::T(Some(tv))],
                1 => vec![Setter::T(Some(tv)), Setter::I(Some(iv))],
                _ => vec![Setter::I(Some(3000)), Setter::T(Some(tv)), Setter::I(Some(iv))],
            };
            // the peer answers at once for N days, then falls silent
            for (j, days) in [10u64, 24, 25, 49, 50, 52, 60, 100].into_iter().enumerate() {
                v.push(long_uptime_dead(calls(if full { j as u64 } else { 0 }), iv, tv, (days * DAY).div_ceil(iv), |_| 0));
            }
            // ... and one that keeps answering for 120 days
            v.push(long_uptime_live(calls(0), iv, 0, (120 * DAY).div_ceil(iv)));
            if full {
                // the last pong just before / at / just after each mark, and within T before it
                for (_, mark) in UPTIME_MARKS {
                    if mark / iv > 600 || mark < 2 * iv {
                        continue;
                    }
                    let k = mark / iv; // ping k is the last one sent before (or at) the mark
                    for (n, d) in [(k, 0), (k + 1, 0), (k + 1, (mark - k * iv).saturating_sub(1)), (k + 1, mark - k * iv), (k + 1, (mark - k * iv + 1).min(iv - 1)), (k + 2, 0), ((k + 1).saturating_sub(tv / iv), 0)] {
                        if n == 0 {
                            continue;
                        }
                        v.push(long_uptime_dead(calls(n), iv, tv, n, |j| if j + 1 == n { d } else { 0 }));
                    }
                }
                v.push(long_uptime_live(calls(1), iv, iv - 1, (120 * DAY).div_ceil(iv)));
                v.push(long_uptime_live(calls(2), iv, iv.min(5 * MINUTE), (120 * DAY).div_ceil(iv)));
            }
        }
    }
    if full {
        // shorter intervals around the marks that are hours, not weeks, away
        for (iv, marks) in [(MINUTE, &UPTIME_MARKS[..2]), (10 * MINUTE, &UPTIME_MARKS[..3]), (HOUR, &UPTIME_MARKS[2..3])] {
            for tv in [iv, 2 * iv, 3 * iv] {
                for (_, mark) in marks {
                    let k = mark / iv;
                    if k > 600 {
                        continue;
                    }
                    for n in [k.saturating_sub(3), k, k + 1, k + 2, k + 5] {
                        v.push(long_uptime_dead(vec![Setter::I(Some(iv)), Setter::T(Some(tv))], iv, tv, n.max(1), |_| 0));
                    }
                    v.push(long_uptime_live(vec![Setter::I(Some(iv)), Setter::T(Some(tv))], iv, 0, k + 40));
                }
            }
        }
        // a timeout that is itself longer than 2^32 ms: silent from the start / after five days
        for tv in [30 * DAY, 50 * DAY, 60 * DAY] {
            for n in [0u64, 5] {
                v.push(long_uptime_dead(vec![Setter::I(Some(DAY)), Setter::T(Some(tv))], DAY, tv, n, |_| 0));
            }
        }
    }
    v
}

/// The random part of the family: an interval of a minute to two days, a timeout of one to five
/// intervals, a peer that answers promptly (each answer within one interval) until an uptime chosen
/// near one of the marks or anywhere up to 130 days, and then falls silent -- or never does.
fn gen_long_uptime(r: &mut Rng) -> Case {
    const IVS: [u64; 9] = [MINUTE, 10 * MINUTE, HOUR, 6 * HOUR, 7 * HOUR, 12 * HOUR, DAY, DAY + 1, 2 * DAY];
    const MAX_TICKS: u64 = 640;
    let up = if r.chance(2, 3) {
        let (_, m) = *r.pick(&UPTIME_MARKS);
        m
    } else {
        r.range(DAY, 130 * DAY)
    };
    let fit: Vec<u64> = IVS.iter().copied().filter(|iv| up / iv + 8 <= MAX_TICKS && up / iv >= 2).collect();
    let iv = *r.pick(&fit);
    let tv = match r.below(7) {
        0 | 1 => iv,
        2 | 3 => 2 * iv,
        4 => 3 * iv,
        5 => iv + iv / 2,
        _ => 5 * iv,
    };
    // the number of answered pings: the last answered one is sent within a few intervals of `up`
    let n = (up / iv + 1 + r.below(4 + tv / iv)).saturating_sub(r.below(4 + tv / iv)).clamp(1, MAX_TICKS);
    let calls = gen_calls(r, Some(iv), Some(tv));
    let style = r.below(4);
    let c = r.range(0, (iv - 1).min(5 * MINUTE));
    let delay = |r: &mut Rng| match style {
        0 | 1 => 0,
        2 => c,
        _ => r.range(0, iv - 1),
    };
    if r.chance(1, 4) {
        let d = delay(r);
        long_uptime_live(calls, iv, d, (n + r.range(2, 40)).min(MAX_TICKS + 40))
    } else {
        let ds: Vec<u64> = (0..n).map(|_| delay(r)).collect();
        long_uptime_dead(calls, iv, tv, n, |k| ds[k as usize])
    }
}

// ---------------------------------------------------------------------------------------------
// Evaluation
// ---------------------------------------------------------------------------------------------

struct Ctx {
    rep: Report,
    drv: Option<Driver>,
    hung: u64,
    exited_after_silent_close: u64,
    /// one (shrunk) failure per kind is reported
    seen_kinds: std::collections::HashSet<String>,
    /// model disagreements recorded so far (capped, so that they cannot crowd out failing inputs)
    model_fails: usize,
    /// long-uptime family: pings observed in all its runs, the latest ping time (ms of model time)
    long_uptime_ticks: u64,
    long_uptime_max_ms: u64,
}

const MAX_MODEL_FAILS: usize = 6;

impl Ctx {
    fn builder_batch(&mut self, seqs: &[Vec<Setter>], origin: &str) {
        let reqs: Vec<String> = seqs.iter().map(|s| format!("build {}", calls_line(s))).collect();
        let model = self.drv.as_mut().map(|d| d.batch(&reqs));
        for (k, calls) in seqs.iter().enumerate() {
            let got = build_observed(calls);
            let nk = calls.iter().filter(|c| c.is_keepalive()).count();
            self.rep.case((nk >= 2).then(|| fnv(reqs[k].as_bytes())));
            self.rep.count(&format!("builder/{origin}"));
            self.rep.count(&format!("builder/keepalive-calls/{}", nk.min(4)));
            let line = match &got {
                Ok(e) => {
                    self.rep.count(match (e.interval, e.timeout) {
                        (None, None) => "builder/result/disabled,no-timeout",
                        (None, Some(_)) => "builder/result/disabled,finite-timeout",
                        (Some(_), None) => "builder/result/enabled,no-timeout",
                        (Some(i), Some(t)) if t == i => "builder/result/T=I",
                        (Some(i), Some(t)) if t < i => "builder/result/T<I",
                        _ => "builder/result/T>I",
                    });
                    e.line()
                }
                Err(_) => {
                    self.rep.count("builder/result/panic");
                    "panic".to_string()
                }
            };
            if let Some((kind, why)) = builder_oracle(calls, &got) {
                if self.seen_kinds.insert(kind.to_string()) {
                    let same = |c: &[Setter]| builder_oracle(c, &build_observed(c)).is_some_and(|(k, _)| k == kind);
                    let small = shrink_list(calls.clone(), same);
                    let why_small = builder_oracle(&small, &build_observed(&small)).map_or(why, |(_, w)| w);
                    self.rep.fail(
                        FailKind::Impl,
                        &format!("{kind} build {}", calls_line(&small)),
                        &why_small,
                        json!({"op": "build", "line": format!("build {}", calls_line(&small)), "original": reqs[k]}),
                    );
                }
            }
            if let Some(m) = &model {
                self.rep.model_compared += 1;
                if m[k] != line && self.model_fails < MAX_MODEL_FAILS {
                    self.model_fails += 1;
                    self.rep.fail(
                        FailKind::Model,
                        &reqs[k],
                        &format!("model `{}` vs implementation `{line}`", m[k]),
                        json!({"op": "build", "line": reqs[k], "model": m[k], "impl": line}),
                    );
                }
            }
            if k == 0 {
                self.rep.sample(json!({"builder": reqs[k], "impl": line}));
            }
        }
    }

    /// The long-uptime family: the same runs, model comparison and monitors as every other case, plus
    /// its own buckets in the distribution (where on the uptime axis the peer falls silent).
    fn long_uptime_batch(&mut self, cases: &[Case], threads: usize) {
        for c in cases {
            self.rep.count("family/long-uptime");
            let Some((Some(iv), Some(tv))) = spec_config(&c.calls) else { continue };
            self.rep.count(&format!(
                "long-uptime/interval/{}",
                match iv { x if x < HOUR => "minutes", x if x < DAY => "hours", _ => "days" }
            ));
            self.rep.count(&format!(
                "long-uptime/timeout/{}",
                match (tv / iv, tv % iv) { (1, 0) => "T=I", (2, 0) => "T=2I", (3, 0) => "T=3I", (_, 0) => "T=kI,k>3", _ => "T-not-a-multiple-of-I" }
            ));
            let upto = if c.rest.is_some() {
                self.rep.count("long-uptime/peer/answers-every-ping-until-the-horizon");
                c.horizon
            } else {
                self.rep.count("long-uptime/peer/answers-promptly-then-falls-silent");
                c.delays.iter().enumerate().filter_map(|(k, d)| d.map(|d| k as u64 * iv + d)).max().unwrap_or(0)
            };
            let bucket = UPTIME_MARKS.iter().rev().find(|(_, m)| upto >= *m).map_or_else(|| format!("below-{}", UPTIME_MARKS[0].0), |(name, _)| format!("at-or-above-{name}"));
            self.rep.count(&format!("long-uptime/{}/{bucket}", if c.rest.is_some() { "answered-until" } else { "last-pong" }));
            if c.rest.is_none() && UPTIME_MARKS.iter().any(|(_, m)| upto < *m && upto + tv >= *m) {
                self.rep.count("long-uptime/last-pong/within-T-before-a-mark");
            }
        }
        self.run_batch(cases, "long-uptime", threads);
    }

    fn run_batch(&mut self, cases: &[Case], origin: &str, threads: usize) {
        // the real task, in parallel (each case has its own runtime and clock)
        let mut obs: Vec<Option<Result<Obs, String>>> = vec![None; cases.len()];
        let chunk = cases.len().div_ceil(threads.max(1)).max(1);
        std::thread::scope(|s| {
            for (cs, os) in cases.chunks(chunk).zip(obs.chunks_mut(chunk)) {
                s.spawn(move || {
                    for (c, o) in cs.iter().zip(os.iter_mut()) {
                        *o = Some(run_real(c));
                    }
                });
            }
        });
        let obs: Vec<Result<Obs, String>> = obs.into_iter().map(|o| o.expect("ran")).collect();
        let mut reqs = vec![];
        let mut idx = vec![];
        for (k, (c, o)) in cases.iter().zip(&obs).enumerate() {
            if let Ok(o) = o {
                reqs.push(model_req(c, &o.eff));
                idx.push(k);
            }
        }
        let model = self.drv.as_mut().map(|d| d.batch(&reqs));
        let mut mi = 0usize;
        for (k, (c, o)) in cases.iter().zip(&obs).enumerate() {
            let line = c.line();
            self.rep.count(&format!("run/{origin}"));
            let Ok(o) = o else {
                // a documented builder assert fired: nothing to run
                self.rep.case(None);
                self.rep.count("run/builder-panic");
                continue;
            };
            let ticks_in_horizon = o.eff.interval.filter(|&i| i > 0).map_or(0, |i| c.horizon / i + 1);
            self.rep.case((ticks_in_horizon >= 2).then(|| fnv(line.as_bytes())));
            self.rep.count(match &o.exit {
                Exit::Alive => "run/exit/alive-at-horizon",
                Exit::Timeout { .. } => "run/exit/keepalive-timeout",
                Exit::Hung { .. } => "run/exit/timeout-then-stuck-in-wind-down",
                Exit::Other { .. } => "run/exit/other",
                Exit::Panic(_) => "run/exit/panic",
            });
            if origin == "long-uptime" {
                self.rep.count(match &o.exit {
                    Exit::Alive => "long-uptime/exit/alive-at-horizon",
                    Exit::Timeout { .. } => "long-uptime/exit/keepalive-timeout",
                    _ => "long-uptime/exit/other",
                });
                self.long_uptime_ticks += o.pings.len() as u64;
                self.long_uptime_max_ms = self.long_uptime_max_ms.max(o.pings.last().copied().unwrap_or(0));
            }
            self.rep.count(match (o.eff.interval, o.eff.timeout) {
                (None, _) => "run/config/disabled",
                (Some(0), _) => "run/config/zero-interval",
                (Some(_), None) => "run/config/no-timeout",
                (Some(i), Some(t)) if t == i => "run/config/T=I",
                (Some(i), Some(t)) if t < i => "run/config/T<I",
                (Some(i), Some(t)) if t % i == 0 => "run/config/T=kI",
                _ => "run/config/T>I",
            });
            self.rep.count(&format!("run/pongs-received/{}", match o.pongs.len() { 0 => "0", 1..=3 => "1-3", 4..=15 => "4-15", _ => "16+" }));
            if let (Some(iv), Some(tv)) = (o.eff.interval, o.eff.timeout) {
                // boundaries of the check `T < now - last_pong` (strict) and of "pongs are read before the tick"
                let lp_at = |x: u64| o.pongs.iter().copied().filter(|&p| p <= x).max().unwrap_or(0);
                if o.pings.iter().any(|&x| x > 0 && x - lp_at(x) == tv) {
                    self.rep.count("run/boundary/last-pong-exactly-T-old-at-a-tick-and-survived");
                }
                if iv > 0 && o.pongs.iter().any(|&p| p > 0 && p % iv == 0) {
                    self.rep.count("run/boundary/pong-read-exactly-at-a-tick");
                }
                if let Exit::Timeout { close_at, .. } = &o.exit {
                    let since = close_at - lp_at(*close_at);
                    if since == tv + 1 {
                        self.rep.count("run/boundary/timeout-at-T+1");
                    }
                    if since == tv + iv {
                        self.rep.count("run/boundary/timeout-at-T+I");
                    }
                }
            }
            if c.block.is_some() {
                self.rep.count(&format!("run/sink-blocked/{}{}", if c.wedge { "close-must-flush" } else { "close-at-once" }, if c.dg.is_empty() && c.pw.is_empty() { "" } else { ",traffic-queued" }));
            }
            if c.silent {
                match &o.exit {
                    Exit::Hung { .. } => self.hung += 1,
                    Exit::Timeout { .. } => self.exited_after_silent_close += 1,
                    _ => {}
                }
            }
            if let Some((key, why)) = run_oracle(c, o).filter(|(k, _)| self.seen_kinds.insert(k.split(' ').next().unwrap_or("").to_string())) {
                let (small, key, why) = shrink_case(c, key, why);
                self.rep.fail(FailKind::Impl, &key, &why, json!({"op": "case", "line": small.line(), "original": line, "observed": obs_line(o)}));
            }
            if let Some(m) = &model {
                debug_assert_eq!(idx[mi], k);
                self.rep.model_compared += 1;
                let got = obs_line(o);
                if m[mi] != got && self.model_fails < MAX_MODEL_FAILS {
                    self.model_fails += 1;
                    self.rep.fail(
                        FailKind::Model,
                        &line,
                        &format!("model `{}` vs implementation `{got}` for `{}`", m[mi], reqs[mi]),
                        json!({"op": "case", "line": line, "model": m[mi], "impl": got, "request": reqs[mi]}),
                    );
                }
            }
            mi += 1;
            if k < 3 {
                self.rep.sample(json!({"case": line, "effective": o.eff.line(), "observed": obs_line(o), "pongs_received_at": o.pongs}));
            }
        }
    }
}

fn oracle_of(c: &Case) -> Option<(String, String)> {
    run_real(c).ok().and_then(|o| run_oracle(c, &o))
}

/// Shrink a failing run: fewer builder calls, shorter script, no extras, shorter horizon — keeping
/// the same kind of failure (first word of the key).
fn shrink_case(c: &Case, key: String, why: String) -> (Case, String, String) {
    let kind = key.split(' ').next().unwrap_or("").to_string();
    let same = |x: &Case| oracle_of(x).is_some_and(|(k, _)| k.split(' ').next() == Some(kind.as_str()));
    let mut cur = c.clone();
    let calls = shrink_list(cur.calls.clone(), |cs| same(&Case { calls: cs.to_vec(), ..cur.clone() }));
    cur.calls = calls;
    if !cur.extra.is_empty() && same(&Case { extra: vec![], ..cur.clone() }) {
        cur.extra = vec![];
    }
    if !cur.pp.is_empty() && same(&Case { pp: vec![], ..cur.clone() }) {
        cur.pp = vec![];
    }
    while !cur.delays.is_empty() {
        let mut d = cur.delays.clone();
        let last = d.pop().expect("non-empty");
        let cand = Case { delays: d, ..cur.clone() };
        if last == cur.rest && same(&cand) {
            cur = cand;
        } else {
            break;
        }
    }
    if cur.silent && same(&Case { silent: false, ..cur.clone() }) {
        cur.silent = false;
    }
    if !cur.dg.is_empty() && same(&Case { dg: vec![], ..cur.clone() }) {
        cur.dg = vec![];
    }
    if !cur.pw.is_empty() && same(&Case { pw: vec![], ..cur.clone() }) {
        cur.pw = vec![];
    }
    if cur.wedge && same(&Case { wedge: false, ..cur.clone() }) {
        cur.wedge = false;
    }
    if cur.block.is_some() && same(&Case { block: None, wedge: false, ..cur.clone() }) {
        cur.block = None;
        cur.wedge = false;
    }
    if let Some((i, _)) = spec_config(&cur.calls).and_then(|(i, t)| i.map(|i| (i, t))) {
        if i > 0 {
            // the smallest number of ticks (up to a bound) that still shows the failure
            let n = cur.horizon / i;
            if let Some(m) = (1..n.min(120)).find(|m| same(&Case { horizon: m * i + 1, ..cur.clone() })) {
                cur.horizon = m * i + 1;
            }
        }
    }
    match oracle_of(&cur) {
        Some((k, w)) => (cur, k, w),
        None => (c.clone(), key, why),
    }
}

fn replay(path: &str) -> i32 {
    let text = std::fs::read_to_string(path).expect("read replay file");
    let v: pvh::Value = serde_json::from_str(&text).expect("replay json");
    let rp = if v.get("replay").is_some() { &v["replay"] } else { &v };
    let line = rp["line"].as_str().unwrap_or("");
    match rp["op"].as_str() {
        Some("build") => {
            let Some(calls) = line.strip_prefix("build ").and_then(parse_calls) else {
                println!("cannot parse `{line}`");
                return 2;
            };
            let got = build_observed(&calls);
            println!("calls      {}", calls_line(&calls));
            println!("real       {}", got.as_ref().map_or_else(|p| format!("panic: {p}"), Eff::line));
            println!("documented {:?}", spec_config(&calls));
            match builder_oracle(&calls, &got) {
                Some((_kind, why)) => {
                    println!("FAILS: {why}");
                    1
                }
                None => {
                    println!("holds on this input");
                    0
                }
            }
        }
        Some("case") => {
            let Some(c) = Case::parse(line) else {
                println!("cannot parse `{line}`");
                return 2;
            };
            match run_real(&c) {
                Err(p) => {
                    println!("builder panicked: {p}");
                    0
                }
                Ok(o) => {
                    println!("case       {}", c.line());
                    println!("effective  {}", o.eff.line());
                    println!("documented {:?}", spec_config(&c.calls));
                    println!("pings at   {:?}", o.pings);
                    println!("pongs at   {:?}", o.pongs);
                    println!("exit       {:?}", o.exit);
                    match run_oracle(&c, &o) {
                        Some((_k, why)) => {
                            println!("FAILS: {why}");
                            1
                        }
                        None => {
                            println!("holds on this input");
                            0
                        }
                    }
                }
            }
        }
        Some(op) if op.starts_with("od-") => {
            // the `OptionalDuration` algebra is a fixed, exhaustive table: re-run it (without the model)
            let args = Args::parse();
            let mut cx = Ctx {
                rep: Report::new("keepalive", &args, "replay of the OptionalDuration algebra table"),
                drv: None,
                hung: 0,
                exited_after_silent_close: 0,
                seen_kinds: std::collections::HashSet::new(),
                model_fails: 0,
                long_uptime_ticks: 0,
                long_uptime_max_ms: 0,
            };
            od_algebra(&mut cx);
            if cx.rep.has_failures() {
                println!("FAILS: the OptionalDuration algebra table");
                1
            } else {
                println!("holds");
                0
            }
        }
        _ => {
            println!("unknown replay");
            2
        }
    }
}

/// The algebra of `OptionalDuration` on its own (timing.rs: `Ord`, `From<Duration>`, `FromStr`,
/// `cmp_duration`), which the keepalive clamp (`min`/`max` of interval and timeout), the tick test and the
/// command line rest on: every pair / triple over a value grid with NONE, a finite zero and boundary values,
/// against (a) the order's specification computed here — NONE is the greatest element, finite values compare
/// as numbers, the order is total, antisymmetric and transitive, `max` is the greater one — and (b) the model.
fn od_algebra(cx: &mut Ctx) {
    use std::cmp::Ordering;
    let grid: Vec<Option<u64>> = vec![None, Some(0), Some(1), Some(2), Some(999), Some(1000), Some(1001), Some(u64::from(u32::MAX)), Some(1 << 40)];
    let tok = |o: OptionalDuration| -> String { Option::<Duration>::from(o).map_or_else(|| "-".to_string(), |d| d.as_millis().to_string()) };
    let name = |c: Ordering| match c { Ordering::Less => "lt", Ordering::Equal => "eq", Ordering::Greater => "gt" };
    let mut reqs = vec![];
    let mut got = vec![];
    for &a in &grid {
        for &b in &grid {
            let (x, y) = (od(a), od(b));
            let c = x.cmp(&y);
            cx.rep.case(Some(pvh::fnv(format!("od cmp {a:?} {b:?}").as_bytes())));
            cx.rep.count(&format!("od-algebra/cmp:{}", name(c)));
            // (a) the specification
            let want = match (a, b) { (None, None) => Ordering::Equal, (None, Some(_)) => Ordering::Greater, (Some(_), None) => Ordering::Less, (Some(p), Some(q)) => p.cmp(&q) };
            let mx = x.max(y);
            let bad = c != want || y.cmp(&x) != want.reverse() || (x <= y) != (want != Ordering::Greater) || (x == y) != (a == b)
                || tok(mx) != tok(if want == Ordering::Greater { x } else { y });
            if bad {
                cx.rep.fail(FailKind::Impl, "od-order", &format!("OptionalDuration order: {a:?} vs {b:?}: cmp {c:?}, max {}", tok(mx)), json!({"op": "od-cmp", "a": a, "b": b}));
            }
            for &z in &grid {
                let w = od(z);
                if x <= y && y <= w && !(x <= w) {
                    cx.rep.fail(FailKind::Impl, "od-order", &format!("OptionalDuration order is not transitive on {a:?} {b:?} {z:?}"), json!({"op": "od-trans", "a": a, "b": b, "c": z}));
                }
            }
            reqs.push(format!("od cmp {} {}", od_tok(a), od_tok(b)));
            got.push(format!("{} max={} le={}", name(c), tok(mx), x <= y));
            if let Some(ms) = b {
                let cd = x.cmp_duration(&Duration::from_millis(ms));
                let want_d = a.map_or(Ordering::Greater, |p| p.cmp(&ms));
                if cd != want_d {
                    cx.rep.fail(FailKind::Impl, "od-order", &format!("cmp_duration({a:?}, {ms} ms) = {cd:?}"), json!({"op": "od-cmpd", "a": a, "d": ms}));
                }
                reqs.push(format!("od cmpd {} {ms}", od_tok(a)));
                got.push(name(cd).to_string());
            }
        }
    }
    for ms in [0u64, 1, 999, 1000, 86_400_000, u64::from(u32::MAX) + 1] {
        let o = OptionalDuration::from(Duration::from_millis(ms));
        cx.rep.case(Some(pvh::fnv(format!("od from {ms}").as_bytes())));
        cx.rep.count(if o.is_none() { "od-algebra/from:none" } else { "od-algebra/from:some" });
        if o.is_none() != (ms == 0) || o.is_some() != (ms != 0) {
            cx.rep.fail(FailKind::Impl, "od-from", &format!("From<Duration>({ms} ms) = {}", tok(o)), json!({"op": "od-from", "ms": ms}));
        }
        reqs.push(format!("od from {ms}"));
        got.push(tok(o));
    }
    for text in ["0", "1", "60", "0060", "+5", "4294967296", "18446744073709551", "18446744073709551616", "-1", "", " 5", "5s", "1.5"] {
        let r: Result<OptionalDuration, _> = text.parse();
        let u = text.parse::<u64>().ok();
        cx.rep.case(Some(pvh::fnv(format!("od str {text}").as_bytes())));
        cx.rep.count(if r.is_ok() { "od-algebra/str:ok" } else { "od-algebra/str:err" });
        // the documented reading: whole seconds, 0 = none, anything that is no u64 is refused
        let want = u.map(|v| if v == 0 { "-".to_string() } else { (u128::from(v) * 1000).to_string() });
        if r.as_ref().ok().map(|o| tok(*o)) != want {
            cx.rep.fail(FailKind::Impl, "od-from-str", &format!("`{text}`.parse::<OptionalDuration>() = {:?}", r.as_ref().ok().map(|o| tok(*o))), json!({"op": "od-str", "text": text}));
        }
        reqs.push(format!("od str {}", u.map_or_else(|| "x".to_string(), |v| format!("u:{v}"))));
        got.push(r.map_or_else(|_| "err".to_string(), |o| format!("ok {}", tok(o))));
    }
    if let Some(d) = cx.drv.as_mut() {
        let ans = d.batch(&reqs);
        for ((q, m), g) in reqs.iter().zip(&ans).zip(&got) {
            cx.rep.model_compared += 1;
            if m != g {
                cx.rep.fail(FailKind::Model, "od-algebra", &format!("`{q}`: model `{m}`, implementation `{g}`"), json!({"op": "od-model", "line": q}));
                break;
            }
        }
    }
}

fn main() {
    if std::env::var_os("PVH_LOUD").is_none() {
        pvh::quiet_panics();
    }
    let args = Args::parse();
    if let Some(p) = &args.replay {
        std::process::exit(replay(p));
    }
    let rule = "builder: call sequences over all eight setters (exhaustive over a 7-value keepalive alphabet up to a length, plus random \
with boundary values and assert-triggering zeros); non-trivial = at least two keepalive setter calls. runs: the real task under the \
paused clock for (I, requested T) over a grid incl. T < I, T = I, T not a multiple of I, no timeout, disabled, built through different \
call orders, against pong scripts (always within T, k rounds then silent, never, late, mixed, unsolicited), and a long-uptime family \
(I of minutes to days, T = I .. 5 I, a peer answering promptly for up to 130 days of model time -- below, around and above 2^31 / 2^32 ms and \
the corresponding microsecond / second marks -- that then falls silent, or keeps answering for 120 days); non-trivial = keepalive \
enabled and at least two ticks inside the horizon; distinct by content";
    let mut cx = Ctx {
        rep: Report::new("keepalive", &args, rule),
        drv: args.driver.as_deref().map(|p| Driver::spawn(p, &[]).expect("start Lean driver")),
        hung: 0,
        exited_after_silent_close: 0,
        seen_kinds: std::collections::HashSet::new(),
        model_fails: 0,
        long_uptime_ticks: 0,
        long_uptime_max_ms: 0,
    };
    od_algebra(&mut cx);
    let threads = std::thread::available_parallelism().map_or(4, std::num::NonZero::get).min(16);
    let rng = Rng::new(args.seed);

    // corpus first
    let mut corpus_builds = vec![];
    let mut corpus_cases = vec![];
    for (name, text) in pvh::corpus_files(args.corpus.as_deref()) {
        for l in text.lines() {
            let l = l.trim();
            if l.is_empty() || l.starts_with('#') {
                continue;
            }
            if let Some(calls) = l.strip_prefix("build ").and_then(parse_calls) {
                corpus_builds.push(calls);
            } else if let Some(c) = Case::parse(l) {
                corpus_cases.push(c);
            } else {
                cx.rep.notes.push(format!("corpus {name}: cannot parse `{l}`"));
            }
        }
    }
    cx.builder_batch(&corpus_builds, "corpus");
    cx.run_batch(&corpus_cases, "corpus", threads);

    let (exh_len, n_builder, n_runs, n_long) = match args.tier {
        Tier::Quick => (4, 60_000, 150_000, 400),
        Tier::Thorough => (6, 1_500_000, 4_000_000, 40_000),
    };

    // builder: every sequence up to `exh_len` over a keepalive alphabet
    const ALPHA: [Setter; 7] = [
        Setter::I(None),
        Setter::I(Some(3000)),
        Setter::I(Some(10_000)),
        Setter::T(None),
        Setter::T(Some(5000)),
        Setter::T(Some(10_000)),
        Setter::T(Some(20_000)),
    ];
    let mut seqs: Vec<Vec<Setter>> = vec![];
    for len in 0..=exh_len {
        let total = ALPHA.len().pow(len);
        for mut k in 0..total {
            let mut s = Vec::with_capacity(len as usize);
            for _ in 0..len {
                s.push(ALPHA[k % ALPHA.len()].clone());
                k /= ALPHA.len();
            }
            seqs.push(s);
        }
    }
    for ch in seqs.chunks(8192) {
        cx.builder_batch(ch, "exhaustive");
    }
    cx.rep.notes.push(format!("builder sequences enumerated completely: length <= {exh_len} over a 7-symbol keepalive alphabet"));
    let mut rb = rng.fork(1);
    let mut left = n_builder;
    while left > 0 {
        let n = left.min(8192);
        let seqs: Vec<Vec<Setter>> = (0..n).map(|_| gen_builder_seq(&mut rb)).collect();
        cx.builder_batch(&seqs, "random");
        left -= n;
    }

    // runs: a fixed grid first, then random
    let mut grid = vec![];
    for &iv in &[2u64, 10, 1000] {
        for t in [None, Some(1), Some(iv / 2), Some(iv), Some(iv + 1), Some(2 * iv), Some(2 * iv + iv / 2), Some(3 * iv)] {
            for order in 0..3 {
                let calls = match order {
                    0 => vec![Setter::I(Some(iv)), Setter::T(t)],
                    1 => vec![Setter::T(t), Setter::I(Some(iv))],
                    _ => vec![Setter::I(Some(3)), Setter::T(t), Setter::I(Some(iv))],
                };
                let tv = t.map_or(3 * iv, |x| x.max(iv));
                for (delays, rest) in [
                    (vec![], Some(0)),
                    (vec![], Some(tv)),
                    (vec![], Some(iv)),
                    (vec![Some(0), Some(tv)], Some(0)),
                    (vec![Some(0); 3], None),
                    (vec![], None),
                    (vec![], Some(tv + 1)),
                ] {
                    grid.push(Case { calls: calls.clone(), delays, rest, extra: vec![], pp: vec![], horizon: (tv / iv + 9) * iv + 1, silent: false, ..Case::plain() });
                }
            }
        }
    }
    // disabled, zero interval, transport silent after close
    grid.push(Case { calls: vec![], delays: vec![], rest: Some(0), extra: vec![5], pp: vec![], horizon: 60_001, silent: false, ..Case::plain() });
    grid.push(Case { calls: vec![Setter::T(Some(5))], delays: vec![], rest: None, extra: vec![], pp: vec![], horizon: 60_001, silent: false, ..Case::plain() });
    grid.push(Case { calls: vec![Setter::I(Some(10)), Setter::I(None)], delays: vec![], rest: None, extra: vec![], pp: vec![], horizon: 601, silent: false, ..Case::plain() });
    grid.push(Case { calls: vec![Setter::I(Some(0)), Setter::T(Some(5))], delays: vec![], rest: None, extra: vec![], pp: vec![], horizon: 101, silent: false, ..Case::plain() });
    grid.push(Case { calls: vec![Setter::I(Some(1000)), Setter::T(Some(2000))], delays: vec![], rest: None, extra: vec![], pp: vec![], horizon: 20_001, silent: true, ..Case::plain() });
    // a peer that keeps pinging but never answers (link dead in one direction, or a pinging intermediary)
    grid.push(Case { calls: vec![Setter::I(Some(1000)), Setter::T(Some(2000))], delays: vec![], rest: None, extra: vec![], pp: (0..40).map(|k| 250 + k * 500).collect(), horizon: 20_001, silent: false, ..Case::plain() });
    grid.push(Case { calls: vec![Setter::I(Some(1000)), Setter::T(Some(3000))], delays: vec![Some(10), Some(10)], rest: None, extra: vec![], pp: (0..40).map(|k| k * 1000).collect(), horizon: 20_001, silent: false, ..Case::plain() });
    // the peer answers k pings at once and is then gone while our sending direction is backed up (the
    // sink accepts nothing from just after ping k-1 on), with and without application traffic queued
    // behind the pings, with a close that completes at once / that has to flush first
    for &iv in &[10u64, 1000] {
        for tv in [iv, 2 * iv, 3 * iv] {
            for k in [0u64, 2, 3] {
                let block = if k == 0 { 0 } else { (k - 1) * iv + 1 };
                for traffic in 0..3 {
                    for wedge in [false, true] {
                        let around: Vec<u64> = (0..6).map(|j| block.saturating_sub(iv) + j * iv / 2).collect();
                        grid.push(Case {
                            calls: vec![Setter::I(Some(iv)), Setter::T(Some(tv))],
                            delays: vec![Some(0); k as usize],
                            rest: None,
                            horizon: ((block + tv) / iv + 6) * iv + 1,
                            block: Some(block),
                            wedge,
                            dg: if traffic >= 1 { around.clone() } else { vec![] },
                            pw: if traffic == 2 { around.clone() } else { vec![] },
                            ..Case::plain()
                        });
                    }
                }
            }
        }
    }
    cx.run_batch(&grid, "grid", threads);

    // long uptime: intervals of hours to days, a peer that answers for weeks or months of model time and
    // then falls silent (or never does); a fixed grid around 2^31 ms / 2^32 ms of uptime, then random
    let t_long = std::time::Instant::now();
    let long_grid = long_uptime_grid(matches!(args.tier, Tier::Thorough));
    cx.long_uptime_batch(&long_grid, threads);
    let mut rl = rng.fork(3);
    let mut left = n_long;
    while left > 0 {
        let n = left.min(8192);
        let cases: Vec<Case> = (0..n).map(|_| gen_long_uptime(&mut rl)).collect();
        cx.long_uptime_batch(&cases, threads);
        left -= n;
    }
    cx.rep.notes.push(format!(
        "long-uptime family: {} grid + {} random runs, {} pings observed, latest ping at {} ms = {:.1} days of model time (paused clock), {:.2} s of wall time",
        long_grid.len(),
        n_long,
        cx.long_uptime_ticks,
        cx.long_uptime_max_ms,
        cx.long_uptime_max_ms as f64 / DAY as f64,
        t_long.elapsed().as_secs_f64()
    ));

    let mut rr = rng.fork(2);
    let mut left = n_runs;
    while left > 0 {
        let n = left.min(32_768);
        let cases: Vec<Case> = (0..n).map(|_| gen_case(&mut rr)).collect();
        cx.run_batch(&cases, "random", threads);
        left -= n;
    }

    cx.rep.notes.push(format!(
        "transport kept silent after the endpoint's close: task stuck in wind_down until the horizon in {} runs, returned in {} runs \
(the timeout itself is observed at the close; see C08 for the wind-down defect)",
        cx.hung, cx.exited_after_silent_close
    ));
    if let Some(d) = &cx.drv {
        cx.rep.notes.push(format!("driver lines: {}", d.lines));
    }
    cx.rep.finish(&args);
    std::process::exit(i32::from(cx.rep.has_failures()));
}
