//! C12 runner: outcome-set correspondence between the Lean interleaving model (`drv_waker`) and
//! the real `MuxStream::poll_write_push` / `poll_obtain_write_permission` racing with the real
//! `EstablishedStreamData::acknowledge` / `disallow_write` under loom.
//!
//! This binary does not link loom. The implementation side lives in `/repo` as the add-only,
//! cfg-guarded test module `penguin-mux/src/verif_loom.rs` (hook); it is run through
//! `cargo test` with `RUSTFLAGS="--cfg loom --cfg penguin_rs_verif"` and prints one
//! `OUTCOME <scenario> <canonical outcome>` line per distinct final outcome over all the
//! interleavings loom explores, and `EXPLORED <scenario> <executions>`.
//!
//! * Monitor (independent of the model): an implementation outcome is a violation when the writer's
//!   last poll is `Pending`, the waker of that poll was never woken and credit is available or the
//!   stream is closed (all other threads have been joined) — a lost wake-up; or when
//!   `credit + #Ready(Some) != initial + grants` — credit conservation; or when the number of
//!   `Push` frames queued differs from the number of `Ready(Some)` polls.  → `FailKind::Impl`,
//!   replay = scenario + outcome + the model's schedule reaching that outcome (if it has one).
//! * Correspondence: per scenario, implementation outcome set == model outcome set
//!   (`outcomes fixed <scenario>`), else `FailKind::Model`.

use pvh::{Args, Driver, FailKind, Report, Tier, fnv, json};
use std::collections::{BTreeMap, BTreeSet};
use std::process::Command;
use std::time::Instant;

/// The scenario family of the hook (`scenarios!` in `verif_loom.rs`), `c<credit>-p<polls>[-a<n>|-x]*`.
const FAMILY: &[&str] = &[
    "c0-p1-a1", "c0-p1-x", "c0-p1-a1-x", "c0-p1-a1-a1", "c0-p1-a2-x-x", "c0-p1-a1-a1-x",
    "c1-p1-a1", "c1-p1-x", "c1-p1-a1-x", "c1-p1-a1-a1", "c1-p1-a1-a1-x",
    "c0-p2-a1", "c0-p2-x", "c0-p2-a2", "c0-p2-a1-x", "c0-p2-a1-a1", "c0-p2-a1-a1-x",
    "c1-p2-a1", "c1-p2-x", "c1-p2-a1-x", "c1-p2-a1-a1", "c1-p2-a1-a1-x",
];

const TARGET_DIR: &str = "/verif/.build/cargo-target-loom";

#[derive(Clone, Debug)]
struct Scenario {
    credit: u64,
    polls: usize,
    /// `Some(n)` = `acknowledge(n)`, `None` = `disallow_write()`
    actors: Vec<Option<u64>>,
}

fn parse_scenario(name: &str) -> Option<Scenario> {
    let mut it = name.split('-');
    let credit = it.next()?.strip_prefix('c')?.parse().ok()?;
    let polls = it.next()?.strip_prefix('p')?.parse().ok()?;
    let mut actors = vec![];
    for t in it {
        if t == "x" {
            actors.push(None);
        } else {
            actors.push(Some(t.strip_prefix('a')?.parse().ok()?));
        }
    }
    Some(Scenario { credit, polls, actors })
}

/// Threads of a scenario: the writer plus one per actor.
fn threads(name: &str) -> usize {
    parse_scenario(name).map_or(usize::MAX, |s| 1 + s.actors.len())
}

#[derive(Debug)]
struct Outcome {
    res: Vec<String>,
    credit: u64,
    wakes: Vec<u64>,
    closed: bool,
    frames: u64,
}

fn parse_list(s: &str) -> Vec<String> {
    if s == "-" { vec![] } else { s.split(',').map(str::to_string).collect() }
}

fn parse_outcome(s: &str) -> Option<Outcome> {
    let mut m = BTreeMap::new();
    for kv in s.split(';') {
        let (k, v) = kv.split_once('=')?;
        m.insert(k, v);
    }
    if m.len() != 5 {
        return None;
    }
    Some(Outcome {
        res: parse_list(m.get("res")?),
        credit: m.get("credit")?.parse().ok()?,
        wakes: parse_list(m.get("wakes")?).iter().map(|x| x.parse().ok()).collect::<Option<_>>()?,
        closed: match *m.get("closed")? {
            "0" => false,
            "1" => true,
            _ => return None,
        },
        frames: m.get("frames")?.parse().ok()?,
    })
}

/// The property's monitor on a final outcome (every other thread joined). `None` = holds.
fn monitor(sc: &Scenario, o: &Outcome) -> Option<&'static str> {
    if o.res.len() != sc.polls || o.wakes.len() != sc.polls {
        return Some("malformed");
    }
    let grants: u64 = sc.actors.iter().flatten().sum();
    let taken = o.res.iter().filter(|r| *r == "S").count() as u64;
    let last_pending = o.res.last().is_some_and(|r| r == "P");
    let last_wakes = o.wakes.last().copied().unwrap_or(0);
    let should_close = sc.actors.iter().any(Option::is_none);
    if last_pending && last_wakes == 0 && (o.credit > 0 || o.closed) {
        Some("lost-wakeup")
    } else if o.credit + taken != sc.credit + grants {
        Some("conservation")
    } else if o.frames != taken {
        Some("frames")
    } else if o.closed != should_close {
        Some("closed-flag")
    } else {
        None
    }
}

struct LoomRun {
    outcomes: BTreeMap<String, BTreeSet<String>>,
    explored: BTreeMap<String, u64>,
    ok: bool,
    tail: String,
    secs: f64,
}

fn test_name(scenario: &str) -> String {
    format!("verif_loom::{}", scenario.replace('-', "_"))
}

/// Run the hook's tests for `scenarios` in /repo's working tree (builds the test binary first).
fn run_loom(scenarios: &[String], max_preemptions: Option<u32>, test_threads: usize, via_env: bool) -> LoomRun {
    let repo = std::env::var("PENGUIN_REPO").unwrap_or_else(|_| "/repo".into());
    let t0 = Instant::now();
    let mut cmd = Command::new("cargo");
    cmd.current_dir(&repo)
        .args(["test", "-p", "penguin-mux", "--lib", "--release", "--offline", "--"])
        .env("RUSTFLAGS", "--cfg loom --cfg penguin_rs_verif")
        .env("CARGO_TARGET_DIR", TARGET_DIR)
        .env("CARGO_NET_OFFLINE", "true")
        .env_remove("LOOM_MAX_PREEMPTIONS")
        .env_remove("LOOM_MAX_BRANCHES")
        .env_remove("LOOM_MAX_PERMUTATIONS")
        .env_remove("LOOM_MAX_DURATION")
        .env_remove("LOOM_CHECKPOINT_FILE")
        .env_remove("LOOM_LOG")
        .env_remove("PENGUIN_VERIF_SCENARIOS");
    if via_env {
        cmd.arg("verif_loom::from_env").env("PENGUIN_VERIF_SCENARIOS", scenarios.join(","));
    } else {
        for s in scenarios {
            cmd.arg(test_name(s));
        }
    }
    cmd.args(["--exact", "--nocapture", "--test-threads", &test_threads.to_string()]);
    if let Some(n) = max_preemptions {
        cmd.env("LOOM_MAX_PREEMPTIONS", n.to_string());
    }
    let out = cmd.output().expect("run cargo test in /repo");
    let text = format!("{}\n{}", String::from_utf8_lossy(&out.stdout), String::from_utf8_lossy(&out.stderr));
    let mut run = LoomRun {
        outcomes: BTreeMap::new(),
        explored: BTreeMap::new(),
        ok: out.status.success(),
        tail: String::new(),
        secs: 0.0,
    };
    for line in text.lines() {
        // with --nocapture the first line of a test follows "test <name> ... " on the same line
        if let Some(p) = line.find("OUTCOME ") {
            let t: Vec<&str> = line[p..].split_whitespace().collect();
            if t.len() == 3 {
                run.outcomes.entry(t[1].to_string()).or_default().insert(t[2].to_string());
            }
        } else if let Some(p) = line.find("EXPLORED ") {
            let t: Vec<&str> = line[p..].split_whitespace().collect();
            if t.len() == 3 {
                run.explored.insert(t[1].to_string(), t[2].parse().unwrap_or(0));
            }
        }
    }
    let lines: Vec<&str> = text
        .lines()
        .filter(|l| !l.contains("OUTCOME ") && !l.contains("EXPLORED ") && !l.starts_with("warning") && !l.trim().is_empty())
        .collect();
    run.tail = lines[lines.len().saturating_sub(25)..].join("\n");
    run.secs = t0.elapsed().as_secs_f64();
    run
}

struct Ctx {
    rep: Report,
    drv: Option<Driver>,
}

impl Ctx {
    fn model_schedule(&mut self, scenario: &str, outcome: &str) -> pvh::Value {
        let Some(d) = self.drv.as_mut() else { return json!(null) };
        for mode in ["fixed", "pinned"] {
            let r = d.ask(&format!("schedule {mode} {scenario} {outcome}"));
            if let Some(s) = r.strip_prefix("ok ") {
                return json!({"model": mode, "steps": s});
            }
        }
        json!("the model does not reach this outcome")
    }

    /// Monitor + correspondence for one group of scenarios that was run with one loom setting.
    fn evaluate(&mut self, scenarios: &[String], run: &LoomRun, max_preemptions: Option<u32>, forbidden: &BTreeMap<String, Vec<(String, String)>>) {
        let bound = max_preemptions.map_or("unbounded".to_string(), |n| n.to_string());
        if !run.ok {
            self.rep.fail(
                FailKind::Model,
                &format!("loom-run:{bound}"),
                &format!("the loom hook run failed (build error, loom panic or assertion) in /repo: {}", run.tail),
                json!({"scenarios": scenarios, "max_preemptions": max_preemptions}),
            );
        }
        for name in scenarios {
            let sc = parse_scenario(name).expect("scenario");
            let imp = run.outcomes.get(name).cloned().unwrap_or_default();
            let execs = run.explored.get(name).copied().unwrap_or(0);
            self.rep.evaluations += execs;
            self.rep.count_n(&format!("executions:{name}"), execs);
            self.rep.count_n(&format!("threads:{}", 1 + sc.actors.len()), 1);
            self.rep.count_n(&format!("preemption-bound:{bound}"), 1);
            if imp.is_empty() {
                self.rep.fail(
                    FailKind::Model,
                    &format!("no-outcomes:{name}"),
                    &format!("the loom hook printed no outcome for scenario {name}: {}", run.tail),
                    json!({"scenario": name, "max_preemptions": max_preemptions}),
                );
                continue;
            }
            // monitor on every implementation outcome
            for o in &imp {
                self.rep.nontrivial.insert(fnv(format!("{name} {o}").as_bytes()));
                for r in o.split(';').next().unwrap_or("").trim_start_matches("res=").split(',') {
                    self.rep.count(&format!("poll-result:{r}"));
                }
                let verdict = parse_outcome(o).map_or(Some("malformed"), |p| monitor(&sc, &p));
                if let Some(d) = self.drv.as_mut() {
                    let m = d.ask(&format!("monitor {name} {o}"));
                    let mine = verdict.unwrap_or("ok");
                    if m != mine && !(mine == "closed-flag" && m == "ok") {
                        self.rep.fail(
                            FailKind::Model,
                            &format!("monitor:{name}:{o}"),
                            &format!("the Lean monitor says `{m}`, the harness monitor `{mine}` on outcome {o} of {name}"),
                            json!({"scenario": name, "outcome": o}),
                        );
                    }
                }
                let listed = forbidden.get(name).and_then(|v| v.iter().find(|(f, _)| f == o));
                if verdict.is_some() || listed.is_some() {
                    let what = verdict.unwrap_or("corpus-forbidden");
                    let schedule = self.model_schedule(name, o);
                    let desc = match what {
                        "lost-wakeup" => format!(
                            "lost wake-up: in scenario {name} loom reaches the final outcome {o} on the real code — the writer's \
                             last poll returned Pending, its waker was never woken, all other threads have finished, yet \
                             credit is available or the stream is closed; the writer sleeps forever"
                        ),
                        "conservation" => format!(
                            "credit conservation broken: scenario {name} ends in {o}; final credit + successful takes differs \
                             from initial credit + grants"
                        ),
                        "frames" => format!("scenario {name} ends in {o}: the number of Push frames queued differs from the number of Ready(Some) polls"),
                        other => format!("scenario {name} ends in {o}: {other}"),
                    };
                    self.rep.fail(
                        FailKind::Impl,
                        &format!("{what}:{name}:{o}"),
                        &desc,
                        json!({
                            "scenario": name, "outcome": o, "violation": what, "max_preemptions": max_preemptions,
                            "model_schedule": schedule,
                            "corpus": listed.map(|(_, f)| f.clone()),
                            "note": "loom's exploration is deterministic: re-running the scenario reproduces the outcome set",
                        }),
                    );
                }
            }
            // correspondence with the model
            if let Some(d) = self.drv.as_mut() {
                let r = d.ask(&format!("outcomes fixed {name}"));
                let t: Vec<&str> = r.split_whitespace().collect();
                if t.first() != Some(&"ok") || t.len() < 2 {
                    self.rep.fail(
                        FailKind::Model,
                        &format!("driver:{name}"),
                        &format!("drv_waker answered `{r}` for scenario {name}"),
                        json!({"scenario": name}),
                    );
                    continue;
                }
                self.rep.count_n("model-states", t[1].parse().unwrap_or(0));
                let model: BTreeSet<String> = t[2..].iter().map(|s| (*s).to_string()).collect();
                self.rep.model_compared += model.union(&imp).count() as u64;
                if model != imp {
                    let model_only: Vec<_> = model.difference(&imp).cloned().collect();
                    let impl_only: Vec<_> = imp.difference(&model).cloned().collect();
                    self.rep.fail(
                        FailKind::Model,
                        &format!("outcome-set:{name}"),
                        &format!(
                            "outcome sets differ for scenario {name} (loom preemption bound: {bound}): only in the model {model_only:?}; \
                             only in the implementation {impl_only:?}"
                        ),
                        json!({"scenario": name, "model_only": model_only, "impl_only": impl_only, "max_preemptions": max_preemptions}),
                    );
                }
                self.rep.sample(json!({
                    "scenario": name, "loom_executions": execs, "preemption_bound": bound,
                    "outcomes_impl": imp.len(), "outcomes_model": model.len(), "model_states": t[1],
                }));
            } else {
                self.rep.sample(json!({"scenario": name, "loom_executions": execs, "outcomes_impl": imp.len()}));
            }
        }
    }
}

/// Corpus: `scenario <name>` / `forbidden <outcome>` lines; scenario -> [(outcome, file)].
fn read_corpus(dir: Option<&str>) -> BTreeMap<String, Vec<(String, String)>> {
    let mut m: BTreeMap<String, Vec<(String, String)>> = BTreeMap::new();
    for (file, text) in pvh::corpus_files(dir) {
        let mut scenario = None;
        for l in text.lines() {
            let t: Vec<&str> = l.split_whitespace().collect();
            match t.as_slice() {
                ["scenario", s] if parse_scenario(s).is_some() => scenario = Some((*s).to_string()),
                ["forbidden", o] => {
                    if let Some(s) = &scenario {
                        m.entry(s.clone()).or_default().push(((*o).to_string(), file.clone()));
                    }
                }
                _ => {}
            }
        }
    }
    m
}

fn replay(path: &str) -> i32 {
    let text = std::fs::read_to_string(path).expect("read replay file");
    let v: pvh::Value = serde_json::from_str(&text).expect("replay json");
    let rp = if v.get("replay").is_some() { &v["replay"] } else { &v };
    let (Some(name), Some(outcome)) = (rp["scenario"].as_str(), rp["outcome"].as_str()) else {
        println!("replay file names no scenario/outcome: {rp}");
        return 2;
    };
    let Some(sc) = parse_scenario(name) else {
        println!("bad scenario {name}");
        return 2;
    };
    let bound = rp["max_preemptions"].as_u64().map(|n| n as u32);
    println!("replaying scenario {name} on /repo's working tree under loom (preemption bound: {bound:?}); looking for {outcome}");
    if !rp["model_schedule"].is_null() {
        println!("model schedule reaching it: {}", rp["model_schedule"]);
    }
    let run = run_loom(&[name.to_string()], bound, 1, true);
    if !run.ok {
        println!("the loom run failed:\n{}", run.tail);
        return 2;
    }
    let set = run.outcomes.get(name).cloned().unwrap_or_default();
    for o in &set {
        let verdict = parse_outcome(o).map_or(Some("malformed"), |p| monitor(&sc, &p));
        println!("  {o}  {}", verdict.unwrap_or("ok"));
    }
    if set.contains(outcome) {
        println!("STILL FAILS: the implementation reaches {outcome}");
        1
    } else {
        println!("not reproduced: the implementation no longer reaches {outcome}");
        0
    }
}

fn main() {
    pvh::quiet_panics();
    let args = Args::parse();
    if let Some(p) = &args.replay {
        std::process::exit(replay(p));
    }
    let rule = "each loom execution (one interleaving, under loom's C11 model, of the real poll_write_push / \
poll_obtain_write_permission with the real acknowledge / disallow_write on other threads) ends in a final outcome \
(poll results, credit, wakes per poll, closed, frames) that the monitor judges; evaluations = loom executions; \
every scenario has at least one racing thread, so all are non-trivial; distinct = distinct (scenario, outcome) pairs";
    let mut cx = Ctx {
        rep: Report::new("waker", &args, rule),
        drv: args.driver.as_deref().map(|p| Driver::spawn(p, &[]).expect("start Lean driver")),
    };
    let forbidden = read_corpus(args.corpus.as_deref());
    // Scenarios with at most 3 threads (the writer and one or two of {acknowledge, close} — the
    // property's quantifier) are explored without a preemption bound; the 4-thread ones only in
    // `thorough`, with loom's preemption bound.
    let mut small: Vec<String> = FAMILY.iter().filter(|s| threads(s) <= 3).map(|s| (*s).to_string()).collect();
    for s in forbidden.keys() {
        if !small.contains(s) && threads(s) <= 3 {
            small.push(s.clone());
        }
    }
    if args.opt("--only") == Some("credit") {
        // C03's use of this runner: only the races between a writer taking credit and acknowledgements
        small.retain(|s| !s.contains("-x"));
    }
    let large: Vec<String> = FAMILY.iter().filter(|s| threads(s) > 3).map(|s| (*s).to_string()).collect();
    let par = std::thread::available_parallelism().map_or(4, std::num::NonZero::get).min(8);
    let (threads_small, large_bound) = match args.tier {
        Tier::Quick => (par, None),
        Tier::Thorough => (par, Some(args.opt("--max-preemptions").and_then(|s| s.parse().ok()).unwrap_or(4u32))),
    };
    let run = run_loom(&small, None, threads_small, false);
    cx.rep.notes.push(format!(
        "{} scenarios with <= 3 threads explored by loom without preemption bound in {:.1}s (incl. building the test target)",
        small.len(), run.secs
    ));
    cx.evaluate(&small, &run, None, &forbidden);
    if let Some(b) = large_bound {
        let run = run_loom(&large, Some(b), par, false);
        cx.rep.notes.push(format!(
            "{} scenarios with 4 threads explored by loom with LOOM_MAX_PREEMPTIONS={b} in {:.1}s",
            large.len(), run.secs
        ));
        cx.evaluate(&large, &run, Some(b), &forbidden);
    }
    cx.rep.exhaustive = false;
    cx.rep.notes.push(
        "complete (under loom's partial-order reduction and C11 approximation) for the <= 3-thread scenarios with initial \
credit 0/1; the initial credit and the number of actors are not bounded in the theorems, only in this correspondence"
            .into(),
    );
    if let Some(d) = &cx.drv {
        cx.rep.notes.push(format!("driver lines: {}", d.lines));
    }
    cx.rep.finish(&args);
    std::process::exit(i32::from(cx.rep.has_failures()));
}
