//! C12 runner: outcome-set correspondence between the Lean interleaving model (`drv_waker`) and
//! the real `MuxStream::poll_write_push` / `poll_obtain_write_permission` racing with the real
//! `EstablishedStreamData::acknowledge` / `disallow_write` under loom.
//!
//! This binary does not link loom. The implementation side lives in `/repo` as the add-only,
//! cfg-guarded test module `penguin-mux/src/verif_loom.rs` (hook); it is run through
//! `cargo test` with `RUSTFLAGS="--cfg loom --cfg penguin_rs_verif"` and prints one
//! `OUTCOME <scenario> <canonical outcome>` line per distinct final outcome over all the
//! interleavings loom explores, and `EXPLORED <scenario> <executions>`.
//!
//! * Monitor (independent of the model): an implementation outcome is a violation when the writer's
//!   last poll is `Pending`, the waker of that poll was never woken and credit is available or the
//!   stream is closed (all other threads have been joined) — a lost wake-up; or when
//!   `credit + #Ready(Some) != initial + grants` — credit conservation; or when the number of
//!   `Push` frames queued differs from the number of `Ready(Some)` polls.  → `FailKind::Impl`,
//!   replay = scenario + outcome + the model's schedule reaching that outcome (if it has one).
//! * Correspondence: per scenario, implementation outcome set == model outcome set
//!   (`outcomes fixed <scenario>`), else `FailKind::Model`.
//! * Two writers (`c<credit>-w2[-a<n>|-x]*`): `poll_write_push` / `poll_obtain_write_permission` take
//!   `&self` and `MuxStream` is `Sync`, so two threads can poll the write side of one stream at the
//!   same time in safe code. The hook shares one stream between two writer threads (one poll each, own
//!   waker each) racing with each other and the actors. These scenarios are judged twice.
//!   (a) By the independent monitor (`monitor_shared`): frames and `Ready(Some)`
//!   polls never exceed initial credit + grants (no send without a unit), the final counter equals
//!   initial + grants - takes, frames = takes, and a writer left `Pending` while credit is available or
//!   the stream is closed has seen a wake-up delivered to the stream's waker slot after its poll began
//!   (the stream has ONE waker slot, so with two tasks waiting only that is promised: the later
//!   registration replaces the earlier one). Keys `two-writers:<scenario>:<violation>:<outcome>`; the
//!   replay carries the order of operation starts / returns of the first execution reaching the outcome
//!   and the model's schedule reaching it (if it has one).
//!   (b) By correspondence with the Lean model of several writers on one stream (`Model/WakerN`, the
//!   model of the `…_n` theorems of `Props/C12` and of C03's `one_write_one_credit_under_concurrency`;
//!   `drv_waker` enumerates its interleavings for `c<credit>-w<n>…` scenarios, with the hook's "poll
//!   began" instrumentation mirrored): every outcome loom reaches must be an outcome of the model
//!   (runs with a preemption bound), and the two sets must be equal where loom explores without a bound
//!   (<= 3 threads), else `FailKind::Model`, key `outcome-set:<scenario>`. An implementation outcome is
//!   also accepted under the *stale-load rule*: the model (sequentially consistent) has an outcome equal
//!   in every field but `after` whose `after` is pointwise >= the implementation's. Reason: `after` is
//!   measured by the hook in real time with counters loom does not see, while under loom's C11 model a
//!   writer's `Relaxed` / `Acquire` load may still return the value from before a `fetch_add` / `swap`
//!   that has already run (no happens-before edge to the acknowledger) — the execution is equivalent to
//!   a sequentially consistent one in which that poll began earlier, where the hook would have counted
//!   the wake-ups in between as "after". Such outcomes occur from 4 threads on (two actors); they are
//!   counted (`two-writers:matched-by-stale-load-rule`), never silently dropped: the monitor judges them.

use pvh::{Args, Driver, FailKind, Report, Tier, fnv, json};
use std::collections::{BTreeMap, BTreeSet};
use std::process::Command;
use std::time::Instant;

/// The scenario family of the hook (`scenarios!` in `verif_loom.rs`), `c<credit>-p<polls>[-a<n>|-x]*`.
const FAMILY: &[&str] = &[
    "c0-p1-a1", "c0-p1-x", "c0-p1-a1-x", "c0-p1-a1-a1", "c0-p1-a2-x-x", "c0-p1-a1-a1-x",
    "c1-p1-a1", "c1-p1-x", "c1-p1-a1-x", "c1-p1-a1-a1", "c1-p1-a1-a1-x",
    "c0-p2-a1", "c0-p2-x", "c0-p2-a2", "c0-p2-a1-x", "c0-p2-a1-a1", "c0-p2-a1-a1-x",
    "c1-p2-a1", "c1-p2-x", "c1-p2-a1-x", "c1-p2-a1-a1", "c1-p2-a1-a1-x",
];

/// Two writer threads on one stream (`scenarios!` in `verif_loom.rs`), `c<credit>-w2[-a<n>|-x]*`.
const TWO_WRITERS: &[&str] = &[
    "c0-w2", "c0-w2-a1", "c0-w2-x", "c0-w2-a2", "c0-w2-a1-a1", "c0-w2-a1-x", "c0-w2-a2-x", "c0-w2-a1-a1-x",
    "c1-w2", "c1-w2-a1", "c1-w2-x", "c1-w2-a2", "c1-w2-a1-a1", "c1-w2-a1-x", "c1-w2-a2-x", "c1-w2-a1-a1-x",
];

const TARGET_DIR: &str = "/verif/.build/cargo-target-loom";

/// The cargo target directory of the loom runs: `TARGET_DIR` for `/repo`, a directory of its own for
/// any other tree named by `PENGUIN_REPO`. (Cargo's artifact names and dep-info are relative to the
/// workspace root, so two trees sharing a target directory overwrite each other's test binary, and
/// the binary of the tree built LAST is then taken as fresh for the other one whenever that one's
/// sources are older — the run would silently judge the wrong code.)
fn target_dir(repo: &str) -> String {
    let canon = std::fs::canonicalize(repo).map_or_else(|_| repo.to_string(), |p| p.to_string_lossy().into_owned());
    if canon == "/repo" { TARGET_DIR.to_string() } else { format!("{TARGET_DIR}-{:016x}", fnv(canon.as_bytes())) }
}

#[derive(Clone, Debug)]
struct Scenario {
    credit: u64,
    polls: usize,
    /// `w<n>`: writer threads sharing the stream, one poll each; 0 in a `p<n>` scenario
    writers: usize,
    /// `Some(n)` = `acknowledge(n)`, `None` = `disallow_write()`
    actors: Vec<Option<u64>>,
}

fn parse_scenario(name: &str) -> Option<Scenario> {
    let mut it = name.split('-');
    let credit = it.next()?.strip_prefix('c')?.parse().ok()?;
    let second = it.next()?;
    let (polls, writers) = match second.strip_prefix('w') {
        Some(w) => (1, w.parse().ok().filter(|w| *w >= 2)?),
        None => (second.strip_prefix('p')?.parse().ok()?, 0),
    };
    let mut actors = vec![];
    for t in it {
        if t == "x" {
            actors.push(None);
        } else {
            actors.push(Some(t.strip_prefix('a')?.parse().ok()?));
        }
    }
    Some(Scenario { credit, polls, writers, actors })
}

/// Threads of a scenario: the writer(s) plus one per actor.
fn threads(name: &str) -> usize {
    parse_scenario(name).map_or(usize::MAX, |s| s.writers.max(1) + s.actors.len())
}

#[derive(Debug)]
struct Outcome {
    res: Vec<String>,
    credit: u64,
    wakes: Vec<u64>,
    /// two-writer scenarios: per writer, wake-ups delivered to any writer's waker after its poll began
    after: Option<Vec<u64>>,
    closed: bool,
    frames: u64,
}

fn parse_list(s: &str) -> Vec<String> {
    if s == "-" { vec![] } else { s.split(',').map(str::to_string).collect() }
}

fn parse_outcome(s: &str) -> Option<Outcome> {
    let mut m = BTreeMap::new();
    for kv in s.split(';') {
        let (k, v) = kv.split_once('=')?;
        m.insert(k, v);
    }
    if m.len() != 5 + usize::from(m.contains_key("after")) {
        return None;
    }
    let nums = |s: &str| parse_list(s).iter().map(|x| x.parse().ok()).collect::<Option<Vec<u64>>>();
    Some(Outcome {
        res: parse_list(m.get("res")?),
        credit: m.get("credit")?.parse().ok()?,
        wakes: nums(m.get("wakes")?)?,
        after: match m.get("after") {
            Some(a) => Some(nums(a)?),
            None => None,
        },
        closed: match *m.get("closed")? {
            "0" => false,
            "1" => true,
            _ => return None,
        },
        frames: m.get("frames")?.parse().ok()?,
    })
}

/// The property's monitor on a final outcome (every other thread joined). `None` = holds.
fn monitor(sc: &Scenario, o: &Outcome) -> Option<&'static str> {
    if sc.writers >= 2 {
        return monitor_shared(sc, o);
    }
    if o.after.is_some() || o.res.len() != sc.polls || o.wakes.len() != sc.polls {
        return Some("malformed");
    }
    let grants: u64 = sc.actors.iter().flatten().sum();
    let taken = o.res.iter().filter(|r| *r == "S").count() as u64;
    let last_pending = o.res.last().is_some_and(|r| r == "P");
    let last_wakes = o.wakes.last().copied().unwrap_or(0);
    let should_close = sc.actors.iter().any(Option::is_none);
    if last_pending && last_wakes == 0 && (o.credit > 0 || o.closed) {
        Some("lost-wakeup")
    } else if o.credit + taken != sc.credit + grants {
        Some("conservation")
    } else if o.frames != taken {
        Some("frames")
    } else if o.closed != should_close {
        Some("closed-flag")
    } else {
        None
    }
}

/// The monitor for a stream polled by `sc.writers` writer threads at once (one poll each).
/// Independent of the Lean model (the correspondence with `Model/WakerN` is a separate judgement). `None` = holds.
fn monitor_shared(sc: &Scenario, o: &Outcome) -> Option<&'static str> {
    let n = sc.writers;
    let Some(after) = &o.after else { return Some("malformed") };
    if o.res.len() != n || o.wakes.len() != n || after.len() != n || o.wakes.iter().zip(after).any(|(w, a)| w > a) {
        return Some("malformed");
    }
    let grants: u64 = sc.actors.iter().flatten().sum();
    let obtainable = sc.credit + grants;
    let taken = o.res.iter().filter(|r| *r == "S").count() as u64;
    let should_close = sc.actors.iter().any(Option::is_none);
    // a writer left Pending although it could proceed / should fail, and no wake-up reached the
    // stream's waker slot since its poll began
    let asleep = (0..n).any(|i| o.res[i] == "P" && after[i] == 0 && (o.credit > 0 || o.closed));
    if taken > obtainable || o.frames > obtainable {
        // initial + grants - sent would be negative: somebody sent without a unit
        Some("no-credit")
    } else if o.credit + taken != obtainable {
        Some("conservation")
    } else if o.frames != taken {
        Some("frames")
    } else if asleep {
        Some("lost-wakeup")
    } else if o.closed != should_close {
        Some("closed-flag")
    } else {
        None
    }
}

/// A two-writer outcome without its `after` field, and that field.
fn split_after(o: &str) -> Option<(String, Vec<u64>)> {
    let mut rest = vec![];
    let mut after = None;
    for kv in o.split(';') {
        match kv.strip_prefix("after=") {
            Some(a) => after = Some(parse_list(a).iter().map(|x| x.parse().ok()).collect::<Option<Vec<u64>>>()?),
            None => rest.push(kv),
        }
    }
    Some((rest.join(";"), after?))
}

/// How the model accounts for an implementation outcome of a two-writer scenario.
#[derive(PartialEq, Eq, Debug)]
enum Covered {
    Exact,
    /// equal in every field but `after`, the model's `after` pointwise >= (see the module comment)
    StaleLoad,
    No,
}

fn covered(o: &str, model: &BTreeSet<String>) -> Covered {
    if model.contains(o) {
        return Covered::Exact;
    }
    let Some((rest, after)) = split_after(o) else { return Covered::No };
    let dominated = model.iter().filter_map(|m| split_after(m)).any(|(r, a)| {
        r == rest && a.len() == after.len() && a.iter().zip(&after).all(|(m, i)| m >= i)
    });
    if dominated { Covered::StaleLoad } else { Covered::No }
}

struct LoomRun {
    /// (scenario, outcome) -> events of the first execution reaching it (two-writer scenarios)
    schedules: BTreeMap<(String, String), String>,
    outcomes: BTreeMap<String, BTreeSet<String>>,
    explored: BTreeMap<String, u64>,
    ok: bool,
    tail: String,
    secs: f64,
}

/// Wall-clock limit of one loom run (build included): `PVH_LOOM_TIMEOUT_S`, else 600 s (quick) / 3600 s (thorough).
fn loom_timeout() -> std::time::Duration {
    static LIMIT: std::sync::OnceLock<u64> = std::sync::OnceLock::new();
    std::time::Duration::from_secs(*LIMIT.get_or_init(|| {
        std::env::var("PVH_LOOM_TIMEOUT_S").ok().and_then(|s| s.parse().ok()).unwrap_or_else(|| {
            if std::env::args().any(|a| a == "thorough") { 3600 } else { 600 }
        })
    }))
}

fn test_name(scenario: &str) -> String {
    format!("verif_loom::{}", scenario.replace('-', "_"))
}

/// Run the hook's tests for `scenarios` in /repo's working tree (builds the test binary first).
fn run_loom(scenarios: &[String], max_preemptions: Option<u32>, test_threads: usize, via_env: bool) -> LoomRun {
    let repo = std::env::var("PENGUIN_REPO").unwrap_or_else(|_| "/repo".into());
    let t0 = Instant::now();
    let mut cmd = Command::new("cargo");
    cmd.current_dir(&repo)
        .args(["test", "-p", "penguin-mux", "--lib", "--release", "--offline", "--"])
        .env("RUSTFLAGS", "--cfg loom --cfg penguin_rs_verif")
        .env("CARGO_TARGET_DIR", target_dir(&repo))
        .env("CARGO_NET_OFFLINE", "true")
        .env_remove("LOOM_MAX_PREEMPTIONS")
        .env_remove("LOOM_MAX_BRANCHES")
        .env_remove("LOOM_MAX_PERMUTATIONS")
        .env_remove("LOOM_MAX_DURATION")
        .env_remove("LOOM_CHECKPOINT_FILE")
        .env_remove("LOOM_LOG")
        .env_remove("PENGUIN_VERIF_SCENARIOS");
    if via_env {
        cmd.arg("verif_loom::from_env").env("PENGUIN_VERIF_SCENARIOS", scenarios.join(","));
    } else {
        for s in scenarios {
            cmd.arg(test_name(s));
        }
    }
    cmd.args(["--exact", "--nocapture", "--test-threads", &test_threads.to_string()]);
    if let Some(n) = max_preemptions {
        cmd.env("LOOM_MAX_PREEMPTIONS", n.to_string());
    }
    // The run is bounded in wall-clock time: a change to the synchronisation code can blow up loom's state
    // space (seeded C12-9: one more atomic in the waker made a 3-thread scenario run for more than half an
    // hour). The output goes to files, so that what the scenarios that DID finish printed is still judged
    // (each test prints its outcome set when it is done) and only the others are reported as unexplored.
    use std::os::unix::process::CommandExt;
    static RUN_NO: std::sync::atomic::AtomicU32 = std::sync::atomic::AtomicU32::new(0);
    let n = RUN_NO.fetch_add(1, std::sync::atomic::Ordering::Relaxed);
    let tmp = std::path::PathBuf::from("/verif/.build/tmp");
    std::fs::create_dir_all(&tmp).expect("scratch directory");
    let (po, pe) = (tmp.join(format!("pvh-loom-{}-{n}.out", std::process::id())), tmp.join(format!("pvh-loom-{}-{n}.err", std::process::id())));
    cmd.stdout(std::fs::File::create(&po).expect("loom output file")).stderr(std::fs::File::create(&pe).expect("loom output file")).process_group(0);
    let limit = loom_timeout();
    let mut child = cmd.spawn().expect("run cargo test in /repo");
    let mut timed_out = false;
    let status = loop {
        if let Some(st) = child.try_wait().expect("wait for cargo test") {
            break Some(st);
        }
        if t0.elapsed() > limit {
            timed_out = true;
            // the test binary is a grandchild: kill the whole process group
            let _ = Command::new("kill").args(["-KILL", "--", &format!("-{}", child.id())]).status();
            let _ = child.kill();
            let _ = child.wait();
            break None;
        }
        std::thread::sleep(std::time::Duration::from_millis(100));
    };
    let mut text = format!("{}\n{}", std::fs::read_to_string(&po).unwrap_or_default(), std::fs::read_to_string(&pe).unwrap_or_default());
    let _ = std::fs::remove_file(&po);
    let _ = std::fs::remove_file(&pe);
    if timed_out {
        text.push_str(&format!(
            "\nLOOM-RUN-KILLED: not finished after {:.0} s (limit of this tier; on the unchanged tree the run takes about a minute including the build): \
             loom's exploration of the scenarios without an outcome line did not terminate\n",
            limit.as_secs_f64()
        ));
    }
    let mut run = LoomRun {
        schedules: BTreeMap::new(),
        outcomes: BTreeMap::new(),
        explored: BTreeMap::new(),
        ok: status.is_some_and(|s| s.success()),
        tail: String::new(),
        secs: 0.0,
    };
    for line in text.lines() {
        // with --nocapture the first line of a test follows "test <name> ... " on the same line
        if let Some(p) = line.find("OUTCOME ") {
            let t: Vec<&str> = line[p..].split_whitespace().collect();
            if t.len() == 3 {
                run.outcomes.entry(t[1].to_string()).or_default().insert(t[2].to_string());
            }
        } else if let Some(p) = line.find("SCHEDULE ") {
            let t: Vec<&str> = line[p..].split_whitespace().collect();
            if t.len() == 4 {
                run.schedules.insert((t[1].to_string(), t[2].to_string()), t[3].to_string());
            }
        } else if let Some(p) = line.find("EXPLORED ") {
            let t: Vec<&str> = line[p..].split_whitespace().collect();
            if t.len() == 3 {
                run.explored.insert(t[1].to_string(), t[2].parse().unwrap_or(0));
            }
        }
    }
    let lines: Vec<&str> = text
        .lines()
        .filter(|l| !l.contains("OUTCOME ") && !l.contains("EXPLORED ") && !l.contains("SCHEDULE ") && !l.starts_with("warning") && !l.trim().is_empty())
        .collect();
    run.tail = lines[lines.len().saturating_sub(25)..].join("\n");
    run.secs = t0.elapsed().as_secs_f64();
    run
}

struct Ctx {
    rep: Report,
    drv: Option<Driver>,
    /// two-writer scenarios: the model's (states, outcome set), asked once per scenario
    model_sets: BTreeMap<String, Option<(u64, BTreeSet<String>)>>,
}

impl Ctx {
    fn model_schedule(&mut self, scenario: &str, outcome: &str) -> pvh::Value {
        let Some(d) = self.drv.as_mut() else { return json!(null) };
        for mode in ["fixed", "pinned"] {
            let r = d.ask(&format!("schedule {mode} {scenario} {outcome}"));
            if let Some(s) = r.strip_prefix("ok ") {
                return json!({"model": mode, "steps": s});
            }
        }
        json!("the model does not reach this outcome")
    }

    /// The outcome set of the Lean model for a scenario (`outcomes fixed <name>`), `None` without a
    /// driver; a malformed answer is reported once.
    fn model_outcomes(&mut self, name: &str) -> Option<(u64, BTreeSet<String>)> {
        if let Some(cached) = self.model_sets.get(name) {
            return cached.clone();
        }
        let d = self.drv.as_mut()?;
        let r = d.ask(&format!("outcomes fixed {name}"));
        let t: Vec<&str> = r.split_whitespace().collect();
        let parsed = if t.first() == Some(&"ok") && t.len() >= 2 {
            Some((t[1].parse().unwrap_or(0), t[2..].iter().map(|s| (*s).to_string()).collect()))
        } else if r == "bad-op" {
            // a `drv_waker` built before `Model/WakerN` existed does not know `c<n>-w<k>…` scenarios:
            // these are then judged by the monitor only, which is said in the report (TIGHTEN: once the
            // driver with the several-writers model is the only one around, make this a failure)
            if !self.model_sets.values().any(Option::is_none) {
                self.rep.notes.push(
                    "the Lean driver has no model of several writers on one stream (it answers bad-op for c<n>-w<k> scenarios): \
                     the two-writer scenarios were judged by the independent monitor only"
                        .into(),
                );
            }
            self.rep.count("two-writers:driver-without-several-writers-model");
            None
        } else {
            self.rep.fail(
                FailKind::Model,
                &format!("driver:{name}"),
                &format!("drv_waker answered `{r}` for scenario {name}"),
                json!({"scenario": name}),
            );
            None
        };
        self.model_sets.insert(name.to_string(), parsed.clone());
        parsed
    }

    /// Two writer threads on one stream: the independent monitor on every implementation outcome, then
    /// the correspondence with the Lean model of several writers (`Model/WakerN`).
    #[allow(clippy::too_many_arguments)]
    fn evaluate_shared(
        &mut self,
        name: &str,
        sc: &Scenario,
        imp: &BTreeSet<String>,
        run: &LoomRun,
        execs: u64,
        max_preemptions: Option<u32>,
        forbidden: &BTreeMap<String, Vec<(String, String)>>,
    ) {
        self.rep.count("two-writers:scenarios(monitor and model)");
        let bound = max_preemptions.map_or("unbounded".to_string(), |n| n.to_string());
        for o in imp {
            self.rep.nontrivial.insert(fnv(format!("{name} {o}").as_bytes()));
            for r in o.split(';').next().unwrap_or("").trim_start_matches("res=").split(',') {
                self.rep.count(&format!("two-writers:poll-result:{r}"));
            }
            let verdict = parse_outcome(o).map_or(Some("malformed"), |p| monitor(sc, &p));
            if let Some(d) = self.drv.as_mut() {
                // the Lean monitor (the predicate of the `_n` theorems on a final outcome) must agree
                let m = d.ask(&format!("monitor {name} {o}"));
                let mine = verdict.unwrap_or("ok");
                // `bad-op`: a driver without the several-writers model, see `model_outcomes`
                if m != mine && m != "bad-op" && !(mine == "closed-flag" && m == "ok") {
                    self.rep.fail(
                        FailKind::Model,
                        &format!("monitor:{name}:{o}"),
                        &format!("the Lean monitor says `{m}`, the harness monitor `{mine}` on outcome {o} of {name}"),
                        json!({"scenario": name, "outcome": o}),
                    );
                }
            }
            let listed = forbidden.get(name).and_then(|v| v.iter().find(|(f, _)| f == o));
            if verdict.is_none() && listed.is_none() {
                continue;
            }
            let what = verdict.unwrap_or("corpus-forbidden");
            let schedule = run.schedules.get(&(name.to_string(), o.clone())).cloned();
            let model_schedule = self.model_schedule(name, o);
            let grants: u64 = sc.actors.iter().flatten().sum();
            let desc = match what {
                "no-credit" => format!(
                    "a frame was sent without a unit of credit: in scenario {name} (two threads polling poll_write_push on one stream, initial credit {} and {grants} granted) loom reaches the final outcome {o} on the real code — more Ready(Some) polls / Push frames than units of credit ever obtained, i.e. initial + grants - frames sent is negative",
                    sc.credit
                ),
                "conservation" => format!(
                    "credit conservation broken with two writers: scenario {name} ends in {o}; final credit + successful takes differs from initial credit {} + grants {grants}",
                    sc.credit
                ),
                "frames" => format!("scenario {name} ends in {o}: the number of Push frames queued differs from the number of Ready(Some) polls"),
                "lost-wakeup" => format!(
                    "lost wake-up with two writers: scenario {name} ends in {o} — a writer's poll returned Pending, no wake-up was delivered to the stream's waker slot after that poll began, all other threads have finished, yet credit is available or the stream is closed"
                ),
                other => format!("scenario {name} ends in {o}: {other}"),
            };
            self.rep.fail(
                FailKind::Impl,
                &format!("two-writers:{name}:{what}:{o}"),
                &desc,
                json!({
                    "scenario": name, "outcome": o, "violation": what, "max_preemptions": max_preemptions,
                    "model_schedule": model_schedule,
                    "schedule": schedule,
                    "schedule_legend": "order of operation starts and returns in the first loom execution reaching the outcome: w<i>+ / w<i>=<S|P|N> writer i calls / returns from poll_write_push, a<n>#<j>+ / . acknowledge(n) begins / has returned, x#<j> disallow_write; a start is recorded before the operation's first atomic step, a return after its last",
                    "corpus": listed.map(|(_, f)| f.clone()),
                    "note": "loom's exploration is deterministic: re-running the scenario reproduces the outcome set",
                }),
            );
        }
        // correspondence with the model of several writers on one stream
        let Some((states, model)) = self.model_outcomes(name) else {
            self.rep.sample(json!({"scenario": name, "loom_executions": execs, "outcomes_impl": imp.len(), "judged_by": "monitor only (no driver)"}));
            return;
        };
        self.rep.count_n("model-states", states);
        self.rep.model_compared += model.union(imp).count() as u64;
        let mut impl_only = vec![];
        let mut stale = vec![];
        for o in imp {
            match covered(o, &model) {
                Covered::Exact => {}
                Covered::StaleLoad => stale.push(o.clone()),
                Covered::No => impl_only.push(o.clone()),
            }
        }
        self.rep.count_n("two-writers:matched-by-stale-load-rule", stale.len() as u64);
        let model_only: Vec<String> = model.difference(imp).cloned().collect();
        // without a preemption bound loom's exploration is complete: the sets must be equal;
        // with a bound loom may miss outcomes, so only "implementation within model" is required
        let exact_required = max_preemptions.is_none();
        if !exact_required {
            self.rep.count_n("two-writers:model-outcomes-not-reached-within-preemption-bound", model_only.len() as u64);
        }
        if !impl_only.is_empty() || (exact_required && (!model_only.is_empty() || !stale.is_empty())) {
            self.rep.fail(
                FailKind::Model,
                &format!("outcome-set:{name}"),
                &format!(
                    "outcome sets differ for two-writer scenario {name} (loom preemption bound: {bound}): the implementation reaches \
                     {impl_only:?}, which the model of several writers on one stream (Model/WakerN) does not{}",
                    if exact_required {
                        format!("; only in the model {model_only:?}; matched only by the stale-load rule {stale:?} (exact equality is required without a preemption bound)")
                    } else {
                        String::new()
                    }
                ),
                json!({"scenario": name, "model_only": model_only, "impl_only": impl_only, "stale_load_rule": stale, "max_preemptions": max_preemptions}),
            );
        }
        self.rep.sample(json!({
            "scenario": name, "loom_executions": execs, "preemption_bound": bound, "outcomes_impl": imp.len(),
            "outcomes_model": model.len(), "model_states": states, "matched_by_stale_load_rule": stale.len(),
            "model_outcomes_not_reached": model_only.len(), "judged_by": "monitor and model (Model/WakerN)",
        }));
    }

    /// Monitor + correspondence for one group of scenarios that was run with one loom setting.
    fn evaluate(&mut self, scenarios: &[String], run: &LoomRun, max_preemptions: Option<u32>, forbidden: &BTreeMap<String, Vec<(String, String)>>) {
        let bound = max_preemptions.map_or("unbounded".to_string(), |n| n.to_string());
        if !run.ok {
            self.rep.fail(
                FailKind::Model,
                &format!("loom-run:{bound}"),
                &format!("the loom hook run failed (build error, loom panic or assertion) in /repo: {}", run.tail),
                json!({"scenarios": scenarios, "max_preemptions": max_preemptions}),
            );
        }
        for name in scenarios {
            let sc = parse_scenario(name).expect("scenario");
            let imp = run.outcomes.get(name).cloned().unwrap_or_default();
            let execs = run.explored.get(name).copied().unwrap_or(0);
            self.rep.evaluations += execs;
            self.rep.count_n(&format!("executions:{name}"), execs);
            self.rep.count_n(&format!("threads:{}", threads(name)), 1);
            self.rep.count_n(&format!("preemption-bound:{bound}"), 1);
            if imp.is_empty() {
                self.rep.fail(
                    FailKind::Model,
                    &format!("no-outcomes:{name}"),
                    &format!("the loom hook printed no outcome for scenario {name}: {}", run.tail),
                    json!({"scenario": name, "max_preemptions": max_preemptions}),
                );
                continue;
            }
            if sc.writers >= 2 {
                self.evaluate_shared(name, &sc, &imp, run, execs, max_preemptions, forbidden);
                continue;
            }
            // monitor on every implementation outcome
            for o in &imp {
                self.rep.nontrivial.insert(fnv(format!("{name} {o}").as_bytes()));
                for r in o.split(';').next().unwrap_or("").trim_start_matches("res=").split(',') {
                    self.rep.count(&format!("poll-result:{r}"));
                }
                let verdict = parse_outcome(o).map_or(Some("malformed"), |p| monitor(&sc, &p));
                if let Some(d) = self.drv.as_mut() {
                    let m = d.ask(&format!("monitor {name} {o}"));
                    let mine = verdict.unwrap_or("ok");
                    if m != mine && !(mine == "closed-flag" && m == "ok") {
                        self.rep.fail(
                            FailKind::Model,
                            &format!("monitor:{name}:{o}"),
                            &format!("the Lean monitor says `{m}`, the harness monitor `{mine}` on outcome {o} of {name}"),
                            json!({"scenario": name, "outcome": o}),
                        );
                    }
                }
                let listed = forbidden.get(name).and_then(|v| v.iter().find(|(f, _)| f == o));
                if verdict.is_some() || listed.is_some() {
                    let what = verdict.unwrap_or("corpus-forbidden");
                    let schedule = self.model_schedule(name, o);
                    let desc = match what {
                        "lost-wakeup" => format!(
                            "lost wake-up: in scenario {name} loom reaches the final outcome {o} on the real code — the writer's \
                             last poll returned Pending, its waker was never woken, all other threads have finished, yet \
                             credit is available or the stream is closed; the writer sleeps forever"
                        ),
                        "conservation" => format!(
                            "credit conservation broken: scenario {name} ends in {o}; final credit + successful takes differs \
                             from initial credit + grants"
                        ),
                        "frames" => format!("scenario {name} ends in {o}: the number of Push frames queued differs from the number of Ready(Some) polls"),
                        other => format!("scenario {name} ends in {o}: {other}"),
                    };
                    self.rep.fail(
                        FailKind::Impl,
                        &format!("{what}:{name}:{o}"),
                        &desc,
                        json!({
                            "scenario": name, "outcome": o, "violation": what, "max_preemptions": max_preemptions,
                            "model_schedule": schedule,
                            "corpus": listed.map(|(_, f)| f.clone()),
                            "note": "loom's exploration is deterministic: re-running the scenario reproduces the outcome set",
                        }),
                    );
                }
            }
            // correspondence with the model
            if let Some(d) = self.drv.as_mut() {
                let r = d.ask(&format!("outcomes fixed {name}"));
                let t: Vec<&str> = r.split_whitespace().collect();
                if t.first() != Some(&"ok") || t.len() < 2 {
                    self.rep.fail(
                        FailKind::Model,
                        &format!("driver:{name}"),
                        &format!("drv_waker answered `{r}` for scenario {name}"),
                        json!({"scenario": name}),
                    );
                    continue;
                }
                self.rep.count_n("model-states", t[1].parse().unwrap_or(0));
                let model: BTreeSet<String> = t[2..].iter().map(|s| (*s).to_string()).collect();
                self.rep.model_compared += model.union(&imp).count() as u64;
                if model != imp {
                    let model_only: Vec<_> = model.difference(&imp).cloned().collect();
                    let impl_only: Vec<_> = imp.difference(&model).cloned().collect();
                    self.rep.fail(
                        FailKind::Model,
                        &format!("outcome-set:{name}"),
                        &format!(
                            "outcome sets differ for scenario {name} (loom preemption bound: {bound}): only in the model {model_only:?}; \
                             only in the implementation {impl_only:?}"
                        ),
                        json!({"scenario": name, "model_only": model_only, "impl_only": impl_only, "max_preemptions": max_preemptions}),
                    );
                }
                self.rep.sample(json!({
                    "scenario": name, "loom_executions": execs, "preemption_bound": bound,
                    "outcomes_impl": imp.len(), "outcomes_model": model.len(), "model_states": t[1],
                }));
            } else {
                self.rep.sample(json!({"scenario": name, "loom_executions": execs, "outcomes_impl": imp.len()}));
            }
        }
    }
}

/// Corpus: `scenario <name>` / `forbidden <outcome>` lines; scenario -> [(outcome, file)].
fn read_corpus(dir: Option<&str>) -> BTreeMap<String, Vec<(String, String)>> {
    let mut m: BTreeMap<String, Vec<(String, String)>> = BTreeMap::new();
    for (file, text) in pvh::corpus_files(dir) {
        let mut scenario = None;
        for l in text.lines() {
            let t: Vec<&str> = l.split_whitespace().collect();
            match t.as_slice() {
                ["scenario", s] if parse_scenario(s).is_some() => scenario = Some((*s).to_string()),
                ["forbidden", o] => {
                    if let Some(s) = &scenario {
                        m.entry(s.clone()).or_default().push(((*o).to_string(), file.clone()));
                    }
                }
                _ => {}
            }
        }
    }
    m
}

fn replay(path: &str) -> i32 {
    let text = std::fs::read_to_string(path).expect("read replay file");
    let v: pvh::Value = serde_json::from_str(&text).expect("replay json");
    let rp = if v.get("replay").is_some() { &v["replay"] } else { &v };
    let (Some(name), Some(outcome)) = (rp["scenario"].as_str(), rp["outcome"].as_str()) else {
        println!("replay file names no scenario/outcome: {rp}");
        return 2;
    };
    let Some(sc) = parse_scenario(name) else {
        println!("bad scenario {name}");
        return 2;
    };
    let bound = rp["max_preemptions"].as_u64().map(|n| n as u32);
    println!("replaying scenario {name} on /repo's working tree under loom (preemption bound: {bound:?}); looking for {outcome}");
    if !rp["model_schedule"].is_null() {
        println!("model schedule reaching it: {}", rp["model_schedule"]);
    }
    if let Some(s) = rp["schedule"].as_str() {
        println!("recorded order of operation starts / returns: {s}");
    }
    let run = run_loom(&[name.to_string()], bound, 1, true);
    if !run.ok {
        println!("the loom run failed:\n{}", run.tail);
        return 2;
    }
    let set = run.outcomes.get(name).cloned().unwrap_or_default();
    for o in &set {
        let verdict = parse_outcome(o).map_or(Some("malformed"), |p| monitor(&sc, &p));
        println!("  {o}  {}", verdict.unwrap_or("ok"));
        if let (Some(_), Some(s)) = (verdict, run.schedules.get(&(name.to_string(), o.clone()))) {
            println!("      reached by: {s}");
        }
    }
    if set.contains(outcome) {
        println!("STILL FAILS: the implementation reaches {outcome}");
        1
    } else {
        println!("not reproduced: the implementation no longer reaches {outcome}");
        0
    }
}

fn main() {
    pvh::quiet_panics();
    let args = Args::parse();
    if let Some(p) = &args.replay {
        std::process::exit(replay(p));
    }
    let rule = "each loom execution (one interleaving, under loom's C11 model, of the real poll_write_push / \
poll_obtain_write_permission with the real acknowledge / disallow_write on other threads) ends in a final outcome \
(poll results, credit, wakes per poll, closed, frames) that the monitor judges; evaluations = loom executions; \
every scenario has at least one racing thread, so all are non-trivial; distinct = distinct (scenario, outcome) pairs; \
the c<n>-w2-* scenarios share one stream between two writer threads (poll_write_push takes &self) and are judged by the \
monitor (takes and frames never exceed initial credit + grants, final credit = initial + grants - takes, and a \
Pending writer that could proceed or should fail has seen a wake-up reach the stream's single waker slot) and by \
correspondence with the Lean model of several writers on one stream (Model/WakerN): loom's outcome set is within the \
model's (equal without preemption bound), an `after` smaller than the model's being accepted as a stale load under C11";
    let mut cx = Ctx {
        rep: Report::new("waker", &args, rule),
        drv: args.driver.as_deref().map(|p| Driver::spawn(p, &[]).expect("start Lean driver")),
        model_sets: BTreeMap::new(),
    };
    let forbidden = read_corpus(args.corpus.as_deref());
    // Scenarios with at most 3 threads (the writer and one or two of {acknowledge, close} — the
    // property's quantifier) are explored without a preemption bound; the 4-thread ones only in
    // `thorough`, with loom's preemption bound.
    let mut small: Vec<String> =
        FAMILY.iter().chain(TWO_WRITERS).filter(|s| threads(s) <= 3).map(|s| (*s).to_string()).collect();
    for s in forbidden.keys() {
        if !small.contains(s) && threads(s) <= 3 {
            small.push(s.clone());
        }
    }
    // Two writers: every scenario is (also) explored with a preemption bound — the 4- and 5-thread ones
    // because of their state space, the smaller ones (which are in `small` as well) because an
    // exploration without bound does not end when the code under test lets two writers spin on each
    // other's transient counter values (loom gives up with "exceeded maximum number of branches" and
    // the scenario yields no outcome at all), while a bounded one still reaches the final outcomes.
    let mut shared4: Vec<String> = TWO_WRITERS.iter().filter(|s| threads(s) <= 4).map(|s| (*s).to_string()).collect();
    let mut shared5: Vec<String> = TWO_WRITERS.iter().filter(|s| threads(s) == 5).map(|s| (*s).to_string()).collect();
    if args.opt("--only") == Some("credit") {
        // C03's use of this runner: only the races between a writer taking credit and acknowledgements
        small.retain(|s| !s.contains("-x"));
        shared4.retain(|s| !s.contains("-x"));
        shared5.retain(|s| !s.contains("-x"));
    }
    let large: Vec<String> = FAMILY.iter().filter(|s| threads(s) > 3).map(|s| (*s).to_string()).collect();
    let par = std::thread::available_parallelism().map_or(4, std::num::NonZero::get).min(8);
    let (threads_small, large_bound) = match args.tier {
        Tier::Quick => (par, None),
        Tier::Thorough => (par, Some(args.opt("--max-preemptions").and_then(|s| s.parse().ok()).unwrap_or(4u32))),
    };
    // quick: both two-writer groups with 2 preemptions in one run; thorough: up to 4 threads with the
    // bound of the 4-thread single-writer scenarios, 5 threads with one preemption less (state space)
    let shared_groups: Vec<(Vec<String>, u32)> = match large_bound {
        None => vec![(shared4.iter().chain(&shared5).cloned().collect(), 2)],
        Some(b) => vec![(shared4, b), (shared5, b.saturating_sub(1).max(2))],
    }
    .into_iter()
    .filter(|(g, _)| !g.is_empty())
    .collect();
    // The two-writer groups run as separate processes next to the runs below, one test thread each:
    // loom executions in several threads of ONE process contend in the kernel (a stack mapping per
    // modelled thread and execution) and take longer than in sequence. (They wait on cargo's build
    // lock until the first run has built the test target.)
    let shared_runs: Vec<LoomRun> = std::thread::scope(|scope| {
        let handles: Vec<_> =
            shared_groups.iter().map(|(group, b)| scope.spawn(move || run_loom(group, Some(*b), 1, false))).collect();
        let run = run_loom(&small, None, threads_small, false);
        cx.rep.notes.push(format!(
            "{} scenarios with <= 3 threads explored by loom without preemption bound in {:.1}s (incl. building the test target)",
            small.len(), run.secs
        ));
        cx.evaluate(&small, &run, None, &forbidden);
        if let Some(b) = large_bound {
            let run = run_loom(&large, Some(b), par, false);
            cx.rep.notes.push(format!(
                "{} scenarios with 4 threads explored by loom with LOOM_MAX_PREEMPTIONS={b} in {:.1}s",
                large.len(), run.secs
            ));
            cx.evaluate(&large, &run, Some(b), &forbidden);
        }
        handles.into_iter().map(|h| h.join().expect("loom run thread")).collect()
    });
    for ((group, b), run) in shared_groups.into_iter().zip(shared_runs) {
        cx.rep.notes.push(format!(
            "{} two-writer scenarios (2-5 threads) explored by loom with LOOM_MAX_PREEMPTIONS={b} in {:.1}s \
             (own process, alongside the runs above)",
            group.len(), run.secs
        ));
        cx.evaluate(&group, &run, Some(b), &forbidden);
    }
    cx.rep.exhaustive = false;
    cx.rep.notes.push(
        "complete (under loom's partial-order reduction and C11 approximation) for the <= 3-thread scenarios with initial \
credit 0/1; the initial credit and the number of actors are not bounded in the theorems, only in this correspondence"
            .into(),
    );
    if let Some(d) = &cx.drv {
        cx.rep.notes.push(format!("driver lines: {}", d.lines));
    }
    cx.rep.finish(&args);
    std::process::exit(i32::from(cx.rep.has_failures()));
}
