//! C09: the real frame codec (`penguin_mux::frame`) against the Lean model (`drv_codec`) and against
//! an independent reference codec written from PROTOCOL.md (below).
//!
//! Non-trivial case: a frame built through a public constructor, or a byte string that gets past
//! the first length and version/opcode checks (length >= 5, version nibble 7 or 0, opcode <= 6).

use bytes::Bytes;
use cow_bytes::CowBytes;
use penguin_mux::frame::{BindType, Error, Frame, OpCode, append_push_data};
use pvh::{Args, Driver, FailKind, Report, Rng, Tier, catch, fnv, hex, hexd, json, shrink_bytes, unhex};

// ---------------------------------------------------------------------------------------------
// Independent reference codec, written from PROTOCOL.md's "Data Framing" section only.
// ---------------------------------------------------------------------------------------------

#[derive(Clone, Debug, PartialEq, Eq)]
enum RefFrame {
    Connect { id: u32, rwnd: u32, port: u16, host: Vec<u8> },
    Acknowledge { id: u32, n: u32 },
    Reset { id: u32 },
    Finish { id: u32 },
    Push { id: u32, data: Vec<u8> },
    Bind { id: u32, ty: u8, port: u16, host: Vec<u8> },
    Datagram { id: u32, port: u16, host: Vec<u8>, data: Vec<u8> },
}

fn ref_encode(f: &RefFrame) -> Vec<u8> {
    let mut v = Vec::new();
    let hdr = |v: &mut Vec<u8>, op: u8, id: u32| {
        v.push(0x70 | op);
        v.extend_from_slice(&id.to_be_bytes());
    };
    match f {
        RefFrame::Connect { id, rwnd, port, host } => {
            hdr(&mut v, 0, *id);
            v.extend_from_slice(&rwnd.to_be_bytes());
            v.extend_from_slice(&port.to_be_bytes());
            v.extend_from_slice(host);
        }
        RefFrame::Acknowledge { id, n } => {
            hdr(&mut v, 1, *id);
            v.extend_from_slice(&n.to_be_bytes());
        }
        RefFrame::Reset { id } => hdr(&mut v, 2, *id),
        RefFrame::Finish { id } => hdr(&mut v, 3, *id),
        RefFrame::Push { id, data } => {
            hdr(&mut v, 4, *id);
            v.extend_from_slice(data);
        }
        RefFrame::Bind { id, ty, port, host } => {
            hdr(&mut v, 5, *id);
            v.push(*ty);
            v.extend_from_slice(&port.to_be_bytes());
            v.extend_from_slice(host);
        }
        RefFrame::Datagram { id, port, host, data } => {
            hdr(&mut v, 6, *id);
            v.push(u8::try_from(host.len()).expect("reference encoder: host <= 255"));
            v.extend_from_slice(&port.to_be_bytes());
            v.extend_from_slice(host);
            v.extend_from_slice(data);
        }
    }
    v
}

/// `None` = not a valid frame under PROTOCOL.md (with the two documented leniencies: version
/// nibble 0 is accepted, bytes after the fixed fields of Acknowledge/Reset/Finish are ignored).
fn ref_decode(b: &[u8]) -> Option<RefFrame> {
    if b.len() < 5 {
        return None;
    }
    let ver = b[0] >> 4;
    if ver != 7 && ver != 0 {
        return None;
    }
    let id = u32::from_be_bytes([b[1], b[2], b[3], b[4]]);
    let p = &b[5..];
    match b[0] & 0x0F {
        0 if p.len() >= 6 => Some(RefFrame::Connect {
            id,
            rwnd: u32::from_be_bytes([p[0], p[1], p[2], p[3]]),
            port: u16::from_be_bytes([p[4], p[5]]),
            host: p[6..].to_vec(),
        }),
        1 if p.len() >= 4 => Some(RefFrame::Acknowledge { id, n: u32::from_be_bytes([p[0], p[1], p[2], p[3]]) }),
        2 => Some(RefFrame::Reset { id }),
        3 => Some(RefFrame::Finish { id }),
        4 => Some(RefFrame::Push { id, data: p.to_vec() }),
        5 if p.len() >= 3 && (p[0] == 1 || p[0] == 3) => {
            Some(RefFrame::Bind { id, ty: p[0], port: u16::from_be_bytes([p[1], p[2]]), host: p[3..].to_vec() })
        }
        6 if p.len() >= 3 && p.len() - 3 >= usize::from(p[0]) => {
            let hl = usize::from(p[0]);
            Some(RefFrame::Datagram {
                id,
                port: u16::from_be_bytes([p[1], p[2]]),
                host: p[3..3 + hl].to_vec(),
                data: p[3 + hl..].to_vec(),
            })
        }
        _ => None,
    }
}

// ---------------------------------------------------------------------------------------------
// Implementation side
// ---------------------------------------------------------------------------------------------

fn opname(op: OpCode) -> &'static str {
    match op {
        OpCode::Connect => "connect",
        OpCode::Acknowledge => "acknowledge",
        OpCode::Reset => "reset",
        OpCode::Finish => "finish",
        OpCode::Push => "push",
        OpCode::Bind => "bind",
        OpCode::Datagram => "datagram",
    }
}

fn canon(r: &Result<Frame<'_>, Error>) -> String {
    match r {
        Ok(f) => format!("ok {} {} {}", hex(&Vec::from(f)), opname(f.opcode()), f.id),
        Err(Error::FrameTooShort) => "err short".into(),
        Err(Error::FrameVersion(n)) => format!("err version {n}"),
        Err(Error::InvalidOpCode(n)) => format!("err opcode {n}"),
        Err(Error::InvalidBindType(n)) => format!("err bindtype {n}"),
        // (an error kind PROTOCOL.md does not know: the harness still builds and reports what it decodes to)
        #[allow(unreachable_patterns)]
        Err(e) => format!("err other {e}"),
    }
}

/// Decode through both entry points; `Err(what)` when they panic or disagree with each other.
fn impl_decode(bs: &[u8]) -> Result<String, String> {
    let borrowed = catch(|| canon(&Frame::try_from(bs))).map_err(|p| format!("panic (borrowed): {p}"))?;
    let owned = catch(|| canon(&Frame::try_from(Bytes::copy_from_slice(bs))))
        .map_err(|p| format!("panic (owned): {p}"))?;
    let vecd = catch(|| canon(&Frame::try_from(bs.to_vec()))).map_err(|p| format!("panic (vec): {p}"))?;
    if borrowed != owned || borrowed != vecd {
        return Err(format!("borrowed/owned decoders differ: {borrowed} / {owned} / {vecd}"));
    }
    Ok(borrowed)
}

/// What the reference codec expects the canonical decode line to start with.
fn ref_canon(bs: &[u8]) -> Option<String> {
    ref_decode(bs).map(|f| format!("ok {}", hex(&ref_encode(&f))))
}

/// Oracle on the implementation for one byte string. Returns a description when it fails.
fn oracle_bytes(bs: &[u8], got: &Result<String, String>) -> Option<String> {
    match got {
        Err(e) => Some(e.clone()),
        Ok(line) => match ref_canon(bs) {
            Some(exp) => {
                if line.starts_with(&exp) && line.as_bytes().get(exp.len()) == Some(&b' ') {
                    None
                } else {
                    Some(format!("valid under PROTOCOL.md, expected `{exp} ..`, implementation says `{line}`"))
                }
            }
            None => {
                if line.starts_with("err ") {
                    None
                } else {
                    Some(format!("invalid under PROTOCOL.md but the implementation decodes it: `{line}`"))
                }
            }
        },
    }
}

struct Ctx {
    rep: Report,
    drv: Option<Driver>,
    pending: Vec<(Vec<u8>, String)>,
}

impl Ctx {
    /// Queue one byte string; flushed in batches through the driver.
    fn bytes_case(&mut self, bs: Vec<u8>, origin: &str) {
        self.pending.push((bs, origin.to_string()));
        if self.pending.len() >= 4096 {
            self.flush();
        }
    }

    fn flush(&mut self) {
        let cases = std::mem::take(&mut self.pending);
        if cases.is_empty() {
            return;
        }
        let model: Option<Vec<String>> = self.drv.as_mut().map(|d| {
            let mut reqs = Vec::with_capacity(cases.len() * 2);
            for (bs, _) in &cases {
                reqs.push(format!("dec {}", hexd(bs)));
                reqs.push(format!("valid {}", hexd(bs)));
            }
            d.batch(&reqs)
        });
        for (i, (bs, origin)) in cases.iter().enumerate() {
            let got = impl_decode(bs);
            let nontrivial = bs.len() >= 5 && (bs[0] >> 4 == 7 || bs[0] >> 4 == 0) && (bs[0] & 15) <= 6;
            self.rep.case(nontrivial.then(|| fnv(bs)));
            self.rep.count(&format!("bytes/{origin}"));
            if got.is_err() {
                self.rep.count("result/panic-or-mismatch");
            }
            if let Ok(l) = &got {
                if l.starts_with("ok ") {
                    self.rep.count(&format!("decoded/{}", l.split(' ').nth(2).unwrap_or("?")));
                } else {
                    self.rep.count(&format!("error/{}", l.split(' ').nth(1).unwrap_or("?")));
                }
            }
            let oracle_failed = oracle_bytes(bs, &got);
            if let Some(why) = oracle_failed.clone() {
                let small = shrink_bytes(bs.clone(), |c| oracle_bytes(c, &impl_decode(c)).is_some());
                let why_small = oracle_bytes(&small, &impl_decode(&small)).unwrap_or(why);
                self.rep.fail(
                    FailKind::Impl,
                    &format!("decode {}", hexd(&small)),
                    &why_small,
                    json!({"op": "dec", "bytes": hexd(&small), "original": hexd(bs)}),
                );
            }
            if let Some(m) = &model {
                self.rep.model_compared += 1;
                let mdec = &m[2 * i];
                let mvalid = &m[2 * i + 1];
                let impl_line = got.clone().unwrap_or_else(|e| format!("panic {e}"));
                if *mdec != impl_line {
                    self.rep.fail(
                        FailKind::Model,
                        &format!("dec {}", hexd(bs)),
                        &format!("model `{mdec}` vs implementation `{impl_line}`"),
                        json!({"op": "dec", "bytes": hexd(bs), "model": mdec, "impl": impl_line}),
                    );
                }
                // monitor: the theorem's own predicate (Spec.Layout.Valid) on the implementation's answer
                let impl_ok = impl_line.starts_with("ok ");
                if (mvalid == "true") != impl_ok && oracle_failed.is_none() {
                    self.rep.fail(
                        FailKind::Impl,
                        &format!("valid-iff {}", hexd(bs)),
                        &format!("Spec.Layout.Valid = {mvalid} but the implementation answers `{impl_line}`"),
                        json!({"op": "dec", "bytes": hexd(bs)}),
                    );
                }
            }
            if i == 0 && self.rep.samples.len() < 10 {
                self.rep.sample(json!({"bytes": hexd(bs), "impl": got.clone().unwrap_or_else(|e| e), "origin": origin}));
            }
        }
    }
}

#[derive(Clone, Debug)]
enum Spec {
    Connect(u32, u32, u16, Vec<u8>),
    Ack(u32, u32),
    Reset(u32),
    Finish(u32),
    Push(u32, Vec<u8>),
    PushV(u32, Vec<Vec<u8>>),
    Bind(u32, u8, u16, Vec<u8>),
    Dgram(u32, u16, Vec<u8>, Vec<u8>),
}

impl Spec {
    fn line(&self) -> String {
        match self {
            Spec::Connect(id, w, p, h) => format!("enc connect {id} {w} {p} {}", hexd(h)),
            Spec::Ack(id, n) => format!("enc acknowledge {id} {n}"),
            Spec::Reset(id) => format!("enc reset {id}"),
            Spec::Finish(id) => format!("enc finish {id}"),
            Spec::Push(id, d) => format!("enc push {id} {}", hexd(d)),
            Spec::PushV(id, ps) => {
                format!("encv {id}{}", ps.iter().map(|p| format!(" {}", hexd(p))).collect::<String>())
            }
            Spec::Bind(id, t, p, h) => format!("enc bind {id} {t} {p} {}", hexd(h)),
            Spec::Dgram(id, p, h, d) => format!("enc datagram {id} {p} {} {}", hexd(h), hexd(d)),
        }
    }
    fn reference(&self) -> RefFrame {
        match self.clone() {
            Spec::Connect(id, rwnd, port, host) => RefFrame::Connect { id, rwnd, port, host },
            Spec::Ack(id, n) => RefFrame::Acknowledge { id, n },
            Spec::Reset(id) => RefFrame::Reset { id },
            Spec::Finish(id) => RefFrame::Finish { id },
            Spec::Push(id, data) => RefFrame::Push { id, data },
            Spec::PushV(id, ps) => RefFrame::Push { id, data: ps.concat() },
            Spec::Bind(id, ty, port, host) => RefFrame::Bind { id, ty, port, host },
            Spec::Dgram(id, port, host, data) => RefFrame::Datagram { id, port, host, data },
        }
    }
    /// Build through the public constructors, encode both ways, decode both ways.
    /// `Ok(encoded hex)`, `Ok("panic")` when encoding panics, `Err(why)` when the implementation is
    /// inconsistent with itself or with the reference codec.
    fn run_impl(&self, owned: bool) -> Result<String, String> {
        let pieces_store: Vec<CowBytes<'_>>;
        let frame = match self {
            Spec::Connect(id, w, p, h) => Frame::new_connect(h, *p, *id, *w),
            Spec::Ack(id, n) => Frame::new_acknowledge(*id, *n),
            Spec::Reset(id) => Frame::new_reset(*id),
            Spec::Finish(id) => Frame::new_finish(*id),
            Spec::Push(id, d) => {
                if owned { Frame::new_push_owned(*id, Bytes::copy_from_slice(d)) } else { Frame::new_push(*id, d) }
            }
            Spec::PushV(id, ps) => {
                pieces_store = ps
                    .iter()
                    .enumerate()
                    .map(|(i, p)| if (i % 2 == 0) == owned { CowBytes::Static(Bytes::copy_from_slice(p)) } else { CowBytes::Temporary(p) })
                    .collect();
                Frame::new_push_vectored(*id, pieces_store.clone())
            }
            Spec::Bind(id, t, p, h) => {
                Frame::new_bind(*id, if *t == 1 { BindType::Stream } else { BindType::Datagram }, h, *p)
            }
            Spec::Dgram(id, p, h, d) => {
                if owned {
                    Frame::new_datagram_owned(*id, Bytes::copy_from_slice(h), *p, Bytes::copy_from_slice(d))
                } else {
                    Frame::new_datagram(*id, h, *p, d)
                }
            }
        };
        // Equality of Push payloads is by CONTENT, whatever the representation (frame.rs `impl PartialEq for
        // PushPayload`): a vectored frame equals the vectored frame of the same bytes cut elsewhere and the
        // single-slice frame of the concatenation, and differs from one with a byte changed or dropped.
        // (Decoding yields the single representation, so the round trip below never compares two vectored ones.)
        if let Spec::PushV(id, ps) = self {
            let flat: Vec<u8> = ps.concat();
            let cut = flat.len() / 3;
            let other = vec![CowBytes::Temporary(&flat[..cut]), CowBytes::Temporary(&[][..]), CowBytes::Temporary(&flat[cut..])];
            let same_v = Frame::new_push_vectored(*id, other);
            let same_s = Frame::new_push(*id, &flat);
            let eqs = catch(|| (frame == same_v, same_v == frame, frame == same_s, same_s == frame)).map_err(|p| format!("comparing Push frames panicked: {p}"))?;
            if eqs != (true, true, true, true) {
                return Err(format!("Push frames with the same id and bytes compare unequal across representations (vectored/vectored, reversed, vectored/single, reversed): {eqs:?}"));
            }
            let mut changed = flat.clone();
            if let Some(b) = changed.last_mut() { *b ^= 1 } else { changed.push(0) }
            let ccut = changed.len() / 2;
            let diff_v = Frame::new_push_vectored(*id, vec![CowBytes::Temporary(&changed[..ccut]), CowBytes::Temporary(&changed[ccut..])]);
            let other_id = Frame::new_push_vectored(id.wrapping_add(1), vec![CowBytes::Temporary(&flat[..cut]), CowBytes::Temporary(&flat[cut..])]);
            let nes = catch(|| (frame == diff_v, diff_v == frame, frame == other_id)).map_err(|p| format!("comparing Push frames panicked: {p}"))?;
            if nes != (false, false, false) {
                return Err(format!("Push frames with different bytes or ids compare equal: {nes:?}"));
            }
        }
        // `Debug` and `opcode()` are total (the task logs every frame at trace level)
        catch(|| (format!("{frame:?}").len(), frame.opcode() as u8)).map_err(|p| format!("Debug / opcode() panicked: {p}"))?;
        let host_too_long = matches!(self, Spec::Dgram(_, _, h, _) if h.len() > 255);
        let enc = match catch(|| Vec::from(&frame)) {
            Ok(v) => v,
            Err(p) => {
                return if host_too_long { Ok("panic".into()) } else { Err(format!("encoding panicked: {p}")) };
            }
        };
        if host_too_long {
            return Err("Datagram host > 255 encoded without the documented panic".into());
        }
        let enc_b = catch(|| Bytes::from(&frame)).map_err(|p| format!("Bytes::from panicked: {p}"))?;
        if enc_b.as_ref() != enc.as_slice() {
            return Err("Vec::from and Bytes::from differ".into());
        }
        let expect = ref_encode(&self.reference());
        if enc != expect {
            return Err(format!("layout differs from PROTOCOL.md: got {} want {}", hex(&enc), hex(&expect)));
        }
        // round trip, borrowed and owned; equality through the crate's own `==`
        let d1 = catch(|| Frame::try_from(enc.as_slice()).map(|f| f == frame))
            .map_err(|p| format!("decode (borrowed) panicked: {p}"))?;
        let d2 = catch(|| Frame::try_from(Bytes::from(enc.clone())).map(|f| f == frame))
            .map_err(|p| format!("decode (owned) panicked: {p}"))?;
        match (d1, d2) {
            (Ok(true), Ok(true)) => Ok(hex(&enc)),
            other => Err(format!("round trip failed: {other:?} for {}", hex(&enc))),
        }
    }
}

fn boundary_u32(r: &mut Rng) -> u32 {
    match r.below(8) {
        0 => 0,
        1 => 1,
        2 => 0xFFFF,
        3 => 0x1_0000,
        4 => 0xFFFF_FFFF,
        5 => 0x8000_0000,
        _ => r.next() as u32,
    }
}

fn boundary_u16(r: &mut Rng) -> u16 {
    match r.below(6) {
        0 => 0,
        1 => 1,
        2 => 80,
        3 => 0xFFFF,
        4 => 0x100,
        _ => r.next() as u16,
    }
}

fn small_len(r: &mut Rng) -> usize {
    match r.below(10) {
        0 => 0,
        1 => 1,
        2 => 2,
        3 => 3,
        4 => 4,
        5 => 5,
        6 => r.range(6, 9) as usize,
        7 => r.range(250, 260) as usize,
        8 => r.range(0, 64) as usize,
        _ => r.range(0, 4096) as usize,
    }
}

fn host_len(r: &mut Rng, allow_long: bool) -> usize {
    match r.below(10) {
        0 => 0,
        1 => 1,
        2 => 254,
        3 => 255,
        4 if allow_long => 256,
        5 if allow_long => r.range(257, 300) as usize,
        6 => r.range(2, 16) as usize,
        _ => r.range(0, 255) as usize,
    }
}

fn gen_spec(r: &mut Rng) -> Spec {
    let id = boundary_u32(r);
    match r.below(9) {
        0 => { let n = host_len(r, true); Spec::Connect(id, boundary_u32(r), boundary_u16(r), r.bytes(n)) }
        1 => Spec::Ack(id, boundary_u32(r)),
        2 => Spec::Reset(id),
        3 => Spec::Finish(id),
        4 => { let n = small_len(r); Spec::Push(id, r.bytes(n)) }
        5 => {
            let k = r.range(0, 5) as usize;
            Spec::PushV(id, (0..k).map(|_| { let n = if r.chance(1, 3) { 0 } else { r.range(0, 40) as usize }; r.bytes(n) }).collect())
        }
        6 => { let n = host_len(r, true); Spec::Bind(id, if r.chance(1, 2) { 1 } else { 3 }, boundary_u16(r), r.bytes(n)) }
        _ => { let n = host_len(r, true); let m = small_len(r); Spec::Dgram(id, boundary_u16(r), r.bytes(n), r.bytes(m)) }
    }
}

fn frames_part(cx: &mut Ctx, specs: &[Spec]) {
    for chunk in specs.chunks(2048) {
        let model: Option<Vec<String>> =
            cx.drv.as_mut().map(|d| d.batch(&chunk.iter().map(Spec::line).collect::<Vec<_>>()));
        for (i, sp) in chunk.iter().enumerate() {
            let line = sp.line();
            cx.rep.case(Some(fnv(line.as_bytes())));
            let kind = if line.starts_with("encv") { "push-vectored" } else { line.split(' ').nth(1).unwrap_or("?") };
            cx.rep.count(&format!("frame/{kind}"));
            let r1 = sp.run_impl(false);
            let r2 = sp.run_impl(true);
            if r1.is_err() || r2.is_err() {
                // first try to express the failure as a (shrunk) byte string handed to the decoder
                if !matches!(sp, Spec::Dgram(_, _, h, _) if h.len() > 255) {
                    let before = cx.rep.failures.len();
                    cx.bytes_case(ref_encode(&sp.reference()), "failed-frame");
                    cx.flush();
                    if cx.rep.failures.len() > before || cx.rep.failures.iter().any(|f| f["kind"] == "impl") {
                        continue;
                    }
                }
                for r in [&r1, &r2] {
                    if let Err(why) = r {
                        cx.rep.fail(FailKind::Impl, &format!("frame {line}"), why, json!({"op": "enc", "line": line}));
                    }
                }
            }
            if let (Some(m), Ok(got)) = (&model, &r1) {
                cx.rep.model_compared += 1;
                if m[i] != *got {
                    cx.rep.fail(
                        FailKind::Model,
                        &format!("enc {line}"),
                        &format!("model `{}` vs implementation `{got}`", m[i]),
                        json!({"op": "enc", "line": line, "model": m[i], "impl": got}),
                    );
                }
            }
            if i == 0 {
                cx.rep.sample(json!({"frame": line, "impl": r1.clone().unwrap_or_else(|e| e)}));
            }
            // the encoded bytes also enter the byte-string stream (with truncations/mutations later)
        }
    }
}

fn append_part(cx: &mut Ctx, r: &mut Rng, n: usize) {
    let mut reqs = vec![];
    let mut impls = vec![];
    for _ in 0..n {
        let id = boundary_u32(r);
        let valid = r.chance(3, 4);
        let k = small_len(r).min(64);
        let mut fr = if valid {
            Vec::from(&Frame::new_push(id, &r.bytes(k)))
        } else {
            let m = r.range(0, 8) as usize;
            let mut v = r.bytes(m);
            if !v.is_empty() && r.chance(1, 2) {
                v[0] = *r.pick(&[0x70, 0x73, 0x04, 0x74, 0x84, 0x7f, 0x14]);
            }
            v
        };
        let k2 = r.range(0, 32) as usize;
        let data = r.bytes(k2);
        reqs.push(format!("append {} {}", hexd(&fr), hexd(&data)));
        let got = match catch(|| { append_push_data(&mut fr, &data); hex(&fr) }) {
            Ok(h) => h,
            Err(_) => "panic".into(),
        };
        impls.push(got);
    }
    let model = cx.drv.as_mut().map(|d| d.batch(&reqs));
    for (i, req) in reqs.iter().enumerate() {
        cx.rep.case(Some(fnv(req.as_bytes())));
        cx.rep.count("append");
        if let Some(m) = &model {
            cx.rep.model_compared += 1;
            if m[i] != impls[i] {
                cx.rep.fail(FailKind::Model, req, &format!("model `{}` vs implementation `{}`", m[i], impls[i]),
                    json!({"op": "append", "line": req, "model": m[i], "impl": impls[i]}));
            }
        }
    }
}

fn exhaustive_part(cx: &mut Ctx, tail_max: usize) {
    const FIRST: [u8; 16] = [0x70, 0x71, 0x72, 0x73, 0x74, 0x75, 0x76, 0x77, 0x00, 0x05, 0x06, 0x0f, 0x66, 0x86, 0xf6, 0x7f];
    const TAIL: [u8; 8] = [0x00, 0x01, 0x02, 0x03, 0x04, 0x05, 0xff, 0x78];
    // every prefix of a header
    for &b0 in &FIRST {
        for n in 0..5 {
            let mut v = vec![b0];
            v.extend(std::iter::repeat_n(0xabu8, n));
            v.truncate(n.max(1));
            cx.bytes_case(v, "exhaustive-header-prefix");
        }
    }
    cx.bytes_case(vec![], "exhaustive-header-prefix");
    for &b0 in &FIRST {
        for len in 0..=tail_max {
            let total = TAIL.len().pow(len as u32);
            for mut k in 0..total {
                let mut v = vec![b0, 0, 0, 0, 7];
                for _ in 0..len {
                    v.push(TAIL[k % TAIL.len()]);
                    k /= TAIL.len();
                }
                cx.bytes_case(v, "exhaustive-tail");
            }
        }
    }
}

fn mutation_part(cx: &mut Ctx, r: &mut Rng, specs: &[Spec], per: usize) {
    for sp in specs {
        if matches!(sp, Spec::Dgram(_, _, h, _) if h.len() > 255) {
            continue;
        }
        let enc = ref_encode(&sp.reference());
        if enc.len() > 600 {
            // long frames: a few truncation points only
            for _ in 0..per.min(4) {
                let k = r.below(enc.len() as u64 + 1) as usize;
                cx.bytes_case(enc[..k].to_vec(), "truncation");
            }
            continue;
        }
        cx.bytes_case(enc.clone(), "valid-frame");
        // every truncation point of short frames, a sample for longer ones
        if enc.len() <= 24 {
            for k in 0..enc.len() {
                cx.bytes_case(enc[..k].to_vec(), "truncation");
            }
        } else {
            for _ in 0..per {
                let k = r.below(enc.len() as u64) as usize;
                cx.bytes_case(enc[..k].to_vec(), "truncation");
            }
        }
        for _ in 0..per {
            let mut m = enc.clone();
            let i = r.below(m.len().min(12) as u64) as usize;
            m[i] = match r.below(4) {
                0 => m[i] ^ (1 << r.below(8)),
                1 => m[i].wrapping_add(1),
                2 => 0xff,
                _ => r.next() as u8,
            };
            cx.bytes_case(m, "mutation");
        }
    }
}

fn random_part(cx: &mut Ctx, r: &mut Rng, n: usize, max_len: usize) {
    for _ in 0..n {
        let len = match r.below(100) {
            0..=39 => r.range(0, 12) as usize,
            40..=69 => r.range(0, 64) as usize,
            70..=98 => r.range(0, 600) as usize,
            _ => r.range(0, max_len as u64) as usize,
        };
        let mut v = r.bytes(len);
        if !v.is_empty() && r.chance(3, 4) {
            v[0] = (if r.chance(7, 8) { 0x70 } else { 0x00 }) | (r.below(8) as u8);
        }
        cx.bytes_case(v, "random");
    }
}

fn replay(args: &Args, path: &str) -> i32 {
    let text = std::fs::read_to_string(path).expect("read replay file");
    let v: pvh::Value = serde_json::from_str(&text).expect("replay json");
    let rp = if v.get("replay").is_some() { &v["replay"] } else { &v };
    let _ = args;
    match rp["op"].as_str() {
        Some("dec") => {
            let bs = unhex(rp["bytes"].as_str().expect("bytes")).expect("hex");
            let got = impl_decode(&bs);
            println!("input     {}", hexd(&bs));
            println!("impl      {}", got.clone().unwrap_or_else(|e| e));
            println!("reference {}", ref_canon(&bs).unwrap_or_else(|| "invalid".into()));
            match oracle_bytes(&bs, &got) {
                Some(why) => { println!("FAILS: {why}"); 1 }
                None => { println!("holds on this input"); 0 }
            }
        }
        Some("enc") | Some("append") => {
            println!("replay line: {}", rp["line"]);
            println!("(re-run `pvh codec` with the same seed to re-evaluate frame-level cases)");
            0
        }
        _ => { println!("unknown replay"); 2 }
    }
}

fn main() {
    pvh::quiet_panics();
    let args = Args::parse();
    if let Some(p) = &args.replay {
        std::process::exit(replay(&args, p));
    }
    let rule = "frames built through every public constructor over boundary values of every field, plus byte strings \
(bounded-exhaustive over a boundary alphabet, every truncation and single-byte mutations of valid frames, random); \
non-trivial = constructor-built frame, or byte string with length >= 5, version nibble 7/0 and opcode <= 6 \
(gets past the first length and opcode checks); distinct by content";
    let mut cx = Ctx {
        rep: Report::new("codec", &args, rule),
        drv: args.driver.as_deref().map(|p| Driver::spawn(p, &[]).expect("start Lean driver")),
        pending: vec![],
    };
    let mut rng = Rng::new(args.seed);
    // corpus first
    for (name, text) in pvh::corpus_files(args.corpus.as_deref()) {
        for l in text.lines() {
            let t: Vec<&str> = l.split_whitespace().collect();
            if t.len() == 2 && t[0] == "dec" {
                if let Some(bs) = unhex(t[1]) {
                    cx.bytes_case(bs, &format!("corpus:{name}"));
                }
            }
        }
    }
    cx.flush();
    let (n_frames, tail_max, n_random, per) = match args.tier {
        Tier::Quick => (6000, 4, 20_000, 6),
        Tier::Thorough => (120_000, 6, 600_000, 12),
    };
    let specs: Vec<Spec> = (0..n_frames).map(|_| gen_spec(&mut rng)).collect();
    frames_part(&mut cx, &specs);
    append_part(&mut cx, &mut rng, n_frames / 4);
    exhaustive_part(&mut cx, tail_max);
    cx.rep.exhaustive = false; // exhaustive only over the stated alphabet/length, not over the quantifier
    cx.rep.notes.push(format!(
        "byte strings enumerated completely: 16 first bytes x tails of length <= {tail_max} over an 8-symbol alphabet"
    ));
    mutation_part(&mut cx, &mut rng.fork(2), &specs[..specs.len().min(n_frames / 2)], per);
    random_part(&mut cx, &mut rng.fork(3), n_random, 65_536);
    cx.flush();
    if let Some(d) = &cx.drv {
        cx.rep.notes.push(format!("driver lines: {}", d.lines));
    }
    cx.rep.finish(&args);
    std::process::exit(i32::from(cx.rep.has_failures()));
}
