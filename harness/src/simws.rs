//! In-memory WebSocket whose two directions are controlled by the harness: messages the task sends
//! are appended to `out` (the harness decides if and when they reach the peer); messages the task
//! receives are those the harness pushed to `inb`.

use penguin_mux::ws::{Message, WebSocket};
use std::collections::VecDeque;
use std::sync::{Arc, Mutex};
use std::task::{Context, Poll, Waker};

#[derive(Debug)]
pub struct SimError(pub &'static str);
impl std::fmt::Display for SimError {
    fn fmt(&self, f: &mut std::fmt::Formatter<'_>) -> std::fmt::Result {
        write!(f, "simulated transport error: {}", self.0)
    }
}
impl std::error::Error for SimError {}

fn ws_err(what: &'static str) -> penguin_mux::Error {
    penguin_mux::Error::WebSocket(Box::new(SimError(what)))
}

/// One item the source yields.
#[derive(Debug, Clone)]
pub enum In {
    Msg(Message),
    Err,
}

#[derive(Debug, Default)]
pub struct WsState {
    /// Delivered by the harness, not yet read by the task.
    pub inb: VecDeque<In>,
    /// The source has ended (`poll_next` yields `None` once `inb` is empty).
    pub in_eof: bool,
    pub in_waker: Option<Waker>,
    /// Everything the task handed to the sink, in order.
    pub out: Vec<Message>,
    /// Index into `out` at which `poll_close` was called (the Close frame), if it was.
    pub out_closed_at: Option<usize>,
    /// The sink fails from now on.
    pub sink_err: bool,
    /// How many more messages the sink accepts (`None` = any number); `Some(0)` = not ready.
    pub sink_room: Option<usize>,
    pub sink_waker: Option<Waker>,
    pub polls_next: u64,
}

#[derive(Debug, Clone, Default)]
pub struct SimWs(pub Arc<Mutex<WsState>>);

impl SimWs {
    #[must_use]
    pub fn new() -> Self {
        Self::default()
    }
    /// Harness side: make a message available to the task.
    pub fn deliver(&self, m: In) {
        let mut s = self.0.lock().expect("ws");
        s.inb.push_back(m);
        if let Some(w) = s.in_waker.take() {
            w.wake();
        }
    }
    pub fn end_source(&self) {
        let mut s = self.0.lock().expect("ws");
        s.in_eof = true;
        if let Some(w) = s.in_waker.take() {
            w.wake();
        }
    }
    pub fn fail_sink(&self) {
        let mut s = self.0.lock().expect("ws");
        s.sink_err = true;
        if let Some(w) = s.sink_waker.take() {
            w.wake();
        }
    }
    /// Back-pressure: the sink accepts `room` more messages, then is not ready (`None`: no limit).
    pub fn set_sink_room(&self, room: Option<usize>) {
        let mut s = self.0.lock().expect("ws");
        s.sink_room = room;
        if room != Some(0) {
            if let Some(w) = s.sink_waker.take() {
                w.wake();
            }
        }
    }
    /// Harness side: take the messages sent since the last call.
    pub fn take_out(&self, from: usize) -> (Vec<Message>, Option<usize>) {
        let s = self.0.lock().expect("ws");
        (s.out[from.min(s.out.len())..].to_vec(), s.out_closed_at)
    }
}

impl WebSocket for SimWs {
    fn poll_ready_unpin(&mut self, cx: &mut Context<'_>) -> Poll<Result<(), penguin_mux::Error>> {
        let mut s = self.0.lock().expect("ws");
        if s.sink_err {
            return Poll::Ready(Err(ws_err("sink")));
        }
        if s.sink_room == Some(0) {
            s.sink_waker = Some(cx.waker().clone());
            return Poll::Pending;
        }
        Poll::Ready(Ok(()))
    }
    fn start_send_unpin(&mut self, item: Message) -> Result<(), penguin_mux::Error> {
        let mut s = self.0.lock().expect("ws");
        if s.sink_err {
            return Err(ws_err("sink"));
        }
        if let Some(n) = s.sink_room.as_mut() {
            *n = n.saturating_sub(1);
        }
        s.out.push(item);
        Ok(())
    }
    fn poll_flush_unpin(&mut self, _cx: &mut Context<'_>) -> Poll<Result<(), penguin_mux::Error>> {
        let s = self.0.lock().expect("ws");
        if s.sink_err { Poll::Ready(Err(ws_err("sink"))) } else { Poll::Ready(Ok(())) }
    }
    fn poll_close_unpin(&mut self, _cx: &mut Context<'_>) -> Poll<Result<(), penguin_mux::Error>> {
        let mut s = self.0.lock().expect("ws");
        if s.sink_err {
            return Poll::Ready(Err(ws_err("sink")));
        }
        if s.out_closed_at.is_none() {
            s.out_closed_at = Some(s.out.len());
        }
        Poll::Ready(Ok(()))
    }
    fn poll_next_unpin(&mut self, cx: &mut Context<'_>) -> Poll<Option<Result<Message, penguin_mux::Error>>> {
        let mut s = self.0.lock().expect("ws");
        s.polls_next += 1;
        match s.inb.pop_front() {
            Some(In::Msg(m)) => Poll::Ready(Some(Ok(m))),
            Some(In::Err) => Poll::Ready(Some(Err(ws_err("source")))),
            None => {
                if s.in_eof {
                    Poll::Ready(None)
                } else {
                    s.in_waker = Some(cx.waker().clone());
                    Poll::Pending
                }
            }
        }
    }
}

/// Scripted RNG: `next_u32` returns the scripted values in order, then a deterministic fallback
/// sequence (so the id generator always terminates).
#[derive(Debug, Clone)]
pub struct ScriptRng {
    pub script: Arc<Mutex<VecDeque<u32>>>,
    pub fallback: u64,
    pub drawn: Arc<Mutex<Vec<u32>>>,
}

impl ScriptRng {
    #[must_use]
    pub fn new() -> Self {
        Self { script: Arc::default(), fallback: 0x1234_5678_9abc_def1, drawn: Arc::default() }
    }
    pub fn push(&self, v: u32) {
        self.script.lock().expect("rng").push_back(v);
    }
}

impl Default for ScriptRng {
    fn default() -> Self {
        Self::new()
    }
}

impl rand::TryRng for ScriptRng {
    type Error = core::convert::Infallible;
    fn try_next_u32(&mut self) -> Result<u32, Self::Error> {
        let v = self.script.lock().expect("rng").pop_front().unwrap_or_else(|| {
            self.fallback = self.fallback.wrapping_mul(6364136223846793005).wrapping_add(1442695040888963407);
            (self.fallback >> 33) as u32 | 0x4000_0000
        });
        self.drawn.lock().expect("rng").push(v);
        Ok(v)
    }
    fn try_next_u64(&mut self) -> Result<u64, Self::Error> {
        let a = u64::from(self.try_next_u32()?);
        let b = u64::from(self.try_next_u32()?);
        Ok(a << 32 | b)
    }
    fn try_fill_bytes(&mut self, dst: &mut [u8]) -> Result<(), Self::Error> {
        for c in dst.chunks_mut(4) {
            let v = self.try_next_u32()?.to_le_bytes();
            c.copy_from_slice(&v[..c.len()]);
        }
        Ok(())
    }
}
