//! In-memory, harness-controlled WebSocket (filled in with the mux harness).
