//! Shared parts of the correspondence harness: PRNG, hex, the Lean driver child process,
//! command-line handling, the JSON report every sub-command writes, and byte/list shrinking.

use std::collections::{BTreeMap, HashSet};
use std::io::{BufRead, BufReader, Write};
use std::process::{Child, ChildStdin, ChildStdout, Command, Stdio};

pub use serde_json::{Value, json};

pub mod exec;
pub mod simws;
pub mod muxsim;

/// splitmix64: every random choice of a run derives from `VERIF_SEED` through this.
#[derive(Clone, Debug)]
pub struct Rng(pub u64);

impl Rng {
    #[must_use]
    pub fn new(seed: u64) -> Self {
        Self(seed.wrapping_mul(0x9E37_79B9_7F4A_7C15) ^ 0xD1B5_4A32_D192_ED03)
    }
    pub fn next(&mut self) -> u64 {
        self.0 = self.0.wrapping_add(0x9E37_79B9_7F4A_7C15);
        let mut z = self.0;
        z = (z ^ (z >> 30)).wrapping_mul(0xBF58_476D_1CE4_E5B9);
        z = (z ^ (z >> 27)).wrapping_mul(0x94D0_49BB_1331_11EB);
        z ^ (z >> 31)
    }
    /// Uniform in `0..n` (`n > 0`).
    pub fn below(&mut self, n: u64) -> u64 {
        self.next() % n
    }
    pub fn range(&mut self, lo: u64, hi_incl: u64) -> u64 {
        lo + self.below(hi_incl - lo + 1)
    }
    pub fn chance(&mut self, num: u64, den: u64) -> bool {
        self.below(den) < num
    }
    pub fn pick<'a, T>(&mut self, xs: &'a [T]) -> &'a T {
        &xs[self.below(xs.len() as u64) as usize]
    }
    pub fn bytes(&mut self, n: usize) -> Vec<u8> {
        (0..n).map(|_| self.next() as u8).collect()
    }
    /// A sub-generator whose stream does not depend on how much of `self` was consumed before.
    #[must_use]
    pub fn fork(&self, tag: u64) -> Self {
        Self::new(self.0 ^ tag.wrapping_mul(0xA24B_AED4_963E_E407))
    }
}

#[must_use]
pub fn hex(bs: &[u8]) -> String {
    const D: &[u8; 16] = b"0123456789abcdef";
    let mut s = String::with_capacity(bs.len() * 2);
    for b in bs {
        s.push(D[(b >> 4) as usize] as char);
        s.push(D[(b & 15) as usize] as char);
    }
    s
}

/// Hex, or `-` for the empty string (so that every field of a protocol line is a token).
#[must_use]
pub fn hexd(bs: &[u8]) -> String {
    if bs.is_empty() { "-".into() } else { hex(bs) }
}

#[must_use]
pub fn unhex(s: &str) -> Option<Vec<u8>> {
    if s == "-" {
        return Some(vec![]);
    }
    if s.len() % 2 != 0 {
        return None;
    }
    (0..s.len() / 2)
        .map(|i| u8::from_str_radix(s.get(2 * i..2 * i + 2)?, 16).ok())
        .collect()
}

/// The compiled Lean driver as a child process speaking the line protocol.
pub struct Driver {
    child: Child,
    stdin: Option<ChildStdin>,
    stdout: BufReader<ChildStdout>,
    pub path: String,
    pub lines: u64,
}

impl Driver {
    /// # Errors
    /// When the executable cannot be started.
    pub fn spawn(path: &str, args: &[&str]) -> std::io::Result<Self> {
        let mut child = Command::new(path)
            .args(args)
            .stdin(Stdio::piped())
            .stdout(Stdio::piped())
            .stderr(Stdio::inherit())
            .spawn()?;
        let stdin = child.stdin.take();
        let stdout = BufReader::with_capacity(1 << 16, child.stdout.take().expect("piped stdout"));
        Ok(Self { child, stdin, stdout, path: path.into(), lines: 0 })
    }

    /// Send request lines, get one response line per request (order kept). Requests are written
    /// from a helper thread so that large batches cannot dead-lock on full pipes.
    ///
    /// # Panics
    /// If the driver dies or answers fewer lines than it was asked.
    pub fn batch(&mut self, reqs: &[String]) -> Vec<String> {
        let mut stdin = self.stdin.take().expect("driver stdin");
        let n = reqs.len();
        let mut out = Vec::with_capacity(n);
        let stdout = &mut self.stdout;
        let stdin_back = std::thread::scope(|s| {
            let w = s.spawn(move || {
                {
                    let mut bw = std::io::BufWriter::with_capacity(1 << 16, &mut stdin);
                    for r in reqs {
                        debug_assert!(!r.contains('\n'));
                        bw.write_all(r.as_bytes()).expect("write to driver");
                        bw.write_all(b"\n").expect("write to driver");
                    }
                    bw.flush().expect("flush to driver");
                }
                stdin
            });
            for i in 0..n {
                let mut line = String::new();
                let k = stdout.read_line(&mut line).expect("read from driver");
                assert!(k > 0, "driver ended after {i} of {n} responses");
                while line.ends_with('\n') || line.ends_with('\r') {
                    line.pop();
                }
                out.push(line);
            }
            w.join().expect("writer thread")
        });
        self.stdin = Some(stdin_back);
        self.lines += n as u64;
        out
    }

    pub fn ask(&mut self, req: &str) -> String {
        self.batch(&[req.to_string()]).pop().expect("one response")
    }
}

impl Drop for Driver {
    fn drop(&mut self) {
        drop(self.stdin.take());
        let _ = self.child.wait();
    }
}

#[derive(Clone, Copy, Debug, PartialEq, Eq)]
pub enum Tier {
    Quick,
    Thorough,
}

/// Command line shared by all sub-commands.
#[derive(Debug)]
pub struct Args {
    pub seed: u64,
    pub tier: Tier,
    /// Path of the compiled Lean driver; `None` = run the implementation-side oracles only
    /// (used by the search phase when the model no longer builds).
    pub driver: Option<String>,
    pub out: Option<String>,
    pub replay: Option<String>,
    pub corpus: Option<String>,
    pub extra: Vec<String>,
}

impl Args {
    #[must_use]
    pub fn parse() -> Self {
        let mut a = Self {
            seed: std::env::var("VERIF_SEED").ok().and_then(|s| s.parse().ok()).unwrap_or(1),
            tier: Tier::Quick,
            driver: None,
            out: None,
            replay: None,
            corpus: None,
            extra: vec![],
        };
        let mut it = std::env::args().skip(1);
        while let Some(x) = it.next() {
            match x.as_str() {
                "--seed" => a.seed = it.next().and_then(|s| s.parse().ok()).expect("--seed N"),
                "--tier" => {
                    a.tier = match it.next().as_deref() {
                        Some("quick") => Tier::Quick,
                        Some("thorough") => Tier::Thorough,
                        other => panic!("--tier quick|thorough, got {other:?}"),
                    }
                }
                "--driver" => a.driver = it.next(),
                "--out" => a.out = it.next(),
                "--replay" => a.replay = it.next(),
                "--corpus" => a.corpus = it.next(),
                _ => a.extra.push(x),
            }
        }
        a
    }
    #[must_use]
    pub fn flag(&self, name: &str) -> bool {
        self.extra.iter().any(|x| x == name)
    }
    #[must_use]
    pub fn opt(&self, name: &str) -> Option<&str> {
        self.extra.iter().position(|x| x == name).and_then(|i| self.extra.get(i + 1)).map(String::as_str)
    }
}

/// `impl`: the real code fails the property's monitor or an independent oracle (a failing input).
/// `model`: the Lean model and the implementation disagree (the correspondence is broken).
#[derive(Clone, Copy, Debug, PartialEq, Eq)]
pub enum FailKind {
    Impl,
    Model,
}

/// What one sub-command run covered and found; written as JSON for `bin/check`.
pub struct Report {
    pub sub: String,
    pub seed: u64,
    pub tier: Tier,
    pub evaluations: u64,
    pub nontrivial: HashSet<u64>,
    pub rule: String,
    pub samples: Vec<Value>,
    pub dist: BTreeMap<String, u64>,
    pub exhaustive: bool,
    pub model_compared: u64,
    pub failures: Vec<Value>,
    pub notes: Vec<String>,
    pub max_failures: usize,
}

impl Report {
    #[must_use]
    pub fn new(sub: &str, args: &Args, rule: &str) -> Self {
        Self {
            sub: sub.into(),
            seed: args.seed,
            tier: args.tier,
            evaluations: 0,
            nontrivial: HashSet::new(),
            rule: rule.into(),
            samples: vec![],
            dist: BTreeMap::new(),
            exhaustive: false,
            model_compared: 0,
            failures: vec![],
            notes: vec![],
            max_failures: 20,
        }
    }
    pub fn count(&mut self, key: &str) {
        *self.dist.entry(key.to_string()).or_insert(0) += 1;
    }
    pub fn count_n(&mut self, key: &str, n: u64) {
        *self.dist.entry(key.to_string()).or_insert(0) += n;
    }
    /// Record one evaluated case; `nontrivial` = `Some(fingerprint)` when it is non-trivial by the
    /// stated rule (distinctness is decided on the fingerprint).
    pub fn case(&mut self, nontrivial: Option<u64>) {
        self.evaluations += 1;
        if let Some(h) = nontrivial {
            self.nontrivial.insert(h);
        }
    }
    pub fn sample(&mut self, v: Value) {
        if self.samples.len() < 12 {
            self.samples.push(v);
        }
    }
    /// `key` identifies the failure canonically (used for known findings and de-duplication).
    pub fn fail(&mut self, kind: FailKind, key: &str, desc: &str, replay: Value) {
        // separate caps per kind: model disagreements must not crowd out failing inputs
        let kind_s = match kind { FailKind::Impl => "impl", FailKind::Model => "model" };
        let same_kind = self.failures.iter().filter(|f| f["kind"] == kind_s).count();
        if self.failures.iter().any(|f| f["key"] == key) || same_kind >= self.max_failures {
            return;
        }
        self.failures.push(json!({
            "kind": match kind { FailKind::Impl => "impl", FailKind::Model => "model" },
            "key": key, "desc": desc, "replay": replay,
        }));
    }
    #[must_use]
    pub fn has_failures(&self) -> bool {
        !self.failures.is_empty()
    }
    #[must_use]
    pub fn to_json(&self) -> Value {
        json!({
            "sub": self.sub, "seed": self.seed,
            "tier": match self.tier { Tier::Quick => "quick", Tier::Thorough => "thorough" },
            "evaluations": self.evaluations,
            "distinct_nontrivial": self.nontrivial.len(),
            "rule": self.rule, "samples": self.samples, "distribution": self.dist,
            "exhaustive": self.exhaustive, "model_compared": self.model_compared,
            "failures": self.failures, "notes": self.notes,
        })
    }
    /// Write the report (to `--out` or stdout).
    pub fn finish(&self, args: &Args) {
        let text = serde_json::to_string_pretty(&self.to_json()).expect("json");
        match &args.out {
            Some(p) => std::fs::write(p, text).expect("write report"),
            None => println!("{text}"),
        }
    }
}

#[must_use]
pub fn fnv(bs: &[u8]) -> u64 {
    let mut h: u64 = 0xcbf2_9ce4_8422_2325;
    for b in bs {
        h ^= u64::from(*b);
        h = h.wrapping_mul(0x0100_0000_01b3);
    }
    h
}

/// Greedy list shrinking (delta debugging light): remove chunks, then single elements, while
/// `fails` keeps returning true.
pub fn shrink_list<T: Clone>(mut xs: Vec<T>, mut fails: impl FnMut(&[T]) -> bool) -> Vec<T> {
    for _round in 0..4 {
        let before = xs.len();
        let mut chunk = (xs.len() / 2).max(1);
        loop {
            let mut i = 0;
            while i < xs.len() {
                let end = (i + chunk).min(xs.len());
                let mut cand = xs[..i].to_vec();
                cand.extend_from_slice(&xs[end..]);
                if fails(&cand) {
                    xs = cand;
                } else {
                    i += chunk;
                }
            }
            if chunk == 1 {
                break;
            }
            chunk /= 2;
        }
        if xs.len() == before {
            break;
        }
    }
    xs
}

/// Byte-string shrinking: drop bytes, then lower byte values toward zero.
pub fn shrink_bytes(bs: Vec<u8>, mut fails: impl FnMut(&[u8]) -> bool) -> Vec<u8> {
    let mut cur = shrink_list(bs, &mut fails);
    for _round in 0..3 {
    let before = cur.clone();
    for i in 0..cur.len() {
        for cand in [0u8, 1, cur[i] & 0xF0, cur[i] & 0x0F] {
            if cand < cur[i] {
                let old = cur[i];
                cur[i] = cand;
                if fails(&cur) {
                    break;
                }
                cur[i] = old;
            }
        }
    }
    cur = shrink_list(cur, &mut fails);
    if cur == before {
        break;
    }
    }
    cur
}

/// Run `f`, turning a panic into `Err(message)`.
pub fn catch<T>(f: impl FnOnce() -> T) -> Result<T, String> {
    std::panic::catch_unwind(std::panic::AssertUnwindSafe(f)).map_err(|e| {
        if let Some(s) = e.downcast_ref::<&str>() {
            (*s).to_string()
        } else if let Some(s) = e.downcast_ref::<String>() {
            s.clone()
        } else {
            "panic".to_string()
        }
    })
}

/// Silence the default panic message (cases run under `catch`).
pub fn quiet_panics() {
    // (PVH_PANIC_LOC=1: print where a panic came from — for debugging the harness itself)
    if std::env::var("PVH_PANIC_LOC").is_ok() {
        std::panic::set_hook(Box::new(|info| {
            if let Some(l) = info.location() { eprintln!("panic at {}:{}", l.file(), l.line()); }
        }));
    } else {
        std::panic::set_hook(Box::new(|_| {}));
    }
}

/// Read the lines of every `*.ops`/`*.case` file under the corpus directory (sorted by name).
#[must_use]
pub fn corpus_files(dir: Option<&str>) -> Vec<(String, String)> {
    let Some(dir) = dir else { return vec![] };
    let Ok(rd) = std::fs::read_dir(dir) else { return vec![] };
    let mut v: Vec<_> = rd
        .filter_map(Result::ok)
        .filter(|e| e.path().is_file())
        .filter_map(|e| Some((e.file_name().to_string_lossy().into_owned(), std::fs::read_to_string(e.path()).ok()?)))
        .collect();
    v.sort();
    v
}

/// A watchdog for harnesses that call the implementation in-process: if one stimulus does not return
/// within `limit` (the code under test is stuck inside a call: a lock taken twice, an endless loop),
/// the stimulus list so far is written as a failing input and the process exits with status 1.
pub struct Watchdog {
    state: std::sync::Arc<std::sync::Mutex<(std::time::Instant, Vec<String>, bool)>>,
}

impl Watchdog {
    /// `out`: where the report goes (`--out`), `sub`/`seed`/`tier`: as in the ordinary report, `key`: failure key.
    #[must_use]
    pub fn start(out: Option<String>, sub: &str, seed: u64, tier: Tier, key: String, limit: std::time::Duration) -> Self {
        let state = std::sync::Arc::new(std::sync::Mutex::new((std::time::Instant::now(), Vec::<String>::new(), false)));
        let st = state.clone();
        let sub = sub.to_string();
        std::thread::spawn(move || loop {
            std::thread::sleep(std::time::Duration::from_millis(500));
            let (stuck, lines) = {
                let g = st.lock().expect("watchdog");
                (g.2 && g.0.elapsed() > limit, g.1.clone())
            };
            if stuck {
                let last = lines.last().cloned().unwrap_or_default();
                let desc = format!("the implementation did not return from `{last}` within {} s: the endpoint is stuck inside the call (a lock taken twice, an endless loop) — nothing on this connection can make progress any more", limit.as_secs());
                let rep = json!({
                    "sub": sub, "seed": seed,
                    "tier": match tier { Tier::Quick => "quick", Tier::Thorough => "thorough" },
                    "evaluations": 1, "distinct_nontrivial": 1,
                    "rule": "watchdog: the run was cut short by a stimulus that never returned", "samples": [], "distribution": {},
                    "exhaustive": false, "model_compared": 0,
                    "failures": [{"kind": "impl", "key": key, "desc": desc, "replay": {"lines": lines}}],
                    "notes": ["the run ended at the first stimulus that did not return"],
                });
                let text = serde_json::to_string_pretty(&rep).expect("json");
                match &out {
                    Some(p) => { let _ = std::fs::write(p, text); }
                    None => println!("{text}"),
                }
                eprintln!("FAILS {key}: {desc}");
                std::process::exit(1);
            }
        });
        Self { state }
    }
    /// A new case starts with these lines (the watchdog is armed from now on).
    pub fn begin(&self, lines: Vec<String>) {
        let mut g = self.state.lock().expect("watchdog");
        *g = (std::time::Instant::now(), lines, true);
    }
    /// The implementation is about to be called with this stimulus.
    pub fn stimulus(&self, line: &str) {
        let mut g = self.state.lock().expect("watchdog");
        g.0 = std::time::Instant::now();
        g.1.push(line.to_string());
    }
    /// The case is over (shrinking, reporting: not watched).
    pub fn idle(&self) {
        let mut g = self.state.lock().expect("watchdog");
        g.2 = false;
    }
}
