#!/usr/bin/env python3
"""List build targets named by checks/*.json: `drivers` (lean_exe names) or `harness` (crate profile bin)."""
import glob, json, os, sys
root = os.path.dirname(os.path.dirname(os.path.abspath(__file__)))
what = sys.argv[1]
seen = []
enabled = [l.strip() for l in open(os.path.join(root, "checks", "enabled.txt")) if l.strip()]
for p in sorted(glob.glob(os.path.join(root, "checks", "C*.json"))):
    if os.path.basename(p)[:-5] not in enabled:
        continue
    spec = json.load(open(p))
    if what == "modules":
        for m in (spec.get("props_modules") or [spec["props_module"]]):
            if m not in seen:
                seen.append(m)
    for h in spec.get("harness", []):
        if what == "drivers" and h.get("driver"):
            item = h["driver"]
        elif what == "harness":
            item = f"{h.get('crate', 'harness')} {h.get('profile', 'release')} {h['bin']}"
        else:
            continue
        if item not in seen:
            seen.append(item)
print("\n".join(seen) if what == "harness" else " ".join(seen))
