#!/usr/bin/env python3
"""Regenerate lean/Penguin/Gen/<Section>.lean from /repo's current source.

Every constant must be found exactly once (self-check); otherwise the tie is reported broken
(exit 2, message on stderr) and the previous file is left alone.  The file is only rewritten when
its contents change, so an unchanged tree does not trigger a Lean rebuild.
"""
import os, re, sys

REPO = os.environ.get("PVH_REPO", "/repo")
OUT_DIR = os.path.join(os.path.dirname(os.path.abspath(__file__)), "..", "lean", "Penguin", "Gen")


class Broken(Exception):
    pass


def read(rel):
    p = os.path.join(REPO, rel)
    try:
        with open(p, encoding="utf-8") as f:
            return f.read()
    except OSError as e:
        raise Broken(f"cannot read {rel}: {e}")


def strip_comments(src):
    # remove // comments (good enough for the files read here: no '//' inside string literals
    # on the lines that matter) and /* */ blocks
    src = re.sub(r"/\*.*?\*/", "", src, flags=re.S)
    return "\n".join(re.sub(r"//.*$", "", l) for l in src.split("\n"))


def one(pattern, src, what, flags=0):
    m = re.findall(pattern, src, flags)
    if len(m) != 1:
        raise Broken(f"{what}: expected exactly one match of /{pattern}/, found {len(m)}")
    return m[0]


def intlit(s):
    s = s.strip().replace("_", "")
    m = re.fullmatch(r"(0x[0-9a-fA-F]+|\d+)(?:u8|u16|u32|u64|usize)?", s)
    if m:
        return int(m.group(1), 0)
    m = re.fullmatch(r"(\d+)\s*<<\s*(\d+)", s)
    if m:
        return int(m.group(1)) << int(m.group(2))
    raise Broken(f"not an integer literal: {s!r}")


SIZEOF = {"u8": 1, "u16": 2, "u32": 4, "u64": 8}


def linear(expr, var):
    """Evaluate `a + b + var + size_of::<u8>()` to (constant, coefficient of var)."""
    const, coef = 0, 0
    for term in expr.split("+"):
        t = term.strip()
        m = re.fullmatch(r"size_of::<(\w+)>\(\)", t)
        if m and m.group(1) in SIZEOF:
            const += SIZEOF[m.group(1)]
        elif t == var:
            coef += 1
        else:
            const += intlit(t)
    return const, coef


def frame_constants(out):
    pv = strip_comments(read("penguin-mux/src/proto_version.rs"))
    ver = intlit(one(r"PROTOCOL_VERSION_NUMBER\s*:\s*u8\s*=\s*([^;]+);", pv, "protocol version number"))
    name = one(r'PROTOCOL_VERSION\s*:\s*&str\s*=\s*"([^"]+)"', pv, "protocol version string")
    out.append(f"def protocolVersion : Nat := {ver}")
    out.append(f'def protocolName : String := "{name}"')
    src = strip_comments(read("penguin-mux/src/frame.rs"))
    enum = one(r"pub enum OpCode\s*\{(.*?)\n\}", src, "OpCode enum", re.S)
    ops = ["Connect", "Acknowledge", "Reset", "Finish", "Push", "Bind", "Datagram"]
    for op in ops:
        v = one(rf"\b{op}\s*=\s*(\d+)\s*\|\s*PROTOCOL_VERSION_NUMBER\s*<<\s*4", enum, f"opcode {op}")
        out.append(f"def op{op} : Nat := {int(v)}")
    # the decoder's nibble table (TryFrom<u8> for OpCode)
    dec = one(r"impl TryFrom<u8> for OpCode\s*\{(.*?)\n\}", src, "OpCode::try_from", re.S)
    for op in ops:
        v = one(rf"(\d+)\s*=>\s*Ok\(Self::{op}\)", dec, f"decoded opcode {op}")
        out.append(f"def decOp{op} : Nat := {int(v)}")
    lenient = len(re.findall(r"value\s*>>\s*4\s*!=\s*0\b", dec))
    out.append(f"def lenientVersionZero : Bool := {'true' if lenient == 1 else 'false'}")
    bt = one(r"pub enum BindType\s*\{(.*?)\n\}", src, "BindType enum", re.S)
    v = int(one(r"Stream\s*=\s*(\d+)", bt, "BindType::Stream"))
    out.append(f"def bindStream : Nat := {v}")
    v = int(one(r"Datagram\s*=\s*(\d+)", bt, "BindType::Datagram"))
    out.append(f"def bindDatagram : Nat := {v}")
    btd = one(r"impl TryFrom<u8> for BindType\s*\{(.*?)\n\}", src, "BindType::try_from", re.S)
    v = int(one(r"(\d+)\s*=>\s*Ok\(Self::Stream\)", btd, "decoded BindType::Stream"))
    out.append(f"def decBindStream : Nat := {v}")
    v = int(one(r"(\d+)\s*=>\s*Ok\(Self::Datagram\)", btd, "decoded BindType::Datagram"))
    out.append(f"def decBindDatagram : Nat := {v}")
    # minimum-length checks of the decoder, in source order
    body = one(r"fn try_from\(mut data: CowBytes<'data>\)[^{]*\{(.*?)\n    \}\n", src, "Frame::try_from(CowBytes)", re.S)
    checks = re.findall(r"check_remaining!\(\s*data\s*,\s*([^;]*?)\)\s*;", body)
    if len(checks) != 6:
        raise Broken(f"Frame::try_from: expected 6 check_remaining! calls, found {len(checks)}: {checks}")
    names = ["minHeader", "minConnect", "minAcknowledge", "minBind", "minDatagramFixed"]
    for n, c in zip(names, checks[:5]):
        k, coef = linear(c, "host_len")
        if coef != 0:
            raise Broken(f"{n}: unexpected host_len in {c!r}")
        out.append(f"def {n} : Nat := {k}")
    k, coef = linear(checks[5], "host_len")
    if coef != 1:
        raise Broken(f"datagram second check is not host_len + k: {checks[5]!r}")
    out.append(f"def minDatagramAfterLen : Nat := {k}")


def config_constants(out):
    src = strip_comments(read("penguin-mux/src/config.rs"))
    body = one(r"pub const fn new\(\) -> Self \{(.*?)\n    \}\n", src, "Options::new", re.S)

    def const_nontest(name):
        m = re.findall(rf"(#\[cfg\((not\(test\)|test)\)\]\s*)?const {name}\s*:\s*\w+\s*=\s*([^;]+);", body)
        vals = [v for (_a, cfgk, v) in m if cfgk != "test"]
        if len(vals) != 1:
            raise Broken(f"Options::new const {name}: expected one non-test definition, found {len(vals)}")
        return intlit(vals[0])
    out.append(f"def defaultDatagramBufferSize : Nat := {const_nontest('DATAGRAM_BUFFER_SIZE')}")
    out.append(f"def defaultStreamBufferSize : Nat := {const_nontest('STREAM_BUFFER_SIZE')}")
    out.append(f"def defaultMaxFlowIdRetries : Nat := {const_nontest('MAX_FLOW_ID_RETRIES')}")
    out.append(f"def defaultRwnd : Nat := {const_nontest('RWND')}")
    out.append(f"def defaultRwndThreshold : Nat := {const_nontest('DEFAULT_RWND_THRESHOLD')}")
    v = intlit(one(r"bind_buffer_size\s*:\s*(\d+)", body, "default bind_buffer_size"))
    out.append(f"def defaultBindBufferSize : Nat := {v}")
    # the keepalive deadline (`last_pong_timestamp`) is refreshed by a received Pong only — the timing
    # model has no other input (C16): every assignment must sit in the `Message::Pong` arm
    task = strip_comments(read("penguin-mux/src/task.rs"))
    writes = [m.start() for m in re.finditer(r"\*\s*self\s*\.\s*last_pong_timestamp\s*\.\s*lock\(\)\s*=", task)]
    arm = re.search(r"Message::Pong\s*=>\s*\{", task)
    if len(writes) != 1 or arm is None:
        raise Broken(f"task.rs: expected exactly one assignment to last_pong_timestamp and a `Message::Pong => {{` arm, found {len(writes)} assignment(s)")
    between = task[arm.end():writes[0]]
    if writes[0] < arm.end() or "=>" in between or "}" in between:
        raise Broken("task.rs: the assignment to last_pong_timestamp is not at the start of the `Message::Pong` arm")
    if re.search(r"Message::Ping\s*\|\s*Message::Pong|Message::Pong\s*\|", task):
        raise Broken("task.rs: the `Message::Pong` arm is shared with another message kind")
    out.append("/-- the only assignment to `last_pong_timestamp` is the first statement of the `Message::Pong` arm -/")
    out.append("def deadlineRefreshedByPongOnly : Bool := true")


def socks_constants(out):
    src = strip_comments(read("penguin-socks/src/magics.rs"))
    for name in ["VER_4", "VER_5", "VER_REP_4", "CMD_CONNECT", "CMD_BIND", "CMD_ASSOC", "ATYP_IPV4",
                 "ATYP_DOMAIN", "ATYP_IPV6", "AUTH_NOAUTH", "AUTH_NOACCEPT", "REP_SUCC", "REP_GENFAIL",
                 "REP_NOTALLOWED", "REP_NETUNRE", "REP_HOSTUNRE", "REP_CONNREF", "REP_TTLEXP",
                 "REP_CMDUNSUP", "REP_ATYPUNSUP", "REP_V4_SUCC", "REP_V4_FAIL", "RESERVED"]:
        v = intlit(one(rf"pub const {name}\s*:\s*u8\s*=\s*([^;]+);", src, f"socks magic {name}"))
        lean = "socks" + "".join(p.capitalize() for p in name.split("_"))
        out.append(f"def {lean} : Nat := {v}")
    # the length checks of v5::parse_udp_relay_header, in source order
    v5 = strip_comments(read("penguin-socks/src/v5.rs"))
    body = one(r"pub fn parse_udp_relay_header\(mut buf: Bytes\)[^{]*\{(.*?)\n\}\n", v5, "parse_udp_relay_header", re.S)
    checks = re.findall(r"if\s+buf\.remaining\(\)\s*<\s*([^{]+?)\s*\{", body)
    if len(checks) != 5:
        raise Broken(f"parse_udp_relay_header: expected 5 length checks, found {len(checks)}: {checks}")
    for n, c, coef_want in zip(["socksUdpMinHeader", "socksUdpMinV4", "socksUdpMinDomainLen", "socksUdpMinDomainAfterLen",
                                "socksUdpMinV6"], checks, [0, 0, 0, 1, 0]):
        k, coef = linear(c, "len")
        if coef != coef_want:
            raise Broken(f"{n}: unexpected form of the length check {c!r}")
        out.append(f"def {n} : Nat := {k}")
    # the SOCKS4a marker test of v4::read_request: `ip >> 8 == 0 && ip != 0` (DSTIP = 0.0.0.x, x != 0)
    v4 = strip_comments(read("penguin-socks/src/v4.rs"))
    m = re.findall(r"let rhost = if ([^{]+?)\s*\{", v4)
    if len(m) != 1:
        raise Broken(f"v4::read_request: expected one SOCKS4a marker test, found {len(m)}")
    mm = re.fullmatch(r"ip\s*>>\s*(\d+)\s*==\s*0(\s*&&\s*ip\s*!=\s*0)?", m[0].strip())
    if not mm:
        raise Broken(f"v4::read_request: SOCKS4a marker test of unknown form: {m[0]!r}")
    out.append(f"def socks4aMarkerShift : Nat := {int(mm.group(1))}")
    out.append(f"def socks4aMarkerNonzero : Bool := {'true' if mm.group(2) else 'false'}")


def lean_strs(xs):
    return "[" + ", ".join(f'"{x}"' for x in xs) + "]"


def enum_variants(body):
    """Variant names of a Rust enum body (attributes and comments removed)."""
    body = re.sub(r"#\[[^\]]*\]", "", body)
    depth, cur, parts = 0, "", []
    for ch in body:
        if ch in "([{":
            depth += 1
        elif ch in ")]}":
            depth -= 1
        if ch == "," and depth == 0:
            parts.append(cur)
            cur = ""
        else:
            cur += ch
    parts.append(cur)
    names = []
    for p in parts:
        m = re.match(r"\s*(\w+)", p)
        if m:
            names.append(m.group(1))
    return names


def client_constants(out):
    src = strip_comments(read("penguin/src/client/mod.rs"))
    m = one(r"Backoff::new\(\s*Duration::from_millis\((\d+)\)\s*,\s*Duration::from_millis\(args\.max_retry_interval\)\s*,\s*(\d+)\s*,\s*args\.max_retry_count\s*,?\s*\)",
            src, "client Backoff::new", re.S)
    out.append(f"def backoffInitialMs : Nat := {int(m[0])}")
    out.append(f"def backoffMult : Nat := {int(m[1])}")
    # on_connected's main loop: does the arm that sees the multiplexor task end leave the loop (with
    # ServerDisconnected) when the task ended with Ok(()) -- an orderly close by the server?
    fn = one(r"async fn on_connected\((.*?)\n\}\n", src, "on_connected", re.S)
    arm = one(r"Some\(mux_task_joinset_result\)\s*=\s*mux_task_joinset\.join_next\(\)\s*=>\s*\{(.*?)\}\s*Some\(sender\)\s*=\s*stream_command_rx\.recv\(\)",
              fn, "on_connected mux-task arm", re.S)
    one(r"mux_task_joinset_result\s*\.expect\(\s*\"[^\"]*\"\s*\)\s*\?\s*;", arm, "mux-task arm propagates the task's error")
    rest = re.sub(r"mux_task_joinset_result\s*\.expect\(\s*\"[^\"]*\"\s*\)\s*\?\s*;", "", arm).strip()
    if rest == "":
        exits = False
    elif re.fullmatch(r"return\s+Err\(\s*Error::ServerDisconnected\s*\)\s*;", rest):
        exits = True
    else:
        raise Broken(f"on_connected mux-task arm has an unexpected shape: {rest!r}")
    out.append(f"def muxTaskOkExits : Bool := {'true' if exits else 'false'}")
    one(r"else\s*=>\s*return\s+Err\(\s*Error::ServerDisconnected\s*\)", fn, "on_connected else arm")
    # where the back-off is reset / advanced in the retry loop
    one(r"\.inspect_err\(\s*\|_\|\s*backoff\.reset\(\)\s*\)", src, "backoff.reset() on on_connected's error")
    one(r"backoff\.reset\(\)", src, "single backoff.reset() call")
    one(r"backoff\.advance\(\)", src, "single backoff.advance() call")
    # variants of client::Error and penguin_mux::Error (the model's inductives must list the same)
    enum = one(r"pub enum Error\s*\{(.*?)\n\}", src, "client::Error enum", re.S)
    out.append("def clientErrorVariants : List String := " + lean_strs(enum_variants(enum)))
    mux = strip_comments(read("penguin-mux/src/lib.rs"))
    menum = one(r"pub enum Error\s*\{(.*?)\n\}", mux, "penguin_mux::Error enum", re.S)
    out.append("def muxErrorVariants : List String := " + lean_strs(enum_variants(menum)))
    # the retryable classification (maybe_retryable.rs)
    mr = strip_comments(read("penguin/src/client/maybe_retryable.rs"))

    def impl_body(ty):
        return one(rf"impl MaybeRetryableError for {re.escape(ty)}\s*\{{\s*fn retryable\(&self\)\s*->\s*bool\s*\{{(.*?)\n    \}}\n\}}",
                   mr, f"impl MaybeRetryableError for {ty}", re.S)
    io = impl_body("std::io::Error")
    kinds = re.findall(r"self\.kind\(\)\s*==\s*std::io::ErrorKind::(\w+)", io)
    left = re.sub(r"self\.kind\(\)\s*==\s*std::io::ErrorKind::\w+", "", io)
    if not kinds or re.sub(r"[\s|]", "", left) != "":
        raise Broken(f"io::Error::retryable is not a pure ||-chain of kind tests: {left.strip()!r}")
    out.append("def retryableIoKinds : List String := " + lean_strs(list(dict.fromkeys(kinds))))
    pr = impl_body("tokio_tungstenite::tungstenite::error::ProtocolError")
    m2 = re.fullmatch(r"\s*matches!\(\s*self\s*,(.*?)\)\s*", pr, re.S)
    if not m2:
        raise Broken("ProtocolError::retryable is not a single matches!(self, ..)")
    pv = [v.strip() for v in m2.group(1).split("|") if v.strip()]
    if not all(re.fullmatch(r"Self::\w+", v) for v in pv):
        raise Broken(f"ProtocolError::retryable: unexpected pattern list {pv}")
    out.append("def retryableWsProtocol : List String := " + lean_strs([v[6:] for v in pv]))

    def arms(ty, lean, extra=None):
        body = impl_body(ty)
        m3 = re.fullmatch(r"\s*match self\s*\{(.*)\}\s*", body, re.S)
        if not m3:
            raise Broken(f"{ty}::retryable is not a single match self {{..}}")
        direct, deleg, default = [], [], None
        text = m3.group(1)
        if extra:
            text = extra(text)
        for pat, rhs in re.findall(r"((?:Self::\w+(?:\(\w+\))?\s*\|?\s*)+|_)\s*=>\s*([^,]+),", text):
            rhs = rhs.strip()
            names = re.findall(r"Self::(\w+)", pat)
            if pat.strip() == "_":
                default = rhs
            elif rhs == "true":
                direct += names
            elif rhs == "e.retryable()":
                deleg += names
            else:
                raise Broken(f"{ty}::retryable: unexpected arm {pat.strip()} => {rhs}")
        if default != "false":
            raise Broken(f"{ty}::retryable: default arm is not `_ => false`")
        out.append(f"def {lean}RetryableDirect : List String := " + lean_strs(direct))
        out.append(f"def {lean}Delegating : List String := " + lean_strs(deleg))
    arms("tokio_tungstenite::tungstenite::Error", "ws")

    def mux_ws(text):
        pat = r"Self::WebSocket\(e\)\s*=>\s*e\s*\.downcast_ref::<tokio_tungstenite::tungstenite::Error>\(\)\s*\.is_some_and\(MaybeRetryableError::retryable\)\s*,"
        if len(re.findall(pat, text)) != 1:
            raise Broken("penguin_mux::Error::retryable: WebSocket arm is not the tungstenite downcast")
        return re.sub(pat, "", text)
    arms("penguin_mux::Error", "mux", mux_ws)
    out.append("def muxWebSocketDowncastsTungstenite : Bool := true")
    arms("crate::tls::Error", "tls")
    arms("super::Error", "client")


def server_constants(out):
    src = strip_comments(read("penguin/src/server/service.rs"))
    for name, lean in [("UPGRADE", "hdrUpgradeValue"), ("WEBSOCKET", "hdrWebsocketValue"),
                       ("WEBSOCKET_VERSION", "hdrWebsocketVersionValue")]:
        v = one(rf'static {name}\s*:\s*HeaderValue\s*=\s*HeaderValue::from_static\("([^"]*)"\)', src, f"service.rs static {name}")
        out.append(f'def {lean} : String := "{v}"')
    one(r'static WANTED_PROTOCOL\s*:\s*HeaderValue\s*=\s*HeaderValue::from_static\(PROTOCOL_VERSION\)', src, "service.rs WANTED_PROTOCOL")
    v = one(r'headers\.get\("(x-[a-z-]+)"\)', src, "psk header name")
    out.append(f'def pskHeaderName : String := "{v}"')
    for p, lean in [("/health", "pathHealth"), ("/version", "pathVersion"), ("/ws", "pathWs")]:
        n = len(re.findall(rf'req\.uri\(\)\.path\(\) == "{re.escape(p)}"', src))
        if n != 1:
            raise Broken(f"service.rs: expected exactly one routing test for {p}, found {n}")
        out.append(f'def {lean} : String := "{p}"')
    # C14 (gate): accept-hash GUID, response statuses and fixed bodies (non-test part of service.rs only)
    main = src.split("#[cfg(test)]")[0]
    v = one(r'hasher\.update\(b"([0-9A-Fa-f-]{36})"\)', main, "service.rs accept-hash GUID")
    out.append(f'def wsAcceptGuid : String := "{v}"')
    http_status = {"NOT_FOUND": 404, "SWITCHING_PROTOCOLS": 101, "OK": 200}
    fn_nf = one(r'fn not_found_handler\(self\).*?\n    \}', main, "service.rs not_found_handler", re.S)
    fn_ws = one(r'async fn ws_handler\(.*?\n    \}\n', main, "service.rs ws_handler", re.S)
    for body, lean, what in [(fn_nf, "statusNotFound", "not_found_handler status"),
                             (fn_ws, "statusSwitchingProtocols", "ws_handler response status")]:
        name = one(r'\.status\(StatusCode::([A-Z_]+)\)', body, what)
        if name not in http_status:
            raise Broken(f"{what}: unknown StatusCode::{name}")
        out.append(f'def {lean} : Nat := {http_status[name]}')
    v = one(r'Bytes::from_static\(b"([^"\\]*)"\)', main, "service.rs /health body")
    out.append(f'def healthBody : String := "{v}"')
    one(r'Bytes::from_static\(env!\("CARGO_PKG_VERSION"\)\.as_bytes\(\)\)', main, "service.rs /version body")
    cargo = read("penguin/Cargo.toml")
    pkg = one(r'\[package\](.*?)(?:\n\[|\Z)', cargo, "penguin/Cargo.toml [package]", re.S)
    v = one(r'^version\s*=\s*"([^"\\]*)"', pkg, "penguin/Cargo.toml package version", re.M)
    out.append(f'def pkgVersion : String := "{v}"')


def tls_constants(out):
    """C17: the shape of the TLS configuration decisions (tls/rustls.rs, tls/mod.rs, server/mod.rs,
    client/ws_connect.rs).  Parameterisable facts become constants of the model; facts the model
    assumes structurally are self-checks (a change reports a broken tie)."""
    src = strip_comments(read("penguin/src/tls/rustls.rs")).split("#[cfg(test)]")[0]
    fn = one(r"pub async fn make_client_config\(.*?\n\}\n", src, "rustls.rs make_client_config", re.S)
    body = one(r"match \(tls_skip_verify, client_certificate\) \{(.*?)\n    \};", fn, "make_client_config verifier match", re.S)
    parts = re.split(r"\n\s*\((true|false), (Some\(\([a-z_, ]*\)\)|None)\) =>", "\n" + body)
    if parts[0].strip() or (len(parts) - 1) % 3 != 0:
        raise Broken("make_client_config: cannot split the verifier match into arms")
    arms = {}
    for i in range(1, len(parts), 3):
        k = (parts[i] == "true", parts[i + 1] != "None")
        if k in arms:
            raise Broken(f"make_client_config: duplicate match arm {k}")
        arms[k] = parts[i + 2]
    if len(arms) != 4:
        raise Broken(f"make_client_config: expected 4 match arms, found {len(arms)}")
    for (skip, cert), text in sorted(arms.items(), reverse=True):
        empty = "with_custom_certificate_verifier(Arc::new(EmptyVerifier(" in text
        roots = "with_root_certificates(roots)" in text
        auth = "with_client_auth_cert(cert_chain, key_der)" in text
        noauth = "with_no_client_auth()" in text
        if empty == roots or auth == noauth:
            raise Broken(f"make_client_config: arm (skip={skip}, cert={cert}) is not one verifier and one client-auth choice")
        nm = ("Skip" if skip else "Verify") + ("Cert" if cert else "NoCert")
        out.append(f"def tlsArm{nm}EmptyVerifier : Bool := {'true' if empty else 'false'}")
        out.append(f"def tlsArm{nm}ClientAuth : Bool := {'true' if auth else 'false'}")
    one(r"let roots = generate_rustls_rootcertstore\(ca_path\)\.await\?;", fn, "make_client_config roots")
    one(r"let client_certificate = try_load_certificate\(key_path, cert_path\)\.await\?;", fn, "make_client_config client certificate")
    one(r"if let \(Some\(key\), Some\(cert\)\) = \(tls_key, tls_cert\) \{", src, "try_load_certificate needs both paths")
    rs = one(r"async fn generate_rustls_rootcertstore\(.*?\n\}\n", src, "generate_rustls_rootcertstore", re.S)
    one(r"let mut roots = RootCertStore::empty\(\);\s*if let Some\(ca_path\) = custom_ca_path \{", rs,
        "generate_rustls_rootcertstore: custom CA replaces the built-in roots")
    sf = one(r"async fn make_server_config_from_mem\(.*?\n\}\n", src, "rustls.rs make_server_config_from_mem", re.S)
    m = re.findall(r"if let Some\(client_ca_path\) = client_ca_path \{(.*?)\} else \{(.*?)\}", sf, re.S)
    if len(m) != 1:
        raise Broken("make_server_config_from_mem: client CA branch not found exactly once")
    then, els = m[0]
    if "WebPkiClientVerifier::builder(Arc::new(store))" not in then or "with_client_cert_verifier(verifier)" not in then:
        raise Broken("make_server_config_from_mem: client CA branch does not build a WebPkiClientVerifier")
    if els.strip() != "config.with_no_client_auth()":
        raise Broken("make_server_config_from_mem: branch without client CA is not with_no_client_auth()")
    out.append(f"def tlsClientAuthMandatory : Bool := {'false' if 'allow_unauthenticated' in then else 'true'}")
    ev = one(r"impl ServerCertVerifier for EmptyVerifier \{(.*?)\n\}\n", src, "EmptyVerifier impl", re.S)
    one(r"fn verify_server_cert\([^)]*\)\s*->\s*Result<ServerCertVerified, rustls::Error>\s*\{\s*Ok\(ServerCertVerified::assertion\(\)\)\s*\}",
        ev, "EmptyVerifier::verify_server_cert accepts unconditionally")
    mod = strip_comments(read("penguin/src/tls/mod.rs"))
    one(r"ServerName::try_from\(server_name\.to_string\(\)\)\?;", mod, "tls_connect parses the server name")
    n = len(re.findall(r"let new = make_server_config\(cert_path, key_path, client_ca_path\)\.await\?;\s*identity\.store\(Arc::new\(new\)\);", mod))
    if n != 1:
        raise Broken(f"reload_tls_identity: expected build-then-store exactly once, found {n}")
    srv = strip_comments(read("penguin/src/server/mod.rs")).split("#[cfg(test)]")[0]
    rl = one(r"pub async fn run_listener\(.*?\n\}\n", srv, "server run_listener", re.S)
    one(r"tls_config\.load_full\(\)", rl, "run_listener takes the identity per accepted connection")
    ws = strip_comments(read("penguin/src/client/ws_connect.rs"))
    i0 = ws.find("let mut tls_server_name = host;")
    i1 = ws.find("tls_server_name = hostname.to_str().map_err(super::Error::InvalidDomainName)?;")
    i2 = ws.find("if let Some(tls_sni) = args.tls_server_name.as_deref() {")
    i3 = ws.find("tls_connect(")
    if not (0 <= i0 < i1 < i2 < i3):
        raise Broken("ws_connect.rs: server-name choice is not URL host, then --hostname, then --tls-server-name")
    out.append("def tlsNameOrderHostThenHostnameThenSni : Bool := true")


def udpmap_constants(out):
    # C01: the client's UDP maps (client/mod.rs), the prune timeout (config.rs, non-test value), the
    # server's reply rule (forwarder.rs) and its handling of a finished forwarder (websocket.rs)
    cfg = strip_comments(read("penguin/src/config.rs"))
    v = one(r"#\[cfg\(not\(test\)\)\]\s*pub const UDP_PRUNE_TIMEOUT\s*:\s*time::Duration\s*=\s*time::Duration::from_secs\((\d+)\)",
            cfg, "config.rs UDP_PRUNE_TIMEOUT (non-test)")
    out.append(f"def udpPruneTimeoutMs : Nat := {int(v) * 1000}")
    src = strip_comments(read("penguin/src/client/mod.rs")).split("#[cfg(test)]\nmod tests")[0]
    add = one(r"pub fn add_udp_client\((.*?)\n    \}\n", src, "client add_udp_client", re.S)
    v = one(r"client_id_map\s*\.\s*(next_available_key|next_available_nonzero_key)\(", add, "add_udp_client key generator")
    out.append(f"def udpClientIdNonzero : Bool := {'true' if v == 'next_available_nonzero_key' else 'false'}")
    one(r"client_addr_map\.get\(&\(addr, our_addr\)\)", add, "add_udp_client looks the tuple (addr, our_addr) up")
    one(r"client_addr_map\.insert\(\(addr, our_addr\), client_id\)", add, "add_udp_client inserts the tuple")
    rep = one(r"async fn send_datagram_reply\((.*?)\n    \}\n", src, "client send_datagram_reply", re.S)
    v = one(r"if client_id == (\d+) \{", rep, "send_datagram_reply stdio sentinel")
    out.append(f"def udpStdioClientId : Nat := {int(v)}")
    pr = one(r"fn prune_udp_clients\(&self\)(.*?)\n    \}\n", src, "client prune_udp_clients", re.S)
    one(r"if entry\.expires > now \{\s*true\s*\}", pr, "prune keeps entries with expires > now")
    one(r"client_addr_map\s*\.remove\(&\(entry\.peer_addr, entry\.our_addr\)\)", pr, "prune removes the tuple of the entry")
    fw = strip_comments(read("penguin/src/server/forwarder.rs")).split("#[cfg(test)]")[0]
    f = one(r"async fn udp_forward_on\((.*?)\n\}\n", fw, "forwarder udp_forward_on", re.S)
    one(r"let Datagram \{\s*target_host: rhost,\s*target_port: rport,\s*flow_id,\s*data,\s*\} = first_datagram_frame;", f,
        "udp_forward_on takes flow_id from the first datagram")
    one(r"let frame = Datagram \{\s*target_host: rhost\.clone\(\),\s*target_port: rport,\s*flow_id,\s*data: buf\.into\(\),\s*\};", f,
        "udp_forward_on builds the reply with the same flow_id")
    out.append("def serverReplyKeepsFlowId : Bool := true")
    ws = strip_comments(read("penguin/src/server/websocket.rs"))
    v = one(r"TrySendError::Closed\((\w+)\)\)?\s*=>", ws, "websocket.rs: forwarder channel closed arm")
    out.append(f"def serverRespawnsFinishedForwarder : Bool := {'false' if v == '_' else 'true'}")
    # the SOCKS5 UDP relay of an association (client/handle_remote/socks.rs): what each outcome of
    # v5::parse_udp_relay_header does to the relay loop - an arm that yields Ok(None) drops the datagram
    # and the loop goes on; an arm that yields an error ends the association
    sk = strip_comments(read("penguin/src/client/handle_remote/socks.rs"))
    hb = one(r"async fn handle_udp_relay_header\((.*?)\n\}\n", sk, "socks.rs handle_udp_relay_header", re.S)
    mt = one(r"match v5::parse_udp_relay_header\(buf\) \{(.*)\n    \}", hb, "handle_udp_relay_header: match on the parse result", re.S)
    arms = re.findall(r"\n        (Err\((?:[^()]|\([^()]*\))*\))\s*=>\s*(\{.*?\n        \}|[^\n]*,)", mt, re.S)
    if not arms:
        raise Broken("handle_udp_relay_header: no Err arms found in the match on the parse result")
    def drops(arm_body):
        return "Ok(None)" in arm_body and "Err(" not in arm_body and "?" not in arm_body
    frag = [b for (pat, b) in arms if "FragmentedUdp" in pat]
    other = [b for (pat, b) in arms if "FragmentedUdp" not in pat]
    if not other:
        raise Broken("handle_udp_relay_header: no arm for parse errors other than FragmentedUdp")
    out.append(f"def socksRelayDropsFragmented : Bool := {'true' if (frag or other) and all(drops(b) for b in (frag or other)) else 'false'}")
    out.append(f"def socksRelayDropsMalformed : Bool := {'true' if all(drops(b) for b in other) else 'false'}")
    one(r"Ok\(\((\w+), (\w+), (\w+)\)\)\s*=>\s*\{.*?Ok\(Some\(\(\1, \2, \3, addr\.ip\(\), addr\.port\(\)\)\)\)", mt,
        "handle_udp_relay_header: a parsed request is handed on unchanged with the sender's address", re.S)


def lean_str(s):
    if '"' in s or "\\" in s or any(ord(ch) < 32 or ord(ch) > 126 for ch in s):
        raise Broken(f"literal {s!r} is not plain printable ASCII")
    return '"' + s + '"'


def vendored(crate, rel):
    """Source file of the version of `crate` pinned by /repo/Cargo.lock, from cargo's registry (the sources the
    harness builds against).  All copies found must be identical."""
    import glob
    lock = read("Cargo.lock")
    ver = one(rf'\[\[package\]\]\nname = "{re.escape(crate)}"\nversion = "([^"]+)"', lock, f"Cargo.lock version of {crate}")
    home = os.environ.get("CARGO_HOME", os.path.join(os.path.expanduser("~"), ".cargo"))
    paths = sorted(glob.glob(os.path.join(home, "registry", "src", "*", f"{crate}-{ver}", rel)))
    if not paths:
        raise Broken(f"vendored source {crate}-{ver}/{rel} not found under {home}/registry/src")
    texts = set()
    for p in paths:
        with open(p, encoding="utf-8") as f:
            texts.add(f.read())
    if len(texts) != 1:
        raise Broken(f"vendored source {crate}-{ver}/{rel}: {len(paths)} copies differ")
    return ver, texts.pop()


def clientreq_constants(out):
    """C14 (client half): the request `handshake_inner` builds (client/ws_connect.rs), the URL rules of
    `ServerUrl::from_str` (arg/server_url.rs), and what tungstenite's `IntoClientRequest for Uri` /
    `generate_request` put into / demand of the request (vendored source of the pinned version)."""
    ws = strip_comments(read("penguin/src/client/ws_connect.rs"))
    fn = one(r"async fn handshake_inner\(.*?\n\}\n", ws, "ws_connect.rs handshake_inner", re.S)

    def at(pattern, what):
        ms = list(re.finditer(pattern, fn, re.S))
        if len(ms) != 1:
            raise Broken(f"ws_connect.rs {what}: expected exactly one match of /{pattern}/, found {len(ms)}")
        return ms[0]
    # every use of the header map is an `insert` (replaces all values of the name); four of them
    calls = re.findall(r"\breq_headers\s*\.\s*(\w+)\s*\(", fn)
    if calls != ["insert"] * 4:
        raise Broken(f"ws_connect.rs: expected four req_headers.insert(..) calls and nothing else on the header map, found {calls}")
    one(r"let req_headers = req\.headers_mut\(\);", fn, "ws_connect.rs req.headers_mut()")
    m_req = at(r"let mut req: Request = args\.server\.0\.clone\(\)\.into_client_request\(\)\?;", "request from the server URL")
    m_proto = at(r'req_headers\.insert\(\s*"([a-z0-9-]+)",\s*HeaderValue::from_static\(PROTOCOL_VERSION\),?\s*\);', "protocol insert")
    m_psk = at(r'if let Some\(ref ws_psk\) = args\.ws_psk \{\s*req_headers\.insert\("([a-z0-9-]+)", ws_psk\.clone\(\)\);\s*\}', "psk insert")
    m_host = at(r'if let Some\(ref hostname\) = args\.hostname \{\s*req_headers\.insert\("([a-z0-9-]+)", hostname\.clone\(\)\);\s*'
                r'tls_server_name = hostname\.to_str\(\)\.map_err\(super::Error::InvalidDomainName\)\?;\s*\}', "hostname insert")
    m_custom = at(r"for header in &args\.header \{\s*req_headers\.insert\(&header\.name, header\.value\.clone\(\)\);\s*\}", "custom header loop")
    m_tcp = at(r"tokio::net::TcpStream::connect\(\(host, port\)\)", "TCP connect")
    m_send = at(r"client_async\(req, stream\)\.await\?", "client_async(req, stream)")
    order = [m_req.start(), m_proto.start(), m_psk.start(), m_host.start(), m_custom.start(), m_tcp.start(), m_send.start()]
    if order != sorted(order):
        raise Broken("ws_connect.rs: the order is not URL request, protocol, psk, hostname, custom headers, TCP connect, client_async")
    one(r"use penguin_mux::PROTOCOL_VERSION;", ws, "ws_connect.rs PROTOCOL_VERSION import")
    out.append(f"def clientProtocolHeader : String := {lean_str(m_proto.group(1))}")
    out.append(f"def clientPskHeader : String := {lean_str(m_psk.group(1))}")
    out.append(f"def clientHostHeader : String := {lean_str(m_host.group(1))}")
    out.append("/-- shape: request from the URL, then insert protocol, psk (if any), host (if `--hostname`; its `to_str` is")
    out.append("    demanded right there, before the TCP connect), every custom header in order, then connect, then client_async -/")
    out.append("def clientInsertOrderProtocolPskHostCustom : Bool := true")
    # --ws-psk (client and server): how the command-line text becomes the HeaderValue (arg/mod.rs)
    am = strip_comments(read("penguin/src/arg/mod.rs")).split("#[cfg(test)]\nmod tests")[0]
    fields = re.findall(r"#\[arg\(long((?:, value_parser = \w+)?)\)\]\s*pub ws_psk: Option<HeaderValue>,", am)
    if len(fields) != 2:
        raise Broken(f"arg/mod.rs: expected the two `ws_psk: Option<HeaderValue>` fields (client, server) with #[arg(long[, value_parser = f])], found {len(fields)}")
    if fields[0] != fields[1]:
        raise Broken(f"arg/mod.rs: the client's and the server's --ws-psk are parsed differently: {fields}")
    if fields[0] == "":
        trims = False
    else:
        fname = fields[0].split("=")[1].strip()
        body = one(rf"fn {fname}\(s: &str\) -> Result<HeaderValue, http::header::InvalidHeaderValue> \{{(.*?)\n\}}\n", am, f"arg/mod.rs {fname}", re.S)
        if re.sub(r"\s", "", body) != "HeaderValue::from_str(s.trim_matches(['','\\t']))":
            raise Broken(f"arg/mod.rs {fname}: not `HeaderValue::from_str(s.trim_matches([' ', '\\t']))`: {body.strip()!r}")
        trims = True
    out.append("/-- `--ws-psk` (client and server alike): spaces and tabs around the text are dropped before it becomes the key -/")
    out.append(f"def pskArgTrimsOws : Bool := {'true' if trims else 'false'}")
    # ServerUrl::from_str
    su = strip_comments(read("penguin/src/arg/server_url.rs")).split("#[cfg(test)]")[0]
    f2 = one(r"fn from_str\(url: &str\) -> Result<Self, Self::Err> \{.*?\n    \}\n", su, "server_url.rs from_str", re.S)
    v = one(r'convert_idn_with_default_scheme\(url, "([a-z]+)"\)', f2, "server_url.rs default scheme")
    out.append(f"def urlDefaultScheme : String := {lean_str(v)}")
    mt = one(r"match old_scheme\.as_ref\(\) \{(.*?)\n        \}\?;", f2, "server_url.rs scheme match", re.S)
    arms = re.findall(r'((?:"[^"]*"\s*\|\s*)*"[^"]*")\s*=>\s*Ok\(\("([a-z]+)",\s*(\d+)\)\),', mt)
    rest = re.sub(r'((?:"[^"]*"\s*\|\s*)*"[^"]*")\s*=>\s*Ok\(\("([a-z]+)",\s*(\d+)\)\),', "", mt).strip()
    if len(arms) != 2 or rest != "_ => Err(Error::IncorrectScheme(old_scheme)),":
        raise Broken(f"server_url.rs: scheme match is not two Ok arms and a default IncorrectScheme arm: {rest!r}")
    rows = []
    for pats, new, port in arms:
        rows.append("(" + lean_strs(re.findall(r'"([^"]*)"', pats)) + f", {lean_str(new)}, {int(port)})")
    out.append("/-- `(accepted scheme spellings, scheme of the built URL, port added when the URL has none)` -/")
    out.append("def urlSchemeTable : List (List String × String × Nat) := [" + ", ".join(rows) + "]")
    one(r"let authority = url_parts\.authority\.ok_or\(Error::MissingHost\)\?;", f2, "server_url.rs missing host")
    one(r'if authority\.port_u16\(\)\.is_none\(\) \{\s*Authority::from_str\(&format!\("\{authority\}:\{default_port\}"\)\)\?\s*\} else \{\s*authority\s*\}',
        f2, "server_url.rs default port")
    v = one(r'\.path_and_query\(\s*url_parts\s*\.path_and_query\s*\.unwrap_or_else\(\|\| PathAndQuery::from_static\("([^"]*)"\)\),?\s*\)',
            f2, "server_url.rs path_and_query kept, defaulted")
    out.append("/-- the user's path and query are kept as they are; this is used only when the URL has none -/")
    out.append(f"def urlDefaultPathAndQuery : String := {lean_str(v)}")
    # tungstenite (the version /repo/Cargo.lock pins)
    ver, tc = vendored("tungstenite", "src/client.rs")
    tc = strip_comments(tc)
    out.append(f"def tungsteniteVersion : String := {lean_str(ver)}")
    blk = one(r"impl IntoClientRequest for Uri \{(.*?)\n\}\n", tc, "tungstenite IntoClientRequest for Uri", re.S)
    chain = one(r"let req = Request::builder\(\)(.*?)\.body\(\(\)\)\?;", blk, "tungstenite request builder chain", re.S)
    steps = re.findall(r'\.(\w+)\(((?:[^()]|\(\))*)\)', chain)
    if [s for (s, _a) in steps] != ["method"] + ["header"] * 5 + ["uri"] or re.sub(r'\.(\w+)\(((?:[^()]|\(\))*)\)', "", chain).strip():
        raise Broken(f"tungstenite request builder: unexpected chain {[s for (s, _a) in steps]}")
    meth = one(r'"([A-Z]+)"', steps[0][1], "tungstenite request method")
    out.append(f"def tungMethod : String := {lean_str(meth)}")
    if steps[-1][1].strip() != "self":
        raise Broken("tungstenite request builder: .uri(self) expected")
    hs = []
    for (_s, a) in steps[1:6]:
        m = re.fullmatch(r'\s*"([A-Za-z0-9-]+)",\s*("([^"]*)"|host|generate_key\(\))\s*', a)
        if not m:
            raise Broken(f"tungstenite request builder: unexpected header arguments {a!r}")
        val = m.group(3) if m.group(3) is not None else {"host": "<host>", "generate_key()": "<key>"}[m.group(2)]
        hs.append("(" + lean_str(m.group(1).lower()) + ", " + lean_str(val) + ")")
    out.append("/-- the `.header(..)` calls of `IntoClientRequest for Uri`, in order, names as `http::HeaderName` stores them")
    out.append("    (lower case); `<host>` = the URL's authority after any `@`, `<key>` = `generate_key()` -/")
    out.append("def tungBuilderHeaders : List (String × String) := [" + ", ".join(hs) + "]")
    one(r"let host = authority\s*\.find\('@'\)\s*\.map\(\|idx\| authority\.split_at\(idx \+ 1\)\.1\)\s*\.unwrap_or_else\(\|\| authority\);",
        blk, "tungstenite host = authority after '@'")
    _v, th = vendored("tungstenite", "src/handshake/client.rs")
    th = strip_comments(th).split("#[cfg(test)]")[0]
    gk = one(r"pub fn generate_key\(\) -> String \{(.*?)\n\}\n", th, "tungstenite generate_key", re.S)
    v = one(r"let r: \[u8; (\d+)\] = rand::random\(\);\s*data_encoding::BASE64\.encode\(&r\)", gk, "tungstenite generate_key: base64 of n random bytes")
    out.append(f"def tungKeyRandomBytes : Nat := {int(v)}")
    gr = one(r"pub fn generate_request\(mut request: Request\).*?\n\}\n", th, "tungstenite generate_request", re.S)
    keyname = one(r'const KEY_HEADERNAME: &str = "([A-Za-z0-9-]+)";', gr, "tungstenite KEY_HEADERNAME")
    lst = one(r"const WEBSOCKET_HEADERS: \[&str; 5\] =\s*\[(.*?)\];", gr, "tungstenite WEBSOCKET_HEADERS", re.S)
    names = []
    for item in [x.strip() for x in lst.split(",") if x.strip()]:
        m = re.fullmatch(r'"([A-Za-z0-9-]+)"', item)
        if m:
            names.append(m.group(1).lower())
        elif item == "KEY_HEADERNAME":
            names.append(keyname.lower())
        else:
            raise Broken(f"tungstenite WEBSOCKET_HEADERS: unexpected item {item!r}")
    one(r"\.get\(KEY_HEADERNAME\)(?:(?!;).)*?\.to_str\(\)\?", gr, "generate_request: key to_str", re.S)
    one(r"for &header in &WEBSOCKET_HEADERS \{\s*let value = headers\.remove\(header\)", gr, "generate_request: the five are removed and written first")
    one(r"value = value\.to_str\(\)\.map_err\(", gr, "generate_request: value to_str")
    out.append("/-- `generate_request`: these are taken out of the map and written first; each value must pass `HeaderValue::to_str` -/")
    out.append("def tungTextHeaders : List String := " + lean_strs(names))
    sp = one(r"fn extract_subprotocols_from_request\(request: &Request\).*?\n\}\n", th, "tungstenite extract_subprotocols_from_request", re.S)
    v = one(r'request\.headers\(\)\.get\("([A-Za-z0-9-]+)"\)\s*\{\s*Ok\(Some\(subprotocols\.to_str\(\)\?', sp, "subprotocol header to_str")
    out.append(f"def tungSubprotocolHeader : String := {lean_str(v.lower())}")
    st = one(r"pub fn start\(.*?\n    \}\n", th, "tungstenite ClientHandshake::start", re.S)
    i1 = st.find("extract_subprotocols_from_request(&request)?")
    i2 = st.find("generate_request(request)?")
    i3 = st.find("HandshakeMachine::start_write(stream, request)")
    if not (0 <= i1 < i2 < i3):
        raise Broken("tungstenite ClientHandshake::start: not subprotocols, generate_request, then start_write")
    um = one(r"pub fn uri_mode\(uri: &Uri\) -> Result<Mode> \{(.*?)\n\}\n", tc, "tungstenite uri_mode", re.S)
    ok = re.findall(r'Some\("([a-z]+)"\) => Ok\(Mode::\w+\)', um)
    out.append("def tungSchemes : List String := " + lean_strs(ok))


def remotespec_constants(out):
    # C01 (glue): the client's remote-specification parser (penguin/src/arg/remote_spec.rs): default
    # ports and hosts (the `default-is-ipv6` feature is off in the checked build), the segment limit
    # of the tokenizer, the `unix:` prefix length, the arms of `match tokens[..]` in source order
    # (first match wins: the model's `selectArm` must list the same patterns in the same order), the
    # three post-checks in order, and the default ports the help text (arg/mod.rs) advertises
    def lean_str(t):
        return '"' + t.replace("\\", "\\\\").replace('"', '\\"') + '"'
    src = strip_comments(read("penguin/src/arg/remote_spec.rs").split("#[cfg(test)]\nmod tests")[0])
    for name, lean in (("SOCKS_DEFAULT_PORT", "remoteSocksDefaultPort"), ("HTTP_DEFAULT_PORT", "remoteHttpDefaultPort"),
                       ("TPROXY_DEFAULT_PORT", "remoteTproxyDefaultPort")):
        v = one(r"pub const %s\s*:\s*u16\s*=\s*([0-9_]+)\s*;" % name, src, f"remote_spec.rs {name}")
        out.append(f"def {lean} : Nat := {intlit(v)}")
    mac = one(r'#\[cfg\(not\(feature = "default-is-ipv6"\)\)\]\s*macro_rules! default_host \{(.*?)\n\}\n', src,
              "remote_spec.rs default_host! (IPv4 variant)", re.S)
    for kw, lean in (("local", "remoteDefaultLocalHost"), ("unspec", "remoteDefaultUnspecHost")):
        v = one(r'\(%s, str\) => \{\s*"([^"\\]*)"\s*\};' % kw, mac, f"default_host!({kw}, str)")
        out.append(f"def {lean} : String := {lean_str(v)}")
    if not re.search(r"\(\[\$kw:ident\]\) => \{\s*\$crate::arg::default_host!\(\$kw, str\)\s*\};", mac):
        raise Broken("default_host!([kw]) is no longer the bare string in the IPv4 variant")
    tok = one(r"fn tokenize_remote\((.*?)\n\}\n", src, "remote_spec.rs tokenize_remote", re.S)
    v = one(r"if tokens\.len\(\) >= (\d+) \{\s*return Err\(Error::TooManySegments\);\s*\}\s*if \$token\.is_empty\(\) \{\s*return Err\(Error::EmptySegment\);",
            tok, "tokenize_remote: the segment-count check comes before the empty check")
    out.append(f"def remoteMaxSegments : Nat := {int(v)}")
    one(r"let end = stuff\.find\('\]'\)\.ok_or\(Error::BracketMismatch\)\?;\s*check_and_push!\(&stuff\[1\.\.end\]\);", tok,
        "tokenize_remote: the closing bracket is looked for before the token is pushed")
    fs = one(r"impl FromStr for Remote \{(.*?)\n\}\n", src, "remote_spec.rs impl FromStr for Remote", re.S)
    one(r"let \(rest, proto\) = match s\.rsplit_once\('/'\) \{\s*Some\(\(rest, proto\)\) if !proto\.contains\(':'\) => \(rest, proto\.parse\(\)\?\),\s*_ => \(s, Protocol::Tcp\),\s*\};",
        fs, "from_str: the protocol split")
    body = one(r"let result = match tokens\[\.\.\] \{\n(.*?)\n        \};\n", fs, "from_str: match tokens[..]", re.S)
    arms = re.findall(r"^            ((?:\[[^\n]*?\]|_)(?: if [^\n]*?)?) => (?:Self )?\{", body, re.M)
    if len(arms) < 2 or arms[-1] != "_":
        raise Broken(f"from_str: could not list the arms of match tokens[..] (found {len(arms)})")
    out.append("def remoteMatchArms : List String := [" + ", ".join(lean_str(re.sub(r"\s+", " ", a)) for a in arms) + "]")
    lens = sorted(set(int(x) for x in re.findall(r"uds_path\[(\d+)\.\.\]", body)))
    pref = sorted(set(re.findall(r'uds_path\.starts_with\("([^"\\]*)"\)', body)))
    if len(lens) != 1 or len(pref) != 1 or lens[0] != len(pref[0].encode("utf-8")):
        raise Broken(f"from_str: unix-socket prefix {pref} and slice start {lens} do not agree")
    out.append(f"def remoteUnixPrefix : String := {lean_str(pref[0])}")
    checks = re.findall(r"if matches!\(\s*result,\s*Self \{(.*?)\.\.\s*\}\s*\) \{\s*return Err\(Error::UnsupportedCombination\(\s*\"([^\"]*)\",\s*\"([^\"]*)\",?\s*\)\);", fs, re.S)
    if not checks:
        raise Broken("from_str: no post-checks found")
    out.append("def remotePostChecks : List (String × String × String) := [" + ", ".join(
        "(" + ", ".join(lean_str(re.sub(r"\s+", " ", x.strip().rstrip(","))) for x in c) + ")" for c in checks) + "]")
    v = one(r'\["stdio", "tproxy"\] => \{\s*return Err\(Error::UnsupportedCombination\(\s*"([^"]*)",\s*"([^"]*)",?\s*\)\);', body,
            "from_str: the stdio + tproxy arm")
    out.append(f"def remoteStdioTproxyTexts : String × String := ({lean_str(v[0])}, {lean_str(v[1])})")
    pr = one(r"impl FromStr for Protocol \{(.*?)\n\}\n", src, "remote_spec.rs impl FromStr for Protocol", re.S)
    one(r'match s\.to_lowercase\(\)\.as_str\(\) \{\s*"tcp" => Ok\(Self::Tcp\),\s*"udp" => Ok\(Self::Udp\),\s*other => Err\(Error::Protocol\(other\.to_string\(\)\)\),\s*\}',
        pr, "Protocol::from_str")
    one(r"macro_rules! add_brackets \{\s*\(\$host:expr\) => \{\s*if \$host\.contains\(':'\) \{\s*format!\(\"\[\{\}\]\", \$host\)\s*\} else \{\s*\$host\.to_string\(\)\s*\}\s*\};\s*\}",
        src, "add_brackets!")
    helptext = read("penguin/src/arg/mod.rs")
    for kw, lean in (("socks", "remoteHelpSocksPort"), ("http", "remoteHelpHttpPort"), ("tproxy", "remoteHelpTproxyPort")):
        v = one(r"The default LOCAL_PORT of an? `%s` remote is `(\d+)`" % kw, helptext, f"arg/mod.rs help text: default port of {kw}")
        out.append(f"def {lean} : Nat := {int(v)}")


HTTP_STATUS = {"OK": 200, "BAD_REQUEST": 400, "FORBIDDEN": 403, "NOT_FOUND": 404, "METHOD_NOT_ALLOWED": 405,
               "INTERNAL_SERVER_ERROR": 500, "NOT_IMPLEMENTED": 501, "BAD_GATEWAY": 502, "SERVICE_UNAVAILABLE": 503,
               "GATEWAY_TIMEOUT": 504}


def httpproxy_constants(out):
    # C01: the HTTP proxy entry point (client/handle_remote/http.rs, do_proxy_request): the fixed answers
    # (status + body) with the condition each one is tied to, the bracket stripping of the host, the
    # default ports, the treatment of a port that is not a u16, and the order of the effects
    src = strip_comments(read("penguin/src/client/handle_remote/http.rs")).split("#[cfg(test)]")[0]
    fn = one(r"async fn do_proxy_request\((.*?)\n\}\n", src, "http.rs do_proxy_request", re.S)
    answer = r'make_static_body\(\s*StatusCode::(\w+),\s*b"([^"\\]*)",?\s*\)'
    sites = 0

    def fixed(lean, pattern, what, text=fn):
        nonlocal sites
        name, body = one(pattern, text, what, re.S)
        if name not in HTTP_STATUS:
            raise Broken(f"{what}: unknown StatusCode::{name}")
        sites += 1
        out.append(f"def httpStatus{lean} : Nat := {HTTP_STATUS[name]}")
        out.append(f"/-- `{body}` -/")
        out.append(f"def httpBody{lean} : List UInt8 := [" + ", ".join(str(b) for b in body.encode("utf-8")) + "]")

    fixed("ShuttingDown", r"let Ok\(stream_command_tx_permit\) = hr\.stream_command_tx\.reserve\(\)\.await else \{\s*return Ok\(" + answer + r"\);",
          "answer when reserve() fails")
    fixed("NoAuthority", r"let Some\(target\) = req\.uri\(\)\.authority\(\) else \{\s*return Ok\(" + answer + r"\);",
          "answer when the request has no authority")
    # host: one pair of surrounding brackets stripped (only if both are there), or the host as it is
    strip = re.findall(r"\.strip_prefix\('(.)'\)\s*\.and_then\(\|h\| h\.strip_suffix\('(.)'\)\)\s*\.unwrap_or\(host\);\s*"
                       r"let host = Bytes::copy_from_slice\(host\.as_bytes\(\)\);", fn)
    if len(strip) == 1:
        out.append("def httpStripsBrackets : Bool := true")
        out.append(f"def httpBracketOpen : Nat := {ord(strip[0][0])}")
        out.append(f"def httpBracketClose : Nat := {ord(strip[0][1])}")
    elif len(strip) == 0:
        one(r"let host = Bytes::copy_from_slice\(target\.host\(\)\.as_bytes\(\)\);", fn, "host taken from the authority as it is")
        out.append("def httpStripsBrackets : Bool := false")
        out.append("def httpBracketOpen : Nat := 91")
        out.append("def httpBracketClose : Nat := 93")
    else:
        raise Broken(f"do_proxy_request: bracket stripping found {len(strip)} times")
    # port: the explicit port, else the default of the scheme; a port text that is not a u16 is refused
    # (or, before that fix, read as if no port were written)
    https, other = one(r"if req\.uri\(\)\.scheme\(\) == Some\(&Scheme::HTTPS\) \{\s*(\d+)\s*\} else \{\s*(\d+)\s*\}", fn, "default ports")
    out.append(f"def httpDefaultPortHttps : Nat := {int(https)}")
    out.append(f"def httpDefaultPort : Nat := {int(other)}")
    new = re.findall(r"let port = match target\.port_u16\(\) \{\s*Some\(port\) => port,\s*None => \{(.*?)\n        \}\n    \};", fn, re.S)
    if len(new) == 1:
        one(r"let host_port = target\.as_str\(\)\.rsplit\('@'\)\.next\(\)\.unwrap_or_default\(\);\s*"
            r"let port_text = host_port\.get\(target\.host\(\)\.len\(\)\.\.\)\.unwrap_or_default\(\);", new[0],
            "port text = what follows the host in the authority")
        fixed("InvalidPort", r'if !matches!\(port_text, "" \| ":"\) \{\s*return Ok\(' + answer + r"\);", "answer to a port that is not a u16", new[0])
        out.append("def httpRejectsInvalidPort : Bool := true")
    else:
        one(r"let port = target\.port_u16\(\)\.unwrap_or_else\(\|\| \{", fn, "port: explicit or default")
        out.append("def httpStatusInvalidPort : Nat := 400")
        out.append("def httpBodyInvalidPort : List UInt8 := []")
        out.append("def httpRejectsInvalidPort : Bool := false")
    fixed("NoChannel", r"let Ok\(mux_stream\) = request_tcp_channel\(stream_command_tx_permit, host, port\)\.await else \{\s*return Ok\(" + answer + r"\);",
          "answer when the main loop hands no stream over")
    fixed("ConnectOk", r"if Method::CONNECT == req\.method\(\) \{.*?\n        \}\);\s*Ok\(" + answer + r"\)\s*\} else \{", "answer to a served CONNECT")
    fixed("HandshakeFailed", r"let Ok\(\(mut client, conn\)\) = http1::handshake\(hyper_io\)\.await else \{\s*warn!\([^;]*\);\s*return Ok\(" + answer + r"\);",
          "answer when the HTTP/1 handshake on the stream fails")
    fixed("SendFailed", r"\.or_else\(\|e\| \{\s*warn!\([^;]*\);\s*Ok\(" + answer + r"\)\s*\}\)", "answer when the request cannot be sent / answered")
    n = len(re.findall(r"make_static_body\(", fn))
    if n != sites:
        raise Broken(f"do_proxy_request builds {n} fixed answers, {sites} of them are known to the model")
    # order of the effects: reserve, authority, tunnel request, method, handshake, send
    marks = ["hr.stream_command_tx.reserve().await", "req.uri().authority()", "request_tcp_channel(stream_command_tx_permit, host, port).await",
             "Method::CONNECT == req.method()", "hyper::upgrade::on(req).await", "into_copy_bidirectional(TokioIo::new(upgraded))",
             "http1::handshake(hyper_io).await", ".send_request(req)"]
    at = [fn.find(m) for m in marks]
    if any(a < 0 for a in at) or at != sorted(at) or any(fn.count(m) != 1 for m in marks):
        raise Broken(f"do_proxy_request: the effects are not in the order the model assumes (positions {at})")
    out.append("/-- the tunnel is requested after the authority was looked at and before the method is -/")
    out.append("def httpTunnelBeforeMethod : Bool := true")


def dispatch_constants(out):
    # C01 (glue): which handler `handle_remote` (penguin/src/client/handle_remote/mod.rs) starts for which
    # remote: the arms of `match (&remote.local_addr, &remote.remote_addr, remote.protocol)` in source order
    # (first match wins), each with the handler it calls and the listener constructor it passes
    def lean_str(t):
        return '"' + t.replace("\\", "\\\\").replace('"', '\\"') + '"'
    src = strip_comments(read("penguin/src/client/handle_remote/mod.rs"))
    m = re.search(r"async fn handle_remote\b.*?\{(.*?)\n\}\n", src, re.S)
    if not m:
        raise Broken("handle_remote/mod.rs: fn handle_remote not found")
    body = m.group(1)
    if len(re.findall(r"match \(&remote\.local_addr, &remote\.remote_addr, remote\.protocol\) \{", body)) != 1:
        raise Broken("handle_remote: the match on (local_addr, remote_addr, protocol) not found exactly once")
    arms = re.findall(r"^        \((LocalSpec::[^\n]*?)\) => \{(.*?)^        \}", body, re.M | re.S)
    if len(arms) < 10:
        raise Broken(f"handle_remote: could not list the arms of the dispatch match (found {len(arms)})")
    rows = []
    for pat, blk in arms:
        pat = re.sub(r"\s+", " ", pat.strip())
        blk1 = re.sub(r"\s+", " ", blk.strip())
        if blk1.startswith("unreachable!"):
            rows.append((pat, "unreachable", ""))
            continue
        hm = re.match(r"(handle_\w+)\((.*)\)\.await$", blk1)
        if not hm:
            raise Broken(f"handle_remote: arm `{pat}` does not end in one handler call: {blk1[:80]}")
        args = hm.group(2)
        lm = re.match(r"(bind_tcp|bind_uds|ReusableListener::new_stdio)\(", args)
        rows.append((pat, hm.group(1), (lm.group(1) if lm else "") + "|" + re.sub(r"(bind_tcp|bind_uds)\([^)]*\)\.await\?|ReusableListener::new_stdio\(\)", "L", args)))
    out.append("def dispatchArms : List (String × String × String) := [" + ", ".join(
        "(" + lean_str(a) + ", " + lean_str(b) + ", " + lean_str(c) + ")" for a, b, c in rows) + "]")


def fixedtarget_constants(out):
    # C01 (glue): the two fixed-target entry points of the client, `handle_tcp` (handle_remote/tcp.rs) and
    # `handle_udp` (handle_remote/udp.rs), and `request_tcp_channel` (handle_remote/common.rs): the statements
    # before the loop and the statements of the loop body, in source order, as normalised text (tracing macros
    # left out).  Model/FixedTarget.lean is a transcription of exactly these statements; the `Datagram` literal
    # of `handle_udp` is listed field by field as well.
    def lean_str(t):
        return '"' + t.replace("\\", "\\\\").replace('"', '\\"') + '"'

    def norm(t):
        t = re.sub(r"\s+", " ", t.strip())
        t = re.sub(r"\s*\.\s*(?=[A-Za-z_])", ".", t)          # method chains written over several lines
        t = re.sub(r"([(\[])\s+", r"\1", t)
        t = re.sub(r",?\s+([)\]])", r"\1", t)                  # trailing comma of a multi-line call
        t = re.sub(r",\s*\}", " }", t)                         # trailing comma of a struct literal
        return t

    def statements(body, what, sep=";"):
        """Split a block body into its top-level statements (at depth 0 of () [] {}; string literals skipped)."""
        stmts, depth, cur, i, instr = [], 0, "", 0, False
        while i < len(body):
            ch = body[i]
            if instr:
                cur += ch
                if ch == "\\":
                    cur += body[i + 1]
                    i += 1
                elif ch == '"':
                    instr = False
            elif ch == '"':
                instr = True
                cur += ch
            elif ch in "([{":
                depth += 1
                cur += ch
            elif ch in ")]}":
                depth -= 1
                if depth < 0:
                    raise Broken(f"{what}: unbalanced brackets")
                cur += ch
            elif ch == sep and depth == 0:
                stmts.append(cur)
                cur = ""
            else:
                cur += ch
            i += 1
        if depth != 0 or instr:
            raise Broken(f"{what}: unbalanced brackets")
        if cur.strip():
            stmts.append(cur)                                  # a trailing block / expression without `;`
        stmts = [norm(x) for x in stmts]
        return [x for x in stmts if not re.match(r"(trace|debug|info|warn|error)!\(", x)]

    def split_loop(fn_body, what):
        """(statements before the one `loop { … }` that ends the function, statements of its body)."""
        if len(re.findall(r"\bloop\s*\{", fn_body)) != 1:
            raise Broken(f"{what}: expected exactly one `loop {{`")
        if re.search(r"\b(for|while)\b", fn_body):
            raise Broken(f"{what}: a second (for / while) loop inside the function")
        m = re.search(r"^(.*?)\bloop\s*\{(.*)\}\s*$", fn_body, re.S)
        if not m:
            raise Broken(f"{what}: the function does not end with its loop")
        return statements(m.group(1), what), statements(m.group(2), what)

    def emit_list(name, xs):
        out.append(f"def {name} : List String := [" + ", ".join(lean_str(x) for x in xs) + "]")

    # --- handle_udp
    src = strip_comments(read("penguin/src/client/handle_remote/udp.rs")).split("#[cfg(test)]")[0]
    params, body = one(r"async fn handle_udp\((.*?)\)\s*->\s*Result<\(\), FatalError>\s*\{(.*?)\n\}\n", src,
                       "udp.rs: fn handle_udp", re.S)
    one(r"\brhost: &'static str\b", params, "handle_udp: parameter rhost")
    one(r"\brport: u16\b", params, "handle_udp: parameter rport")
    for pat, what in [(r"\w*recv_from\(", "a receive call"), (r"\badd_udp_client\(", "add_udp_client"),
                      (r"\bDatagram\s*\{", "the Datagram literal"), (r"\bdatagram_tx\b", "datagram_tx"),
                      (r"\bclient_id\b(?=\s*=[^=])", "a binding of client_id"), (r"\|[^|]*\|", "no closure")]:
        n = len(re.findall(pat, body))
        if n != (0 if what == "no closure" else 1):
            raise Broken(f"handle_udp: {what}: found {n} times")
    pre, loop = split_loop(body, "handle_udp")
    emit_list("fixedUdpPrelude", pre)
    emit_list("fixedUdpLoop", loop)
    lit = one(r"\bDatagram\s*\{(.*?)\}", body, "handle_udp: the Datagram literal", re.S)
    fields = []
    for f in statements(lit, "handle_udp: Datagram literal", sep=","):
        fm = re.fullmatch(r"(\w+): (.*)", f)
        if not fm:
            raise Broken(f"handle_udp: Datagram field not of the form name: expr: {f[:60]}")
        fields.append((fm.group(1), fm.group(2)))
    if sorted(k for k, _ in fields) != ["data", "flow_id", "target_host", "target_port"]:
        raise Broken(f"handle_udp: Datagram fields are {[k for k, _ in fields]}")
    out.append("def fixedUdpFrame : List (String × String) := [" + ", ".join(
        "(" + lean_str(k) + ", " + lean_str(v) + ")" for k, v in sorted(fields)) + "]")

    # --- handle_tcp
    src = strip_comments(read("penguin/src/client/handle_remote/tcp.rs")).split("#[cfg(test)]")[0]
    params, body = one(r"async fn handle_tcp<L>\((.*?)\)\s*->\s*Result<\(\), FatalError>[^{]*\{(.*?)\n\}\n", src,
                       "tcp.rs: fn handle_tcp", re.S)
    one(r"\brhost: &'static str\b", params, "handle_tcp: parameter rhost")
    one(r"\brport: u16\b", params, "handle_tcp: parameter rport")
    for pat, what in [(r"\.reserve\(\)", "reserve()"), (r"\.accept\(\)", "accept()"),
                      (r"\brequest_tcp_channel\(", "request_tcp_channel"),
                      (r"\binto_copy_bidirectional\w*\(", "into_copy_bidirectional"), (r"\btokio::spawn\(", "tokio::spawn")]:
        n = len(re.findall(pat, body))
        if n != 1:
            raise Broken(f"handle_tcp: {what}: found {n} times")
    pre, loop = split_loop(body, "handle_tcp")
    emit_list("fixedTcpPrelude", pre)
    emit_list("fixedTcpLoop", loop)

    # --- request_tcp_channel
    src = strip_comments(read("penguin/src/client/handle_remote/common.rs")).split("#[cfg(test)]")[0]
    params, body = one(r"pub async fn request_tcp_channel\((.*?)\)\s*->[^{]*\{(.*?)\n\}\n", src,
                       "common.rs: fn request_tcp_channel", re.S)
    emit_list("fixedRequestParams", [norm(params).rstrip(",")])
    emit_list("fixedRequestBody", statements(body, "request_tcp_channel"))


def serverforward_constants(out):
    # C01 (glue, server side): `tcp_forwarder_on_channel`, `bind_tcp_for_target` and `resolve_and_try` of
    # penguin/src/server/forwarder.rs as ordered, normalised statements.  Model/ServerForward.lean is a
    # transcription of exactly these.  A tracing macro is left out only when it has no `?` in it
    # (`debug!("…", rstream.peer_addr()?)` is an effect and stays).
    def lean_str(t):
        return '"' + t.replace("\\", "\\\\").replace('"', '\\"') + '"'

    def norm(t):
        t = re.sub(r"\s+", " ", t.strip())
        t = re.sub(r"\s*\.\s*(?=[A-Za-z_])", ".", t)
        t = re.sub(r"([(\[])\s+", r"\1", t)
        t = re.sub(r",?\s+([)\]])", r"\1", t)
        t = re.sub(r",\s*\}", " }", t)
        return t

    def statements(body, what, sep=";"):
        stmts, depth, cur, i, instr = [], 0, "", 0, False
        while i < len(body):
            ch = body[i]
            if instr:
                cur += ch
                if ch == "\\":
                    cur += body[i + 1]
                    i += 1
                elif ch == '"':
                    instr = False
            elif ch == '"':
                instr = True
                cur += ch
            elif ch in "([{":
                depth += 1
                cur += ch
            elif ch in ")]}":
                depth -= 1
                if depth < 0:
                    raise Broken(f"{what}: unbalanced brackets")
                cur += ch
            elif ch == sep and depth == 0:
                stmts.append(cur)
                cur = ""
            else:
                cur += ch
            i += 1
        if depth != 0 or instr:
            raise Broken(f"{what}: unbalanced brackets")
        if cur.strip():
            stmts.append(cur)
        stmts = [norm(x) for x in stmts]
        return [x for x in stmts
                if not (re.match(r"(trace|debug|info|warn|error)!\(", x) and "?" not in re.sub(r'"(\\.|[^"\\])*"', "", x))]

    def emit_list(name, xs):
        out.append(f"def {name} : List String := [" + ", ".join(lean_str(x) for x in xs) + "]")

    def count(pat, text, what, n=1):
        k = len(re.findall(pat, text))
        if k != n:
            raise Broken(f"{what}: found {k} times, expected {n}")

    src = strip_comments(read("penguin/src/server/forwarder.rs")).split("#[cfg(test)]")[0]

    # --- tcp_forwarder_on_channel
    params, body = one(r"async fn tcp_forwarder_on_channel\((.*?)\)\s*->\s*Result<\(\), Error>\s*\{(.*?)\n\}\n", src,
                       "forwarder.rs: fn tcp_forwarder_on_channel", re.S)
    for pat, what in [(r"\bbind_tcp_for_target\(", "bind_tcp_for_target"), (r"\.connect\w*\(", "a connect call"),
                      (r"\binto_copy_bidirectional\w*\(", "into_copy_bidirectional"), (r"\bfrom_utf8\w*\(", "from_utf8"),
                      (r"\bchannel\.dest_host\b", "channel.dest_host"), (r"\bchannel\.dest_port\b", "channel.dest_port")]:
        count(pat, body, f"tcp_forwarder_on_channel: {what}")
    for pat, what in [(r"\b(loop|for|while)\b", "a loop"), (r"\b(lookup_host|TcpStream::connect|TcpSocket::new_v\d)\b", "a second way to a socket"),
                      (r"\btokio::spawn\b", "a spawn")]:
        count(pat, body, f"tcp_forwarder_on_channel: {what}", 0)
    emit_list("serverFwdParams", [norm(params).rstrip(",")])
    emit_list("serverFwdBody", statements(body, "tcp_forwarder_on_channel"))

    # --- bind_tcp_for_target: the one call of resolve_and_try and its closure
    params, body = one(r"async fn bind_tcp_for_target<T: ToSocketAddrs>\((.*?)\)\s*->\s*io::Result<\(TcpSocket, SocketAddr\)>\s*\{(.*?)\n\}\n",
                       src, "forwarder.rs: fn bind_tcp_for_target", re.S)
    emit_list("serverFwdBindParams", [norm(params).rstrip(",")])
    head, clos, tail = one(r"^(.*?\|[^|]*\|\s*)\{(.*)\}(\s*\)\s*\.await\s*)$", body, "bind_tcp_for_target: one closure block", re.S)
    emit_list("serverFwdBindCall", [norm(head) + " {…}" + norm(tail)])
    count(r"\bif\b", clos, "bind_tcp_for_target closure: if")
    count(r"\belse\b", clos, "bind_tcp_for_target closure: else")
    count(r"\b(loop|for|while|match|return|continue|break)\b", clos, "bind_tcp_for_target closure: other control flow", 0)
    pre, cond, then, els, rest = one(r"^(.*?)\bif\b(.*?)\{(.*?)\}\s*else\s*\{(.*?)\}(.*)$", clos,
                                     "bind_tcp_for_target closure: if / else", re.S)
    emit_list("serverFwdBindPrelude", statements(pre, "bind_tcp_for_target closure"))
    emit_list("serverFwdBindCond", [norm(cond)])
    emit_list("serverFwdBindThen", statements(then, "bind_tcp_for_target: v4 branch"))
    emit_list("serverFwdBindElse", statements(els, "bind_tcp_for_target: other branch"))
    emit_list("serverFwdBindTail", statements(rest, "bind_tcp_for_target closure tail"))

    # --- resolve_and_try: the candidate loop
    body = one(r"async fn resolve_and_try<F, R, T>\(host: T, f: F\)\s*->\s*io::Result<R>\s*where[^{]*\{(.*?)\n\}\n", src,
               "forwarder.rs: fn resolve_and_try", re.S)
    count(r"\bfor\b", body, "resolve_and_try: for")
    count(r"\bmatch\b", body, "resolve_and_try: match")
    count(r"\breturn\b", body, "resolve_and_try: return")
    count(r"\blookup_host\(", body, "resolve_and_try: lookup_host")
    count(r"\b(loop|while|continue|break|if)\b", body, "resolve_and_try: other control flow", 0)
    pre, head, loop, rest = one(r"^(.*?)\b(for\s+\w+\s+in\s+\w+)\s*\{(.*)\n    \}\n(.*)$", body, "resolve_and_try: the for loop", re.S)
    emit_list("serverFwdResolvePrelude", statements(pre, "resolve_and_try"))
    emit_list("serverFwdLoopHead", [norm(head)])
    scrut, arms = one(r"^\s*match\b(.*?)\{(.*)\}\s*$", loop, "resolve_and_try: the loop body is one match", re.S)
    emit_list("serverFwdLoopMatch", [norm(scrut)])
    emit_list("serverFwdLoopArms", statements(arms, "resolve_and_try: arms", sep=","))
    emit_list("serverFwdResolveTail", statements(rest, "resolve_and_try tail"))


SECTIONS = {"ServerForward": serverforward_constants, "Dispatch": dispatch_constants, "FixedTarget": fixedtarget_constants, "Frame": frame_constants, "Config": config_constants, "Socks": socks_constants,
            "ClientReq": clientreq_constants,
            "Client": client_constants, "Server": server_constants, "Tls": tls_constants,
            "UdpMap": udpmap_constants,
            "HttpProxy": httpproxy_constants,
            "RemoteSpec": remotespec_constants}


def write_if_changed(path, text):
    old = None
    if os.path.exists(path):
        with open(path, encoding="utf-8") as f:
            old = f.read()
    if old != text:
        os.makedirs(os.path.dirname(path), exist_ok=True)
        with open(path, "w", encoding="utf-8") as f:
            f.write(text)


def restore_committed(section):
    path = os.path.normpath(os.path.join(OUT_DIR, section + ".lean"))
    root = os.path.dirname(os.path.dirname(os.path.abspath(__file__)))
    rel = os.path.relpath(path, root)
    try:
        import subprocess
        p = subprocess.run(["git", "-C", root, "show", "HEAD:" + rel], stdout=subprocess.PIPE, stderr=subprocess.DEVNULL)
        if p.returncode == 0 and p.stdout:
            write_if_changed(path, p.stdout.decode("utf-8"))
    except OSError:
        pass


def generate(section):
    """Regenerate lean/Penguin/Gen/<section>.lean. Returns None on success, else the reason."""
    out = [f"/- GENERATED by bin/gen_constants.py ({section}) from /repo's current source on every run. Do not edit. -/",
           "namespace Penguin.Constants", ""]
    try:
        SECTIONS[section](out)
    except Broken as e:
        # the source no longer has the shape the patterns expect: the generated file must not keep values
        # from an earlier run on another tree - put back the committed one (generated from the pinned tree)
        restore_committed(section)
        return str(e)
    out += ["", "end Penguin.Constants"]
    write_if_changed(os.path.normpath(os.path.join(OUT_DIR, section + ".lean")), "\n".join(out) + "\n")
    return None


def main(argv):
    names = argv[1:] or list(SECTIONS)
    rc = 0
    for n in names:
        if n not in SECTIONS:
            print(f"gen_constants: unknown section {n}", file=sys.stderr)
            return 3
        why = generate(n)
        if why is not None:
            print(f"gen_constants: BROKEN TIE ({n}): {why}", file=sys.stderr)
            rc = 2
    return rc


if __name__ == "__main__":
    sys.exit(main(sys.argv))
