#!/usr/bin/env python3
"""Regenerate lean/Penguin/Gen/<Section>.lean from /repo's current source.

Every constant must be found exactly once (self-check); otherwise the tie is reported broken
(exit 2, message on stderr) and the previous file is left alone.  The file is only rewritten when
its contents change, so an unchanged tree does not trigger a Lean rebuild.
"""
import os, re, sys

REPO = os.environ.get("PVH_REPO", "/repo")
OUT_DIR = os.path.join(os.path.dirname(os.path.abspath(__file__)), "..", "lean", "Penguin", "Gen")


class Broken(Exception):
    pass


def read(rel):
    p = os.path.join(REPO, rel)
    try:
        with open(p, encoding="utf-8") as f:
            return f.read()
    except OSError as e:
        raise Broken(f"cannot read {rel}: {e}")


def strip_comments(src):
    # remove // comments (good enough for the files read here: no '//' inside string literals
    # on the lines that matter) and /* */ blocks
    src = re.sub(r"/\*.*?\*/", "", src, flags=re.S)
    return "\n".join(re.sub(r"//.*$", "", l) for l in src.split("\n"))


def one(pattern, src, what, flags=0):
    m = re.findall(pattern, src, flags)
    if len(m) != 1:
        raise Broken(f"{what}: expected exactly one match of /{pattern}/, found {len(m)}")
    return m[0]


def intlit(s):
    s = s.strip().replace("_", "")
    m = re.fullmatch(r"(0x[0-9a-fA-F]+|\d+)(?:u8|u16|u32|u64|usize)?", s)
    if m:
        return int(m.group(1), 0)
    m = re.fullmatch(r"(\d+)\s*<<\s*(\d+)", s)
    if m:
        return int(m.group(1)) << int(m.group(2))
    raise Broken(f"not an integer literal: {s!r}")


SIZEOF = {"u8": 1, "u16": 2, "u32": 4, "u64": 8}


def linear(expr, var):
    """Evaluate `a + b + var + size_of::<u8>()` to (constant, coefficient of var)."""
    const, coef = 0, 0
    for term in expr.split("+"):
        t = term.strip()
        m = re.fullmatch(r"size_of::<(\w+)>\(\)", t)
        if m and m.group(1) in SIZEOF:
            const += SIZEOF[m.group(1)]
        elif t == var:
            coef += 1
        else:
            const += intlit(t)
    return const, coef


def frame_constants(out):
    pv = strip_comments(read("penguin-mux/src/proto_version.rs"))
    ver = intlit(one(r"PROTOCOL_VERSION_NUMBER\s*:\s*u8\s*=\s*([^;]+);", pv, "protocol version number"))
    name = one(r'PROTOCOL_VERSION\s*:\s*&str\s*=\s*"([^"]+)"', pv, "protocol version string")
    out.append(f"def protocolVersion : Nat := {ver}")
    out.append(f'def protocolName : String := "{name}"')
    src = strip_comments(read("penguin-mux/src/frame.rs"))
    enum = one(r"pub enum OpCode\s*\{(.*?)\n\}", src, "OpCode enum", re.S)
    ops = ["Connect", "Acknowledge", "Reset", "Finish", "Push", "Bind", "Datagram"]
    for op in ops:
        v = one(rf"\b{op}\s*=\s*(\d+)\s*\|\s*PROTOCOL_VERSION_NUMBER\s*<<\s*4", enum, f"opcode {op}")
        out.append(f"def op{op} : Nat := {int(v)}")
    # the decoder's nibble table (TryFrom<u8> for OpCode)
    dec = one(r"impl TryFrom<u8> for OpCode\s*\{(.*?)\n\}", src, "OpCode::try_from", re.S)
    for op in ops:
        v = one(rf"(\d+)\s*=>\s*Ok\(Self::{op}\)", dec, f"decoded opcode {op}")
        out.append(f"def decOp{op} : Nat := {int(v)}")
    lenient = len(re.findall(r"value\s*>>\s*4\s*!=\s*0\b", dec))
    out.append(f"def lenientVersionZero : Bool := {'true' if lenient == 1 else 'false'}")
    bt = one(r"pub enum BindType\s*\{(.*?)\n\}", src, "BindType enum", re.S)
    v = int(one(r"Stream\s*=\s*(\d+)", bt, "BindType::Stream"))
    out.append(f"def bindStream : Nat := {v}")
    v = int(one(r"Datagram\s*=\s*(\d+)", bt, "BindType::Datagram"))
    out.append(f"def bindDatagram : Nat := {v}")
    btd = one(r"impl TryFrom<u8> for BindType\s*\{(.*?)\n\}", src, "BindType::try_from", re.S)
    v = int(one(r"(\d+)\s*=>\s*Ok\(Self::Stream\)", btd, "decoded BindType::Stream"))
    out.append(f"def decBindStream : Nat := {v}")
    v = int(one(r"(\d+)\s*=>\s*Ok\(Self::Datagram\)", btd, "decoded BindType::Datagram"))
    out.append(f"def decBindDatagram : Nat := {v}")
    # minimum-length checks of the decoder, in source order
    body = one(r"fn try_from\(mut data: CowBytes<'data>\)[^{]*\{(.*?)\n    \}\n", src, "Frame::try_from(CowBytes)", re.S)
    checks = re.findall(r"check_remaining!\(\s*data\s*,\s*([^;]*?)\)\s*;", body)
    if len(checks) != 6:
        raise Broken(f"Frame::try_from: expected 6 check_remaining! calls, found {len(checks)}: {checks}")
    names = ["minHeader", "minConnect", "minAcknowledge", "minBind", "minDatagramFixed"]
    for n, c in zip(names, checks[:5]):
        k, coef = linear(c, "host_len")
        if coef != 0:
            raise Broken(f"{n}: unexpected host_len in {c!r}")
        out.append(f"def {n} : Nat := {k}")
    k, coef = linear(checks[5], "host_len")
    if coef != 1:
        raise Broken(f"datagram second check is not host_len + k: {checks[5]!r}")
    out.append(f"def minDatagramAfterLen : Nat := {k}")


def config_constants(out):
    src = strip_comments(read("penguin-mux/src/config.rs"))
    body = one(r"pub const fn new\(\) -> Self \{(.*?)\n    \}\n", src, "Options::new", re.S)

    def const_nontest(name):
        m = re.findall(rf"(#\[cfg\((not\(test\)|test)\)\]\s*)?const {name}\s*:\s*\w+\s*=\s*([^;]+);", body)
        vals = [v for (_a, cfgk, v) in m if cfgk != "test"]
        if len(vals) != 1:
            raise Broken(f"Options::new const {name}: expected one non-test definition, found {len(vals)}")
        return intlit(vals[0])
    out.append(f"def defaultDatagramBufferSize : Nat := {const_nontest('DATAGRAM_BUFFER_SIZE')}")
    out.append(f"def defaultStreamBufferSize : Nat := {const_nontest('STREAM_BUFFER_SIZE')}")
    out.append(f"def defaultMaxFlowIdRetries : Nat := {const_nontest('MAX_FLOW_ID_RETRIES')}")
    out.append(f"def defaultRwnd : Nat := {const_nontest('RWND')}")
    out.append(f"def defaultRwndThreshold : Nat := {const_nontest('DEFAULT_RWND_THRESHOLD')}")
    v = intlit(one(r"bind_buffer_size\s*:\s*(\d+)", body, "default bind_buffer_size"))
    out.append(f"def defaultBindBufferSize : Nat := {v}")


def socks_constants(out):
    src = strip_comments(read("penguin-socks/src/magics.rs"))
    for name in ["VER_4", "VER_5", "VER_REP_4", "CMD_CONNECT", "CMD_BIND", "CMD_ASSOC", "ATYP_IPV4",
                 "ATYP_DOMAIN", "ATYP_IPV6", "AUTH_NOAUTH", "AUTH_NOACCEPT", "REP_SUCC", "REP_GENFAIL",
                 "REP_NOTALLOWED", "REP_NETUNRE", "REP_HOSTUNRE", "REP_CONNREF", "REP_TTLEXP",
                 "REP_CMDUNSUP", "REP_ATYPUNSUP", "REP_V4_SUCC", "REP_V4_FAIL", "RESERVED"]:
        v = intlit(one(rf"pub const {name}\s*:\s*u8\s*=\s*([^;]+);", src, f"socks magic {name}"))
        lean = "socks" + "".join(p.capitalize() for p in name.split("_"))
        out.append(f"def {lean} : Nat := {v}")


def client_constants(out):
    src = strip_comments(read("penguin/src/client/mod.rs"))
    m = one(r"Backoff::new\(\s*Duration::from_millis\((\d+)\)\s*,\s*Duration::from_millis\(args\.max_retry_interval\)\s*,\s*(\d+)\s*,\s*args\.max_retry_count\s*,?\s*\)",
            src, "client Backoff::new", re.S)
    out.append(f"def backoffInitialMs : Nat := {int(m[0])}")
    out.append(f"def backoffMult : Nat := {int(m[1])}")


def server_constants(out):
    src = strip_comments(read("penguin/src/server/service.rs"))
    for name, lean in [("UPGRADE", "hdrUpgradeValue"), ("WEBSOCKET", "hdrWebsocketValue"),
                       ("WEBSOCKET_VERSION", "hdrWebsocketVersionValue")]:
        v = one(rf'static {name}\s*:\s*HeaderValue\s*=\s*HeaderValue::from_static\("([^"]*)"\)', src, f"service.rs static {name}")
        out.append(f'def {lean} : String := "{v}"')
    one(r'static WANTED_PROTOCOL\s*:\s*HeaderValue\s*=\s*HeaderValue::from_static\(PROTOCOL_VERSION\)', src, "service.rs WANTED_PROTOCOL")
    v = one(r'headers\.get\("(x-[a-z-]+)"\)', src, "psk header name")
    out.append(f'def pskHeaderName : String := "{v}"')
    for p, lean in [("/health", "pathHealth"), ("/version", "pathVersion"), ("/ws", "pathWs")]:
        n = len(re.findall(rf'req\.uri\(\)\.path\(\) == "{re.escape(p)}"', src))
        if n != 1:
            raise Broken(f"service.rs: expected exactly one routing test for {p}, found {n}")
        out.append(f'def {lean} : String := "{p}"')


SECTIONS = {"Frame": frame_constants, "Config": config_constants, "Socks": socks_constants,
            "Client": client_constants, "Server": server_constants}


def write_if_changed(path, text):
    old = None
    if os.path.exists(path):
        with open(path, encoding="utf-8") as f:
            old = f.read()
    if old != text:
        os.makedirs(os.path.dirname(path), exist_ok=True)
        with open(path, "w", encoding="utf-8") as f:
            f.write(text)


def generate(section):
    """Regenerate lean/Penguin/Gen/<section>.lean. Returns None on success, else the reason."""
    out = [f"/- GENERATED by bin/gen_constants.py ({section}) from /repo's current source on every run. Do not edit. -/",
           "namespace Penguin.Constants", ""]
    try:
        SECTIONS[section](out)
    except Broken as e:
        return str(e)
    out += ["", "end Penguin.Constants"]
    write_if_changed(os.path.normpath(os.path.join(OUT_DIR, section + ".lean")), "\n".join(out) + "\n")
    return None


def main(argv):
    names = argv[1:] or list(SECTIONS)
    rc = 0
    for n in names:
        if n not in SECTIONS:
            print(f"gen_constants: unknown section {n}", file=sys.stderr)
            return 3
        why = generate(n)
        if why is not None:
            print(f"gen_constants: BROKEN TIE ({n}): {why}", file=sys.stderr)
            rc = 2
    return rc


if __name__ == "__main__":
    sys.exit(main(sys.argv))
