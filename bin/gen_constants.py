#!/usr/bin/env python3
"""Regenerate lean/Penguin/Gen/<Section>.lean from /repo's current source.

Every constant must be found exactly once (self-check); otherwise the tie is reported broken
(exit 2, message on stderr) and the previous file is left alone.  The file is only rewritten when
its contents change, so an unchanged tree does not trigger a Lean rebuild.
"""
import os, re, sys

REPO = os.environ.get("PVH_REPO", "/repo")
OUT_DIR = os.path.join(os.path.dirname(os.path.abspath(__file__)), "..", "lean", "Penguin", "Gen")


class Broken(Exception):
    pass


def read(rel):
    p = os.path.join(REPO, rel)
    try:
        with open(p, encoding="utf-8") as f:
            return f.read()
    except OSError as e:
        raise Broken(f"cannot read {rel}: {e}")


def strip_comments(src):
    # remove // comments (good enough for the files read here: no '//' inside string literals
    # on the lines that matter) and /* */ blocks
    src = re.sub(r"/\*.*?\*/", "", src, flags=re.S)
    return "\n".join(re.sub(r"//.*$", "", l) for l in src.split("\n"))


def one(pattern, src, what, flags=0):
    m = re.findall(pattern, src, flags)
    if len(m) != 1:
        raise Broken(f"{what}: expected exactly one match of /{pattern}/, found {len(m)}")
    return m[0]


def intlit(s):
    s = s.strip().replace("_", "")
    m = re.fullmatch(r"(0x[0-9a-fA-F]+|\d+)(?:u8|u16|u32|u64|usize)?", s)
    if m:
        return int(m.group(1), 0)
    m = re.fullmatch(r"(\d+)\s*<<\s*(\d+)", s)
    if m:
        return int(m.group(1)) << int(m.group(2))
    raise Broken(f"not an integer literal: {s!r}")


SIZEOF = {"u8": 1, "u16": 2, "u32": 4, "u64": 8}


def linear(expr, var):
    """Evaluate `a + b + var + size_of::<u8>()` to (constant, coefficient of var)."""
    const, coef = 0, 0
    for term in expr.split("+"):
        t = term.strip()
        m = re.fullmatch(r"size_of::<(\w+)>\(\)", t)
        if m and m.group(1) in SIZEOF:
            const += SIZEOF[m.group(1)]
        elif t == var:
            coef += 1
        else:
            const += intlit(t)
    return const, coef


def frame_constants(out):
    pv = strip_comments(read("penguin-mux/src/proto_version.rs"))
    ver = intlit(one(r"PROTOCOL_VERSION_NUMBER\s*:\s*u8\s*=\s*([^;]+);", pv, "protocol version number"))
    name = one(r'PROTOCOL_VERSION\s*:\s*&str\s*=\s*"([^"]+)"', pv, "protocol version string")
    out.append(f"def protocolVersion : Nat := {ver}")
    out.append(f'def protocolName : String := "{name}"')
    src = strip_comments(read("penguin-mux/src/frame.rs"))
    enum = one(r"pub enum OpCode\s*\{(.*?)\n\}", src, "OpCode enum", re.S)
    ops = ["Connect", "Acknowledge", "Reset", "Finish", "Push", "Bind", "Datagram"]
    for op in ops:
        v = one(rf"\b{op}\s*=\s*(\d+)\s*\|\s*PROTOCOL_VERSION_NUMBER\s*<<\s*4", enum, f"opcode {op}")
        out.append(f"def op{op} : Nat := {int(v)}")
    # the decoder's nibble table (TryFrom<u8> for OpCode)
    dec = one(r"impl TryFrom<u8> for OpCode\s*\{(.*?)\n\}", src, "OpCode::try_from", re.S)
    for op in ops:
        v = one(rf"(\d+)\s*=>\s*Ok\(Self::{op}\)", dec, f"decoded opcode {op}")
        out.append(f"def decOp{op} : Nat := {int(v)}")
    lenient = len(re.findall(r"value\s*>>\s*4\s*!=\s*0\b", dec))
    out.append(f"def lenientVersionZero : Bool := {'true' if lenient == 1 else 'false'}")
    bt = one(r"pub enum BindType\s*\{(.*?)\n\}", src, "BindType enum", re.S)
    v = int(one(r"Stream\s*=\s*(\d+)", bt, "BindType::Stream"))
    out.append(f"def bindStream : Nat := {v}")
    v = int(one(r"Datagram\s*=\s*(\d+)", bt, "BindType::Datagram"))
    out.append(f"def bindDatagram : Nat := {v}")
    btd = one(r"impl TryFrom<u8> for BindType\s*\{(.*?)\n\}", src, "BindType::try_from", re.S)
    v = int(one(r"(\d+)\s*=>\s*Ok\(Self::Stream\)", btd, "decoded BindType::Stream"))
    out.append(f"def decBindStream : Nat := {v}")
    v = int(one(r"(\d+)\s*=>\s*Ok\(Self::Datagram\)", btd, "decoded BindType::Datagram"))
    out.append(f"def decBindDatagram : Nat := {v}")
    # minimum-length checks of the decoder, in source order
    body = one(r"fn try_from\(mut data: CowBytes<'data>\)[^{]*\{(.*?)\n    \}\n", src, "Frame::try_from(CowBytes)", re.S)
    checks = re.findall(r"check_remaining!\(\s*data\s*,\s*([^;]*?)\)\s*;", body)
    if len(checks) != 6:
        raise Broken(f"Frame::try_from: expected 6 check_remaining! calls, found {len(checks)}: {checks}")
    names = ["minHeader", "minConnect", "minAcknowledge", "minBind", "minDatagramFixed"]
    for n, c in zip(names, checks[:5]):
        k, coef = linear(c, "host_len")
        if coef != 0:
            raise Broken(f"{n}: unexpected host_len in {c!r}")
        out.append(f"def {n} : Nat := {k}")
    k, coef = linear(checks[5], "host_len")
    if coef != 1:
        raise Broken(f"datagram second check is not host_len + k: {checks[5]!r}")
    out.append(f"def minDatagramAfterLen : Nat := {k}")


def config_constants(out):
    src = strip_comments(read("penguin-mux/src/config.rs"))
    body = one(r"pub const fn new\(\) -> Self \{(.*?)\n    \}\n", src, "Options::new", re.S)

    def const_nontest(name):
        m = re.findall(rf"(#\[cfg\((not\(test\)|test)\)\]\s*)?const {name}\s*:\s*\w+\s*=\s*([^;]+);", body)
        vals = [v for (_a, cfgk, v) in m if cfgk != "test"]
        if len(vals) != 1:
            raise Broken(f"Options::new const {name}: expected one non-test definition, found {len(vals)}")
        return intlit(vals[0])
    out.append(f"def defaultDatagramBufferSize : Nat := {const_nontest('DATAGRAM_BUFFER_SIZE')}")
    out.append(f"def defaultStreamBufferSize : Nat := {const_nontest('STREAM_BUFFER_SIZE')}")
    out.append(f"def defaultMaxFlowIdRetries : Nat := {const_nontest('MAX_FLOW_ID_RETRIES')}")
    out.append(f"def defaultRwnd : Nat := {const_nontest('RWND')}")
    out.append(f"def defaultRwndThreshold : Nat := {const_nontest('DEFAULT_RWND_THRESHOLD')}")
    v = intlit(one(r"bind_buffer_size\s*:\s*(\d+)", body, "default bind_buffer_size"))
    out.append(f"def defaultBindBufferSize : Nat := {v}")
    # the keepalive deadline (`last_pong_timestamp`) is refreshed by a received Pong only — the timing
    # model has no other input (C16): every assignment must sit in the `Message::Pong` arm
    task = strip_comments(read("penguin-mux/src/task.rs"))
    writes = [m.start() for m in re.finditer(r"\*\s*self\s*\.\s*last_pong_timestamp\s*\.\s*lock\(\)\s*=", task)]
    arm = re.search(r"Message::Pong\s*=>\s*\{", task)
    if len(writes) != 1 or arm is None:
        raise Broken(f"task.rs: expected exactly one assignment to last_pong_timestamp and a `Message::Pong => {{` arm, found {len(writes)} assignment(s)")
    between = task[arm.end():writes[0]]
    if writes[0] < arm.end() or "=>" in between or "}" in between:
        raise Broken("task.rs: the assignment to last_pong_timestamp is not at the start of the `Message::Pong` arm")
    if re.search(r"Message::Ping\s*\|\s*Message::Pong|Message::Pong\s*\|", task):
        raise Broken("task.rs: the `Message::Pong` arm is shared with another message kind")
    out.append("/-- the only assignment to `last_pong_timestamp` is the first statement of the `Message::Pong` arm -/")
    out.append("def deadlineRefreshedByPongOnly : Bool := true")


def socks_constants(out):
    src = strip_comments(read("penguin-socks/src/magics.rs"))
    for name in ["VER_4", "VER_5", "VER_REP_4", "CMD_CONNECT", "CMD_BIND", "CMD_ASSOC", "ATYP_IPV4",
                 "ATYP_DOMAIN", "ATYP_IPV6", "AUTH_NOAUTH", "AUTH_NOACCEPT", "REP_SUCC", "REP_GENFAIL",
                 "REP_NOTALLOWED", "REP_NETUNRE", "REP_HOSTUNRE", "REP_CONNREF", "REP_TTLEXP",
                 "REP_CMDUNSUP", "REP_ATYPUNSUP", "REP_V4_SUCC", "REP_V4_FAIL", "RESERVED"]:
        v = intlit(one(rf"pub const {name}\s*:\s*u8\s*=\s*([^;]+);", src, f"socks magic {name}"))
        lean = "socks" + "".join(p.capitalize() for p in name.split("_"))
        out.append(f"def {lean} : Nat := {v}")
    # the length checks of v5::parse_udp_relay_header, in source order
    v5 = strip_comments(read("penguin-socks/src/v5.rs"))
    body = one(r"pub fn parse_udp_relay_header\(mut buf: Bytes\)[^{]*\{(.*?)\n\}\n", v5, "parse_udp_relay_header", re.S)
    checks = re.findall(r"if\s+buf\.remaining\(\)\s*<\s*([^{]+?)\s*\{", body)
    if len(checks) != 5:
        raise Broken(f"parse_udp_relay_header: expected 5 length checks, found {len(checks)}: {checks}")
    for n, c, coef_want in zip(["socksUdpMinHeader", "socksUdpMinV4", "socksUdpMinDomainLen", "socksUdpMinDomainAfterLen",
                                "socksUdpMinV6"], checks, [0, 0, 0, 1, 0]):
        k, coef = linear(c, "len")
        if coef != coef_want:
            raise Broken(f"{n}: unexpected form of the length check {c!r}")
        out.append(f"def {n} : Nat := {k}")
    # the SOCKS4a marker test of v4::read_request: `ip >> 8 == 0 && ip != 0` (DSTIP = 0.0.0.x, x != 0)
    v4 = strip_comments(read("penguin-socks/src/v4.rs"))
    m = re.findall(r"let rhost = if ([^{]+?)\s*\{", v4)
    if len(m) != 1:
        raise Broken(f"v4::read_request: expected one SOCKS4a marker test, found {len(m)}")
    mm = re.fullmatch(r"ip\s*>>\s*(\d+)\s*==\s*0(\s*&&\s*ip\s*!=\s*0)?", m[0].strip())
    if not mm:
        raise Broken(f"v4::read_request: SOCKS4a marker test of unknown form: {m[0]!r}")
    out.append(f"def socks4aMarkerShift : Nat := {int(mm.group(1))}")
    out.append(f"def socks4aMarkerNonzero : Bool := {'true' if mm.group(2) else 'false'}")


def lean_strs(xs):
    return "[" + ", ".join(f'"{x}"' for x in xs) + "]"


def enum_variants(body):
    """Variant names of a Rust enum body (attributes and comments removed)."""
    body = re.sub(r"#\[[^\]]*\]", "", body)
    depth, cur, parts = 0, "", []
    for ch in body:
        if ch in "([{":
            depth += 1
        elif ch in ")]}":
            depth -= 1
        if ch == "," and depth == 0:
            parts.append(cur)
            cur = ""
        else:
            cur += ch
    parts.append(cur)
    names = []
    for p in parts:
        m = re.match(r"\s*(\w+)", p)
        if m:
            names.append(m.group(1))
    return names


def client_constants(out):
    src = strip_comments(read("penguin/src/client/mod.rs"))
    m = one(r"Backoff::new\(\s*Duration::from_millis\((\d+)\)\s*,\s*Duration::from_millis\(args\.max_retry_interval\)\s*,\s*(\d+)\s*,\s*args\.max_retry_count\s*,?\s*\)",
            src, "client Backoff::new", re.S)
    out.append(f"def backoffInitialMs : Nat := {int(m[0])}")
    out.append(f"def backoffMult : Nat := {int(m[1])}")
    # on_connected's main loop: does the arm that sees the multiplexor task end leave the loop (with
    # ServerDisconnected) when the task ended with Ok(()) -- an orderly close by the server?
    fn = one(r"async fn on_connected\((.*?)\n\}\n", src, "on_connected", re.S)
    arm = one(r"Some\(mux_task_joinset_result\)\s*=\s*mux_task_joinset\.join_next\(\)\s*=>\s*\{(.*?)\}\s*Some\(sender\)\s*=\s*stream_command_rx\.recv\(\)",
              fn, "on_connected mux-task arm", re.S)
    one(r"mux_task_joinset_result\s*\.expect\(\s*\"[^\"]*\"\s*\)\s*\?\s*;", arm, "mux-task arm propagates the task's error")
    rest = re.sub(r"mux_task_joinset_result\s*\.expect\(\s*\"[^\"]*\"\s*\)\s*\?\s*;", "", arm).strip()
    if rest == "":
        exits = False
    elif re.fullmatch(r"return\s+Err\(\s*Error::ServerDisconnected\s*\)\s*;", rest):
        exits = True
    else:
        raise Broken(f"on_connected mux-task arm has an unexpected shape: {rest!r}")
    out.append(f"def muxTaskOkExits : Bool := {'true' if exits else 'false'}")
    one(r"else\s*=>\s*return\s+Err\(\s*Error::ServerDisconnected\s*\)", fn, "on_connected else arm")
    # where the back-off is reset / advanced in the retry loop
    one(r"\.inspect_err\(\s*\|_\|\s*backoff\.reset\(\)\s*\)", src, "backoff.reset() on on_connected's error")
    one(r"backoff\.reset\(\)", src, "single backoff.reset() call")
    one(r"backoff\.advance\(\)", src, "single backoff.advance() call")
    # variants of client::Error and penguin_mux::Error (the model's inductives must list the same)
    enum = one(r"pub enum Error\s*\{(.*?)\n\}", src, "client::Error enum", re.S)
    out.append("def clientErrorVariants : List String := " + lean_strs(enum_variants(enum)))
    mux = strip_comments(read("penguin-mux/src/lib.rs"))
    menum = one(r"pub enum Error\s*\{(.*?)\n\}", mux, "penguin_mux::Error enum", re.S)
    out.append("def muxErrorVariants : List String := " + lean_strs(enum_variants(menum)))
    # the retryable classification (maybe_retryable.rs)
    mr = strip_comments(read("penguin/src/client/maybe_retryable.rs"))

    def impl_body(ty):
        return one(rf"impl MaybeRetryableError for {re.escape(ty)}\s*\{{\s*fn retryable\(&self\)\s*->\s*bool\s*\{{(.*?)\n    \}}\n\}}",
                   mr, f"impl MaybeRetryableError for {ty}", re.S)
    io = impl_body("std::io::Error")
    kinds = re.findall(r"self\.kind\(\)\s*==\s*std::io::ErrorKind::(\w+)", io)
    left = re.sub(r"self\.kind\(\)\s*==\s*std::io::ErrorKind::\w+", "", io)
    if not kinds or re.sub(r"[\s|]", "", left) != "":
        raise Broken(f"io::Error::retryable is not a pure ||-chain of kind tests: {left.strip()!r}")
    out.append("def retryableIoKinds : List String := " + lean_strs(list(dict.fromkeys(kinds))))
    pr = impl_body("tokio_tungstenite::tungstenite::error::ProtocolError")
    m2 = re.fullmatch(r"\s*matches!\(\s*self\s*,(.*?)\)\s*", pr, re.S)
    if not m2:
        raise Broken("ProtocolError::retryable is not a single matches!(self, ..)")
    pv = [v.strip() for v in m2.group(1).split("|") if v.strip()]
    if not all(re.fullmatch(r"Self::\w+", v) for v in pv):
        raise Broken(f"ProtocolError::retryable: unexpected pattern list {pv}")
    out.append("def retryableWsProtocol : List String := " + lean_strs([v[6:] for v in pv]))

    def arms(ty, lean, extra=None):
        body = impl_body(ty)
        m3 = re.fullmatch(r"\s*match self\s*\{(.*)\}\s*", body, re.S)
        if not m3:
            raise Broken(f"{ty}::retryable is not a single match self {{..}}")
        direct, deleg, default = [], [], None
        text = m3.group(1)
        if extra:
            text = extra(text)
        for pat, rhs in re.findall(r"((?:Self::\w+(?:\(\w+\))?\s*\|?\s*)+|_)\s*=>\s*([^,]+),", text):
            rhs = rhs.strip()
            names = re.findall(r"Self::(\w+)", pat)
            if pat.strip() == "_":
                default = rhs
            elif rhs == "true":
                direct += names
            elif rhs == "e.retryable()":
                deleg += names
            else:
                raise Broken(f"{ty}::retryable: unexpected arm {pat.strip()} => {rhs}")
        if default != "false":
            raise Broken(f"{ty}::retryable: default arm is not `_ => false`")
        out.append(f"def {lean}RetryableDirect : List String := " + lean_strs(direct))
        out.append(f"def {lean}Delegating : List String := " + lean_strs(deleg))
    arms("tokio_tungstenite::tungstenite::Error", "ws")

    def mux_ws(text):
        pat = r"Self::WebSocket\(e\)\s*=>\s*e\s*\.downcast_ref::<tokio_tungstenite::tungstenite::Error>\(\)\s*\.is_some_and\(MaybeRetryableError::retryable\)\s*,"
        if len(re.findall(pat, text)) != 1:
            raise Broken("penguin_mux::Error::retryable: WebSocket arm is not the tungstenite downcast")
        return re.sub(pat, "", text)
    arms("penguin_mux::Error", "mux", mux_ws)
    out.append("def muxWebSocketDowncastsTungstenite : Bool := true")
    arms("crate::tls::Error", "tls")
    arms("super::Error", "client")


def server_constants(out):
    src = strip_comments(read("penguin/src/server/service.rs"))
    for name, lean in [("UPGRADE", "hdrUpgradeValue"), ("WEBSOCKET", "hdrWebsocketValue"),
                       ("WEBSOCKET_VERSION", "hdrWebsocketVersionValue")]:
        v = one(rf'static {name}\s*:\s*HeaderValue\s*=\s*HeaderValue::from_static\("([^"]*)"\)', src, f"service.rs static {name}")
        out.append(f'def {lean} : String := "{v}"')
    one(r'static WANTED_PROTOCOL\s*:\s*HeaderValue\s*=\s*HeaderValue::from_static\(PROTOCOL_VERSION\)', src, "service.rs WANTED_PROTOCOL")
    v = one(r'headers\.get\("(x-[a-z-]+)"\)', src, "psk header name")
    out.append(f'def pskHeaderName : String := "{v}"')
    for p, lean in [("/health", "pathHealth"), ("/version", "pathVersion"), ("/ws", "pathWs")]:
        n = len(re.findall(rf'req\.uri\(\)\.path\(\) == "{re.escape(p)}"', src))
        if n != 1:
            raise Broken(f"service.rs: expected exactly one routing test for {p}, found {n}")
        out.append(f'def {lean} : String := "{p}"')
    # C14 (gate): accept-hash GUID, response statuses and fixed bodies (non-test part of service.rs only)
    main = src.split("#[cfg(test)]")[0]
    v = one(r'hasher\.update\(b"([0-9A-Fa-f-]{36})"\)', main, "service.rs accept-hash GUID")
    out.append(f'def wsAcceptGuid : String := "{v}"')
    http_status = {"NOT_FOUND": 404, "SWITCHING_PROTOCOLS": 101, "OK": 200}
    fn_nf = one(r'fn not_found_handler\(self\).*?\n    \}', main, "service.rs not_found_handler", re.S)
    fn_ws = one(r'async fn ws_handler\(.*?\n    \}\n', main, "service.rs ws_handler", re.S)
    for body, lean, what in [(fn_nf, "statusNotFound", "not_found_handler status"),
                             (fn_ws, "statusSwitchingProtocols", "ws_handler response status")]:
        name = one(r'\.status\(StatusCode::([A-Z_]+)\)', body, what)
        if name not in http_status:
            raise Broken(f"{what}: unknown StatusCode::{name}")
        out.append(f'def {lean} : Nat := {http_status[name]}')
    v = one(r'Bytes::from_static\(b"([^"\\]*)"\)', main, "service.rs /health body")
    out.append(f'def healthBody : String := "{v}"')
    one(r'Bytes::from_static\(env!\("CARGO_PKG_VERSION"\)\.as_bytes\(\)\)', main, "service.rs /version body")
    cargo = read("penguin/Cargo.toml")
    pkg = one(r'\[package\](.*?)(?:\n\[|\Z)', cargo, "penguin/Cargo.toml [package]", re.S)
    v = one(r'^version\s*=\s*"([^"\\]*)"', pkg, "penguin/Cargo.toml package version", re.M)
    out.append(f'def pkgVersion : String := "{v}"')


def tls_constants(out):
    """C17: the shape of the TLS configuration decisions (tls/rustls.rs, tls/mod.rs, server/mod.rs,
    client/ws_connect.rs).  Parameterisable facts become constants of the model; facts the model
    assumes structurally are self-checks (a change reports a broken tie)."""
    src = strip_comments(read("penguin/src/tls/rustls.rs")).split("#[cfg(test)]")[0]
    fn = one(r"pub async fn make_client_config\(.*?\n\}\n", src, "rustls.rs make_client_config", re.S)
    body = one(r"match \(tls_skip_verify, client_certificate\) \{(.*?)\n    \};", fn, "make_client_config verifier match", re.S)
    parts = re.split(r"\n\s*\((true|false), (Some\(\([a-z_, ]*\)\)|None)\) =>", "\n" + body)
    if parts[0].strip() or (len(parts) - 1) % 3 != 0:
        raise Broken("make_client_config: cannot split the verifier match into arms")
    arms = {}
    for i in range(1, len(parts), 3):
        k = (parts[i] == "true", parts[i + 1] != "None")
        if k in arms:
            raise Broken(f"make_client_config: duplicate match arm {k}")
        arms[k] = parts[i + 2]
    if len(arms) != 4:
        raise Broken(f"make_client_config: expected 4 match arms, found {len(arms)}")
    for (skip, cert), text in sorted(arms.items(), reverse=True):
        empty = "with_custom_certificate_verifier(Arc::new(EmptyVerifier(" in text
        roots = "with_root_certificates(roots)" in text
        auth = "with_client_auth_cert(cert_chain, key_der)" in text
        noauth = "with_no_client_auth()" in text
        if empty == roots or auth == noauth:
            raise Broken(f"make_client_config: arm (skip={skip}, cert={cert}) is not one verifier and one client-auth choice")
        nm = ("Skip" if skip else "Verify") + ("Cert" if cert else "NoCert")
        out.append(f"def tlsArm{nm}EmptyVerifier : Bool := {'true' if empty else 'false'}")
        out.append(f"def tlsArm{nm}ClientAuth : Bool := {'true' if auth else 'false'}")
    one(r"let roots = generate_rustls_rootcertstore\(ca_path\)\.await\?;", fn, "make_client_config roots")
    one(r"let client_certificate = try_load_certificate\(key_path, cert_path\)\.await\?;", fn, "make_client_config client certificate")
    one(r"if let \(Some\(key\), Some\(cert\)\) = \(tls_key, tls_cert\) \{", src, "try_load_certificate needs both paths")
    rs = one(r"async fn generate_rustls_rootcertstore\(.*?\n\}\n", src, "generate_rustls_rootcertstore", re.S)
    one(r"let mut roots = RootCertStore::empty\(\);\s*if let Some\(ca_path\) = custom_ca_path \{", rs,
        "generate_rustls_rootcertstore: custom CA replaces the built-in roots")
    sf = one(r"async fn make_server_config_from_mem\(.*?\n\}\n", src, "rustls.rs make_server_config_from_mem", re.S)
    m = re.findall(r"if let Some\(client_ca_path\) = client_ca_path \{(.*?)\} else \{(.*?)\}", sf, re.S)
    if len(m) != 1:
        raise Broken("make_server_config_from_mem: client CA branch not found exactly once")
    then, els = m[0]
    if "WebPkiClientVerifier::builder(Arc::new(store))" not in then or "with_client_cert_verifier(verifier)" not in then:
        raise Broken("make_server_config_from_mem: client CA branch does not build a WebPkiClientVerifier")
    if els.strip() != "config.with_no_client_auth()":
        raise Broken("make_server_config_from_mem: branch without client CA is not with_no_client_auth()")
    out.append(f"def tlsClientAuthMandatory : Bool := {'false' if 'allow_unauthenticated' in then else 'true'}")
    ev = one(r"impl ServerCertVerifier for EmptyVerifier \{(.*?)\n\}\n", src, "EmptyVerifier impl", re.S)
    one(r"fn verify_server_cert\([^)]*\)\s*->\s*Result<ServerCertVerified, rustls::Error>\s*\{\s*Ok\(ServerCertVerified::assertion\(\)\)\s*\}",
        ev, "EmptyVerifier::verify_server_cert accepts unconditionally")
    mod = strip_comments(read("penguin/src/tls/mod.rs"))
    one(r"ServerName::try_from\(server_name\.to_string\(\)\)\?;", mod, "tls_connect parses the server name")
    n = len(re.findall(r"let new = make_server_config\(cert_path, key_path, client_ca_path\)\.await\?;\s*identity\.store\(Arc::new\(new\)\);", mod))
    if n != 1:
        raise Broken(f"reload_tls_identity: expected build-then-store exactly once, found {n}")
    srv = strip_comments(read("penguin/src/server/mod.rs")).split("#[cfg(test)]")[0]
    rl = one(r"pub async fn run_listener\(.*?\n\}\n", srv, "server run_listener", re.S)
    one(r"tls_config\.load_full\(\)", rl, "run_listener takes the identity per accepted connection")
    ws = strip_comments(read("penguin/src/client/ws_connect.rs"))
    i0 = ws.find("let mut tls_server_name = host;")
    i1 = ws.find("tls_server_name = hostname.to_str().map_err(super::Error::InvalidDomainName)?;")
    i2 = ws.find("if let Some(tls_sni) = args.tls_server_name.as_deref() {")
    i3 = ws.find("tls_connect(")
    if not (0 <= i0 < i1 < i2 < i3):
        raise Broken("ws_connect.rs: server-name choice is not URL host, then --hostname, then --tls-server-name")
    out.append("def tlsNameOrderHostThenHostnameThenSni : Bool := true")


def udpmap_constants(out):
    # C01: the client's UDP maps (client/mod.rs), the prune timeout (config.rs, non-test value), the
    # server's reply rule (forwarder.rs) and its handling of a finished forwarder (websocket.rs)
    cfg = strip_comments(read("penguin/src/config.rs"))
    v = one(r"#\[cfg\(not\(test\)\)\]\s*pub const UDP_PRUNE_TIMEOUT\s*:\s*time::Duration\s*=\s*time::Duration::from_secs\((\d+)\)",
            cfg, "config.rs UDP_PRUNE_TIMEOUT (non-test)")
    out.append(f"def udpPruneTimeoutMs : Nat := {int(v) * 1000}")
    src = strip_comments(read("penguin/src/client/mod.rs")).split("#[cfg(test)]\nmod tests")[0]
    add = one(r"pub fn add_udp_client\((.*?)\n    \}\n", src, "client add_udp_client", re.S)
    v = one(r"client_id_map\s*\.\s*(next_available_key|next_available_nonzero_key)\(", add, "add_udp_client key generator")
    out.append(f"def udpClientIdNonzero : Bool := {'true' if v == 'next_available_nonzero_key' else 'false'}")
    one(r"client_addr_map\.get\(&\(addr, our_addr\)\)", add, "add_udp_client looks the tuple (addr, our_addr) up")
    one(r"client_addr_map\.insert\(\(addr, our_addr\), client_id\)", add, "add_udp_client inserts the tuple")
    rep = one(r"async fn send_datagram_reply\((.*?)\n    \}\n", src, "client send_datagram_reply", re.S)
    v = one(r"if client_id == (\d+) \{", rep, "send_datagram_reply stdio sentinel")
    out.append(f"def udpStdioClientId : Nat := {int(v)}")
    pr = one(r"fn prune_udp_clients\(&self\)(.*?)\n    \}\n", src, "client prune_udp_clients", re.S)
    one(r"if entry\.expires > now \{\s*true\s*\}", pr, "prune keeps entries with expires > now")
    one(r"client_addr_map\s*\.remove\(&\(entry\.peer_addr, entry\.our_addr\)\)", pr, "prune removes the tuple of the entry")
    fw = strip_comments(read("penguin/src/server/forwarder.rs")).split("#[cfg(test)]")[0]
    f = one(r"async fn udp_forward_on\((.*?)\n\}\n", fw, "forwarder udp_forward_on", re.S)
    one(r"let Datagram \{\s*target_host: rhost,\s*target_port: rport,\s*flow_id,\s*data,\s*\} = first_datagram_frame;", f,
        "udp_forward_on takes flow_id from the first datagram")
    one(r"let frame = Datagram \{\s*target_host: rhost\.clone\(\),\s*target_port: rport,\s*flow_id,\s*data: buf\.into\(\),\s*\};", f,
        "udp_forward_on builds the reply with the same flow_id")
    out.append("def serverReplyKeepsFlowId : Bool := true")
    ws = strip_comments(read("penguin/src/server/websocket.rs"))
    v = one(r"TrySendError::Closed\((\w+)\)\)?\s*=>", ws, "websocket.rs: forwarder channel closed arm")
    out.append(f"def serverRespawnsFinishedForwarder : Bool := {'false' if v == '_' else 'true'}")
    # the SOCKS5 UDP relay of an association (client/handle_remote/socks.rs): what each outcome of
    # v5::parse_udp_relay_header does to the relay loop - an arm that yields Ok(None) drops the datagram
    # and the loop goes on; an arm that yields an error ends the association
    sk = strip_comments(read("penguin/src/client/handle_remote/socks.rs"))
    hb = one(r"async fn handle_udp_relay_header\((.*?)\n\}\n", sk, "socks.rs handle_udp_relay_header", re.S)
    mt = one(r"match v5::parse_udp_relay_header\(buf\) \{(.*)\n    \}", hb, "handle_udp_relay_header: match on the parse result", re.S)
    arms = re.findall(r"\n        (Err\((?:[^()]|\([^()]*\))*\))\s*=>\s*(\{.*?\n        \}|[^\n]*,)", mt, re.S)
    if not arms:
        raise Broken("handle_udp_relay_header: no Err arms found in the match on the parse result")
    def drops(arm_body):
        return "Ok(None)" in arm_body and "Err(" not in arm_body and "?" not in arm_body
    frag = [b for (pat, b) in arms if "FragmentedUdp" in pat]
    other = [b for (pat, b) in arms if "FragmentedUdp" not in pat]
    if not other:
        raise Broken("handle_udp_relay_header: no arm for parse errors other than FragmentedUdp")
    out.append(f"def socksRelayDropsFragmented : Bool := {'true' if (frag or other) and all(drops(b) for b in (frag or other)) else 'false'}")
    out.append(f"def socksRelayDropsMalformed : Bool := {'true' if all(drops(b) for b in other) else 'false'}")
    one(r"Ok\(\((\w+), (\w+), (\w+)\)\)\s*=>\s*\{.*?Ok\(Some\(\(\1, \2, \3, addr\.ip\(\), addr\.port\(\)\)\)\)", mt,
        "handle_udp_relay_header: a parsed request is handed on unchanged with the sender's address", re.S)


SECTIONS = {"Frame": frame_constants, "Config": config_constants, "Socks": socks_constants,
            "Client": client_constants, "Server": server_constants, "Tls": tls_constants,
            "UdpMap": udpmap_constants}


def write_if_changed(path, text):
    old = None
    if os.path.exists(path):
        with open(path, encoding="utf-8") as f:
            old = f.read()
    if old != text:
        os.makedirs(os.path.dirname(path), exist_ok=True)
        with open(path, "w", encoding="utf-8") as f:
            f.write(text)


def restore_committed(section):
    path = os.path.normpath(os.path.join(OUT_DIR, section + ".lean"))
    root = os.path.dirname(os.path.dirname(os.path.abspath(__file__)))
    rel = os.path.relpath(path, root)
    try:
        import subprocess
        p = subprocess.run(["git", "-C", root, "show", "HEAD:" + rel], stdout=subprocess.PIPE, stderr=subprocess.DEVNULL)
        if p.returncode == 0 and p.stdout:
            write_if_changed(path, p.stdout.decode("utf-8"))
    except OSError:
        pass


def generate(section):
    """Regenerate lean/Penguin/Gen/<section>.lean. Returns None on success, else the reason."""
    out = [f"/- GENERATED by bin/gen_constants.py ({section}) from /repo's current source on every run. Do not edit. -/",
           "namespace Penguin.Constants", ""]
    try:
        SECTIONS[section](out)
    except Broken as e:
        # the source no longer has the shape the patterns expect: the generated file must not keep values
        # from an earlier run on another tree - put back the committed one (generated from the pinned tree)
        restore_committed(section)
        return str(e)
    out += ["", "end Penguin.Constants"]
    write_if_changed(os.path.normpath(os.path.join(OUT_DIR, section + ".lean")), "\n".join(out) + "\n")
    return None


def main(argv):
    names = argv[1:] or list(SECTIONS)
    rc = 0
    for n in names:
        if n not in SECTIONS:
            print(f"gen_constants: unknown section {n}", file=sys.stderr)
            return 3
        why = generate(n)
        if why is not None:
            print(f"gen_constants: BROKEN TIE ({n}): {why}", file=sys.stderr)
            rc = 2
    return rc


if __name__ == "__main__":
    sys.exit(main(sys.argv))
