#!/usr/bin/env python3
"""Regenerate MANIFEST.json from checks/C*.json and checks/not_applicable.json."""
import glob, json, os
root = os.path.dirname(os.path.dirname(os.path.abspath(__file__)))
checks, claimed = [], set()
enabled = [l.strip() for l in open(os.path.join(root, "checks", "enabled.txt")) if l.strip()]
for p in sorted(glob.glob(os.path.join(root, "checks", "C*.json"))):
    if os.path.basename(p)[:-5] not in enabled:
        continue
    s = json.load(open(p))
    pid = s["property_id"]
    claimed.add(pid)
    checks.append({
        "property_id": pid,
        "quick_cmd": f"bin/check {pid} quick",
        "thorough_cmd": f"bin/check {pid} thorough",
        "evidence_file": f"/verif/evidence/{pid}.json",
        "replay_cmd_template": f"bin/check {pid} --replay {{path}}",
        "engine": "lean4-proof+correspondence",
        "level_claimed": {"category": s.get("level", "proof"), "text": s["level_text"], "design_ref": s.get("design_ref", "")},
        "level_note": s["level_note"],
        "technique": s["technique"],
    })
na_path = os.path.join(root, "checks", "not_applicable.json")
na = json.load(open(na_path)) if os.path.exists(na_path) else {}
all_ids = [json.loads(l)["id"] for l in open(os.path.join(root, "properties.jsonl"))]
not_applicable = []
for pid in all_ids:
    if pid not in claimed:
        not_applicable.append({"property_id": pid, "reason": na.get(pid, "no check registered yet (machinery for this property is still being built; see DESIGN.md section 3)")})
hooks = json.load(open(os.path.join(root, "checks", "hooks.json")))
manifest = {
    "version": 1,
    "setup_cmd": "bin/setup",
    "hooks": hooks,
    "engines": [
        {"name": "lean4-proof+correspondence", "path": "lean/ (models, theorems, drivers), harness/ (Rust correspondence), bin/check",
         "serves_properties": sorted(claimed),
         "kind_free_text": "Lean 4 theorems over hand-written executable models; constants regenerated from /repo on every run; models tied to the real crates by a differential harness driving compiled Lean drivers over a line protocol"}],
    "checks": checks,
    "not_applicable": not_applicable,
    "notes": "Every check: bin/check <id> quick|thorough (honours VERIF_SEED, VERIF_TIER). Known findings: known_findings.txt. Seeded breakages: seeded/.",
}
json.dump(manifest, open(os.path.join(root, "MANIFEST.json"), "w"), indent=1)
print(f"MANIFEST.json: {len(checks)} checks, {len(not_applicable)} not claimed")
