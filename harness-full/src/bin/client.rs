//! C19 (part 2): the real `rusty_penguin_lib::client::client_main_inner` against a scripted server on
//! loopback TCP, in real time.
//!
//! Set-up per scenario (one tokio runtime each): an echo server (the tunnel's target), the real
//! penguin server (`run_listener` + `State`), and in front of it the *scripted server*: a TCP
//! proxy that treats the i-th connection it accepts according to the i-th script step
//!   refuse      close at once (the WebSocket handshake fails with a transport error)
//!   stall       accept, never answer the HTTP upgrade
//!   reject      answer the upgrade with 404
//!   abrupt:d    relay to the real server (real handshake), cut both TCP connections d ms later
//!   orderly:d   relay, d ms later send a WebSocket Close to the client, wait for the reply, close
//!   mute        relay the handshake, then swallow everything the client sends
//!   mutecut:d   as mute, and cut both TCP connections d ms after the handshake (a stream request in
//!               flight fails with the multiplexor's `Closed`)
//!   healthy     relay until the scenario ends
//!   tlsstall    (wss only) the answer to the ClientHello stops after its first TLS record (the
//!               ServerHello): the TLS handshake stalls half-way
//!   upstall     complete the TLS handshake (if any), read the upgrade request, never answer it
//!   plain400    a plain-HTTP port: the first bytes that arrive are answered with `HTTP/1.1 400` in
//!               clear text, then the connection is closed (ws: an HTTP error; wss: not a TLS record,
//!               `Tls(TcpConnect(InvalidData))`, not retryable)
//!
//! TRANSPORT.  A scenario runs over `ws://` or over `wss://` (token `wss-ca`: the client verifies the
//! server against `--tls-ca`; `wss-insecure`: `--tls-skip-verify`; no token = `ws`).  Over `wss` the
//! scripted server is the TLS endpoint (a rustls acceptor with a certificate issued by the scenario
//! CA) and relays the clear text to the real penguin server, so that every behaviour above keeps its
//! meaning: `refuse` closes the TCP connection under the ClientHello, `stall` accepts the TCP
//! connection and never answers the ClientHello (the TLS handshake stalls; with `ws` it is the HTTP
//! upgrade that stalls), `reject` / `abrupt` / `orderly` / `mute` / `mutecut` / `healthy` act after
//! the TLS handshake.  The property and the model do not depend on the transport except for the class
//! of the error a closed connection is reported with (`Tls(..)` instead of `Tungstenite(..)`).
//! `+n` on a step (any number of them, `stall+1+2`): the harness opens local TCP connection number n
//! during that attempt (5-10 ms after the accept / the completed handshake), writes a token and
//! waits for its echo.  The client is configured with ONE TCP REMOTE (listener) PER REQUEST NUMBER:
//! a TCP listener of the client has at most one stream request outstanding, so only with several
//! listeners (or a SOCKS listener) can several local connections be queued in the client's command
//! channel at once — which is the situation the property's "no lost request" clause is about when a
//! connection picks up a backlog and fails one of the requests.
//!
//! Observed: time of every connection attempt and of the end of every attempt, the result of
//! `client_main_inner`, whether each local connection could connect (listeners stay open), and when
//! its echo came back (which attempt served it).
//!
//! Oracle (`FailKind::Impl`): the property's statement computed here from the script — delays of
//! min(200 ms * 2^k, max_retry_interval) for the k-th consecutive failure, k restarting after any
//! successful connection, `MaxRetryCountReached` once max_retry_count consecutive retries failed,
//! a non-retryable error ends the client at once, a pending local connection is served by the next
//! successful connection.  Model (`FailKind::Model`): `drv_client scenario …`.
//! Times are compared with a tolerance of -5 ms / +150 ms (+200 ms for the channel time-out).
//! A scenario that fails is run once more on its own before it is reported (real-time noise);
//! the number of such re-runs is in the report.

use penguin_mux::timing::OptionalDuration;
use pvhf::{Args, Driver, FailKind, Report, Rng, Tier, fnv, json};
use rusty_penguin_lib::arg::{ClientArgs, Remote, ServerUrl};
use rusty_penguin_lib::client::{Error as ClientError, HandlerResources, client_main_inner};
use rusty_penguin_lib::server::{State, run_listener};
use std::collections::VecDeque;
use std::str::FromStr;
use std::sync::atomic::{AtomicU16, Ordering};
use std::sync::{Arc, Mutex};
use std::time::{Duration, Instant};
use tokio::io::{AsyncRead, AsyncReadExt, AsyncWrite, AsyncWriteExt};
use tokio::net::{TcpListener, TcpStream};

const EARLY_MS: i64 = 5;
const LATE_MS: i64 = 150;
const LATE_CH_MS: i64 = 200;

// ---------------------------------------------------------------------------------------------
// Scenarios
// ---------------------------------------------------------------------------------------------

#[derive(Clone, Debug, PartialEq, Eq)]
enum Beh {
    Refuse,
    Stall,
    Reject,
    Abrupt(u64),
    Orderly(u64),
    Mute,
    MuteCut(u64),
    Healthy,
    TlsStall,
    UpStall,
    Plain400,
}

/// Scheme of the server URL and, for `wss`, how the client is told to verify the server.
#[derive(Clone, Copy, Debug, PartialEq, Eq)]
enum Transport {
    Ws,
    WssCa,
    WssInsecure,
}

impl Transport {
    fn token(self) -> &'static str {
        match self {
            Self::Ws => "ws",
            Self::WssCa => "wss-ca",
            Self::WssInsecure => "wss-insecure",
        }
    }
    fn parse(s: &str) -> Option<Self> {
        [Self::Ws, Self::WssCa, Self::WssInsecure].into_iter().find(|t| t.token() == s)
    }
    fn tls(self) -> bool {
        self != Self::Ws
    }
}

#[derive(Clone, Debug, PartialEq, Eq)]
struct Step {
    beh: Beh,
    /// local connections opened during this attempt, each on a listener of its own
    local: Vec<u32>,
}

#[derive(Clone, Debug, PartialEq, Eq)]
struct Scenario {
    tr: Transport,
    count: u32,
    max_interval: u64,
    hs: u64,
    ch: u64,
    steps: Vec<Step>,
}

impl Step {
    fn text(&self) -> String {
        let b = match &self.beh {
            Beh::Refuse => "refuse".to_string(),
            Beh::Stall => "stall".to_string(),
            Beh::Reject => "reject".to_string(),
            Beh::Abrupt(d) => format!("abrupt:{d}"),
            Beh::Orderly(d) => format!("orderly:{d}"),
            Beh::Mute => "mute".to_string(),
            Beh::MuteCut(d) => format!("mutecut:{d}"),
            Beh::Healthy => "healthy".to_string(),
            Beh::TlsStall => "tlsstall".to_string(),
            Beh::UpStall => "upstall".to_string(),
            Beh::Plain400 => "plain400".to_string(),
        };
        self.local.iter().fold(b, |acc, n| format!("{acc}+{n}"))
    }
    fn parse(s: &str) -> Option<Self> {
        let mut parts = s.split('+');
        let b = parts.next()?;
        let local = parts.map(|n| n.parse().ok()).collect::<Option<Vec<u32>>>()?;
        let beh = match b.split_once(':') {
            None => match b {
                "refuse" => Beh::Refuse,
                "stall" => Beh::Stall,
                "reject" => Beh::Reject,
                "mute" => Beh::Mute,
                "healthy" => Beh::Healthy,
                "tlsstall" => Beh::TlsStall,
                "upstall" => Beh::UpStall,
                "plain400" => Beh::Plain400,
                _ => return None,
            },
            Some(("abrupt", d)) => Beh::Abrupt(d.parse().ok()?),
            Some(("orderly", d)) => Beh::Orderly(d.parse().ok()?),
            Some(("mutecut", d)) => Beh::MuteCut(d.parse().ok()?),
            _ => return None,
        };
        Some(Self { beh, local })
    }
}

impl Scenario {
    /// `scenario [wss-ca|wss-insecure] <count> <max interval> <handshake t/o> <channel t/o> <step>...`
    /// (a `ws` scenario is written without a transport token, as before the transports existed)
    fn line(&self) -> String {
        let tr = if self.tr.tls() { format!("{} ", self.tr.token()) } else { String::new() };
        let mut s = format!("scenario {tr}{} {} {} {}", self.count, self.max_interval, self.hs, self.ch);
        for st in &self.steps {
            s.push(' ');
            s.push_str(&st.text());
        }
        s
    }
    fn parse(line: &str) -> Option<Self> {
        let mut t: Vec<&str> = line.split_whitespace().collect();
        if t.len() < 2 || t[0] != "scenario" {
            return None;
        }
        let tr = match Transport::parse(t[1]) {
            Some(tr) => {
                t.remove(1);
                tr
            }
            None => Transport::Ws,
        };
        if t.len() < 6 {
            return None;
        }
        let sc = Self {
            tr,
            count: t[1].parse().ok()?,
            max_interval: t[2].parse().ok()?,
            hs: t[3].parse().ok()?,
            ch: t[4].parse().ok()?,
            steps: t[5..].iter().map(|s| Step::parse(s)).collect::<Option<Vec<_>>>()?,
        };
        // a request number names one local connection (and one listener)
        let reqs = sc.requests();
        let distinct: std::collections::BTreeSet<u32> = reqs.iter().copied().collect();
        // a half-finished TLS handshake needs TLS
        let tls_ok = sc.tr.tls() || sc.steps.iter().all(|s| s.beh != Beh::TlsStall);
        (distinct.len() == reqs.len() && tls_ok).then_some(sc)
    }
    /// Every local connection of the script, in script order.
    fn requests(&self) -> Vec<u32> {
        self.steps.iter().flat_map(|s| s.local.iter().copied()).collect()
    }
}

/// What a scenario is predicted to show (by the oracle below or by the Lean model).
#[derive(Clone, Debug, PartialEq, Eq)]
struct Pred {
    sleeps: Vec<u64>,
    attempts: usize,
    fin: String,
    /// (request, index of the attempt that serves it)
    served: Vec<(u32, usize)>,
}

/// The property's statement, computed from the script alone.
fn oracle(sc: &Scenario) -> Pred {
    let mut p = Pred { sleeps: vec![], attempts: 0, fin: "script-end".into(), served: vec![] };
    let mut k: u32 = 0; // consecutive failures since the last successful connection
    let mut pending: VecDeque<u32> = VecDeque::new();
    let delay = |k: u32| -> u64 {
        let d = 2u128.checked_pow(k).map_or(u128::MAX, |p| p.saturating_mul(200));
        d.min(u128::from(sc.max_interval)) as u64
    };
    for (i, st) in sc.steps.iter().enumerate() {
        p.attempts += 1;
        pending.extend(st.local.iter().copied());
        let failure_class: &str;
        match st.beh {
            Beh::Reject => {
                p.fin = "fatal:http".into();
                return p;
            }
            Beh::Healthy => {
                p.served.extend(pending.drain(..).map(|r| (r, i)));
                p.fin = "stays".into();
                return p;
            }
            Beh::Plain400 => {
                // clear text where TLS is expected is not one of the retryable reasons; nor is an HTTP 400
                p.fin = if sc.tr.tls() { "fatal:tls".into() } else { "fatal:http".into() };
                return p;
            }
            // a connection closed under the handshake is reported by the layer that was waiting
            Beh::Refuse => failure_class = if sc.tr.tls() { "tls" } else { "transport" },
            // the one handshake time-out covers TCP connect, TLS handshake and upgrade
            Beh::Stall | Beh::TlsStall | Beh::UpStall => failure_class = "handshake-timeout",
            Beh::Abrupt(_) | Beh::Orderly(_) => {
                p.served.extend(pending.drain(..).map(|r| (r, i)));
                k = 0;
                failure_class = "connected";
            }
            Beh::Mute => {
                if pending.is_empty() {
                    p.fin = "stays".into();
                    return p;
                }
                // the oldest pending request times out and stays first in line; the others keep
                // waiting behind it
                k = 0;
                failure_class = "connected";
            }
            Beh::MuteCut(_) => {
                // the connection is lost before anything is served; everything pending keeps waiting
                k = 0;
                failure_class = "connected";
            }
        }
        if sc.count != 0 && k >= sc.count {
            p.fin = format!("gaveup:{failure_class}");
            return p;
        }
        p.sleeps.push(delay(k));
        k += 1;
    }
    p
}

/// Expected duration of attempt `i` (ms), for the run's deadline only.
fn nominal_duration(sc: &Scenario, st: &Step) -> u64 {
    match st.beh {
        Beh::Refuse | Beh::Reject | Beh::Healthy | Beh::Plain400 => 20,
        Beh::Stall | Beh::TlsStall | Beh::UpStall => sc.hs,
        Beh::Abrupt(d) | Beh::Orderly(d) => d + 30,
        Beh::Mute => sc.ch + 40,
        Beh::MuteCut(d) => d + 30,
    }
}

// ---------------------------------------------------------------------------------------------
// Observation
// ---------------------------------------------------------------------------------------------

#[derive(Clone, Debug, Default)]
struct LocalObs {
    req: u32,
    opened_ms: i64,
    connect_ok: Option<bool>,
    echoed_ms: Option<i64>,
    closed_without_echo: bool,
}

#[derive(Clone, Debug, Default)]
struct Obs {
    accepts: Vec<i64>,
    hs_done: Vec<Option<i64>>,
    ends: Vec<Option<i64>>,
    client_result: Option<(i64, String)>,
    locals: Vec<LocalObs>,
    infra: Option<String>,
}

type Shared = Arc<Mutex<Obs>>;

fn ms_since(t0: Instant) -> i64 {
    t0.elapsed().as_millis() as i64
}

fn err_class(e: &ClientError) -> &'static str {
    match e {
        ClientError::MaxRetryCountReached(_) => "max-retry",
        ClientError::RemoteHandlerExited(_) => "remote-handler-exited",
        ClientError::InvalidDomainName(_) => "invalid-domain-name",
        // `tungstenite` is not a direct dependency of this crate: tell `Error::Http` by its `Debug` form
        ClientError::Tungstenite(t) => {
            if format!("{t:?}").starts_with("Http(") {
                "http"
            } else {
                "transport"
            }
        }
        ClientError::TcpConnect(_) => "transport",
        ClientError::Tls(_) => "tls",
        ClientError::Mux(_) => "mux",
        ClientError::HandshakeTimeout => "handshake-timeout",
        ClientError::Cancelled => "cancelled",
        ClientError::StreamRequestTimeout => "stream-request-timeout",
        ClientError::ServerDisconnected => "server-disconnected",
    }
}

fn result_class(r: &Result<(), ClientError>) -> String {
    match r {
        Ok(()) => "ok".into(),
        Err(ClientError::MaxRetryCountReached(inner)) => format!("gaveup:{}", err_class(inner)),
        Err(e) => format!("fatal:{}", err_class(e)),
    }
}

static NEXT_PORT: AtomicU16 = AtomicU16::new(0);

/// A free loopback port outside the ephemeral range (the client's own listener needs a known port).
fn pick_port() -> u16 {
    let base = 20000 + (std::process::id() % 40) as u16 * 200;
    for _ in 0..2000 {
        let off = NEXT_PORT.fetch_add(1, Ordering::Relaxed) % 8000;
        let port = base.wrapping_add(off) % 12000 + 20000;
        if let Ok(l) = std::net::TcpListener::bind(("127.0.0.1", port)) {
            drop(l);
            return port;
        }
    }
    panic!("no free port");
}

fn find(hay: &[u8], needle: &[u8]) -> bool {
    hay.windows(needle.len()).any(|w| w == needle)
}

// ---------------------------------------------------------------------------------------------
// The scripted server's TLS side (for `wss` scenarios)
// ---------------------------------------------------------------------------------------------

/// One CA and one server certificate (127.0.0.1 / localhost) per process; the CA certificate is on
/// disk for the client's `--tls-ca`.
struct Pki {
    dir: std::path::PathBuf,
    ca_file: String,
    acceptor: tokio_rustls::TlsAcceptor,
}

static PKI: std::sync::OnceLock<Pki> = std::sync::OnceLock::new();

fn pki() -> &'static Pki {
    PKI.get_or_init(|| {
        use rcgen::{BasicConstraints, CertificateParams, DistinguishedName, DnType, ExtendedKeyUsagePurpose, IsCa, Issuer, KeyPair, KeyUsagePurpose};
        use rustls::pki_types::{CertificateDer, PrivateKeyDer, PrivatePkcs8KeyDer};
        let dn = |cn: &str| {
            let mut d = DistinguishedName::new();
            d.push(DnType::CommonName, cn);
            d.push(DnType::OrganizationName, "penguin-verif C19");
            d
        };
        let mut cap = CertificateParams::new(Vec::<String>::new()).expect("ca params");
        cap.distinguished_name = dn("C19 scenario CA");
        cap.is_ca = IsCa::Ca(BasicConstraints::Unconstrained);
        cap.key_usages = vec![KeyUsagePurpose::KeyCertSign, KeyUsagePurpose::CrlSign, KeyUsagePurpose::DigitalSignature];
        let cak = KeyPair::generate_for(&rcgen::PKCS_ECDSA_P256_SHA256).expect("ca key");
        let cac = cap.self_signed(&cak).expect("ca cert");
        let mut lp = CertificateParams::new(vec!["127.0.0.1".to_string(), "localhost".to_string()]).expect("leaf params");
        lp.distinguished_name = dn("scripted server");
        lp.key_usages = vec![KeyUsagePurpose::DigitalSignature];
        lp.extended_key_usages = vec![ExtendedKeyUsagePurpose::ServerAuth];
        let lk = KeyPair::generate_for(&rcgen::PKCS_ECDSA_P256_SHA256).expect("leaf key");
        let lc = lp.signed_by(&lk, &Issuer::from_params(&cap, &cak)).expect("leaf cert");
        let dir = std::path::PathBuf::from(format!("/verif/.build/tmp/c19-{}", std::process::id()));
        std::fs::create_dir_all(&dir).expect("scratch directory");
        let ca_file = dir.join("ca.pem").to_str().expect("utf-8 path").to_string();
        std::fs::write(&ca_file, cac.pem()).expect("write ca.pem");
        let provider = rustls::crypto::CryptoProvider::get_default().expect("crypto provider installed").clone();
        let cfg = rustls::ServerConfig::builder_with_provider(provider)
            .with_safe_default_protocol_versions()
            .expect("protocol versions")
            .with_no_client_auth()
            .with_single_cert(
                vec![CertificateDer::from(lc.der().to_vec())],
                PrivateKeyDer::Pkcs8(PrivatePkcs8KeyDer::from(lk.serialize_der())),
            )
            .expect("server certificate");
        Pki { dir, ca_file, acceptor: tokio_rustls::TlsAcceptor::from(Arc::new(cfg)) }
    })
}

const PLAIN_400: &[u8] = b"HTTP/1.1 400 Bad Request\r\ncontent-type: text/plain\r\ncontent-length: 0\r\nconnection: close\r\n\r\n";

struct Ctx {
    t0: Instant,
    obs: Shared,
    /// request number -> port of the client's listener for it
    local_ports: std::collections::BTreeMap<u32, u16>,
    server_addr: std::net::SocketAddr,
    sc: Scenario,
}

async fn local_connection(cx: Arc<Ctx>, req: u32, delay_ms: u64) {
    tokio::time::sleep(Duration::from_millis(delay_ms)).await;
    let idx = {
        let mut o = cx.obs.lock().unwrap();
        o.locals.push(LocalObs { req, opened_ms: ms_since(cx.t0), ..Default::default() });
        o.locals.len() - 1
    };
    let token = format!("penguin-c19-request-{req:04}\n").into_bytes();
    let Some(port) = cx.local_ports.get(&req).copied() else {
        cx.obs.lock().unwrap().infra = Some(format!("no listener was configured for request {req}"));
        return;
    };
    match TcpStream::connect(("127.0.0.1", port)).await {
        Err(_) => {
            cx.obs.lock().unwrap().locals[idx].connect_ok = Some(false);
        }
        Ok(mut s) => {
            cx.obs.lock().unwrap().locals[idx].connect_ok = Some(true);
            if s.write_all(&token).await.is_err() {
                cx.obs.lock().unwrap().locals[idx].closed_without_echo = true;
                return;
            }
            let mut buf = vec![0u8; token.len()];
            match s.read_exact(&mut buf).await {
                Ok(_) if buf == token => {
                    cx.obs.lock().unwrap().locals[idx].echoed_ms = Some(ms_since(cx.t0));
                    // keep the connection open until the scenario ends
                    std::future::pending::<()>().await;
                }
                _ => {
                    cx.obs.lock().unwrap().locals[idx].closed_without_echo = true;
                }
            }
        }
    }
}

fn set_end(cx: &Ctx, i: usize) {
    let t = ms_since(cx.t0);
    cx.obs.lock().unwrap().ends[i] = Some(t);
}

fn spawn_local(cx: &Arc<Ctx>, st: &Step, delay: u64) {
    for n in &st.local {
        tokio::spawn(local_connection(cx.clone(), *n, delay));
    }
}

/// Read and discard until the peer closes.
async fn hold_silently<S: AsyncRead + Unpin>(s: &mut S) {
    let mut buf = [0u8; 4096];
    while matches!(s.read(&mut buf).await, Ok(n) if n > 0) {}
}

/// One accepted connection of the scripted server: the part below TLS.
async fn scripted_connection(cx: Arc<Ctx>, i: usize, mut client: TcpStream) {
    let Some(step) = cx.sc.steps.get(i).cloned() else {
        // beyond the script: hold the connection silently (the attempt is recorded)
        hold_silently(&mut client).await;
        set_end(&cx, i);
        return;
    };
    let _ = client.set_nodelay(true);
    match step.beh {
        Beh::Refuse => {
            drop(client);
            set_end(&cx, i);
            spawn_local(&cx, &step, 5);
        }
        Beh::Stall => {
            // ws: the upgrade request is never answered; wss: the ClientHello is never answered
            spawn_local(&cx, &step, 5);
            hold_silently(&mut client).await;
            set_end(&cx, i);
        }
        Beh::Plain400 => {
            spawn_local(&cx, &step, 5);
            let mut buf = [0u8; 4096];
            if cx.sc.tr.tls() {
                // the ClientHello (one read is enough: any answer that is not TLS ends the handshake)
                let _ = client.read(&mut buf).await;
            } else {
                let mut head = vec![];
                while !find(&head, b"\r\n\r\n") {
                    match client.read(&mut buf).await {
                        Ok(n) if n > 0 => head.extend_from_slice(&buf[..n]),
                        _ => break,
                    }
                }
            }
            let _ = client.write_all(PLAIN_400).await;
            let _ = client.shutdown().await;
            set_end(&cx, i);
            let _ = tokio::time::timeout(Duration::from_millis(500), client.read(&mut buf)).await;
        }
        Beh::TlsStall => {
            // the real TLS answer (a rustls acceptor behind an in-memory pipe), cut after its first record
            spawn_local(&cx, &step, 5);
            let (near, far) = tokio::io::duplex(65536);
            let acceptor = pki().acceptor.clone();
            let srv = tokio::spawn(async move {
                let _ = acceptor.accept(far).await;
            });
            let (mut nr, mut nw) = tokio::io::split(near);
            let (mut cr, mut cw) = client.into_split();
            let mut cbuf = vec![0u8; 16384];
            let mut sbuf = vec![0u8; 16384];
            let mut answer: Vec<u8> = vec![];
            let mut passed = 0usize; // bytes of the answer relayed so far
            loop {
                tokio::select! {
                    r = cr.read(&mut cbuf) => match r {
                        Ok(n) if n > 0 => { let _ = nw.write_all(&cbuf[..n]).await; }
                        _ => break, // the client gave up
                    },
                    r = nr.read(&mut sbuf) => if let Ok(n) = r && n > 0 {
                        answer.extend_from_slice(&sbuf[..n]);
                        // the first record: 5 octets of header, the last two are its length
                        if answer.len() >= 5 {
                            let first = 5 + usize::from(u16::from_be_bytes([answer[3], answer[4]]));
                            let upto = first.min(answer.len());
                            if upto > passed {
                                if cw.write_all(&answer[passed..upto]).await.is_err() { break; }
                                passed = upto;
                            }
                        }
                    } else {
                        // the acceptor gave up (it never does before the client); keep holding the client
                        hold_silently(&mut cr).await;
                        break;
                    },
                }
            }
            srv.abort();
            if passed < 6 {
                cx.obs.lock().unwrap().infra = Some(format!("tlsstall: only {passed} octet(s) of the TLS answer were relayed"));
            }
            drop((cr, cw));
            set_end(&cx, i);
        }
        Beh::UpStall | Beh::Reject | Beh::Abrupt(_) | Beh::Orderly(_) | Beh::Mute | Beh::MuteCut(_) | Beh::Healthy => {
            if cx.sc.tr.tls() {
                match pki().acceptor.accept(client).await {
                    Ok(tls) => scripted_upper(cx, i, step, tls).await,
                    Err(e) => {
                        cx.obs.lock().unwrap().infra = Some(format!("attempt {i}: the TLS handshake with the scripted server failed: {e}"));
                        set_end(&cx, i);
                    }
                }
            } else {
                scripted_upper(cx, i, step, client).await;
            }
        }
    }
}

/// One accepted connection of the scripted server: the part above TLS (clear text of the tunnel's
/// HTTP upgrade and WebSocket).
async fn scripted_upper<S: AsyncRead + AsyncWrite + Unpin>(cx: Arc<Ctx>, i: usize, step: Step, mut client: S) {
    match step.beh {
        Beh::UpStall => {
            spawn_local(&cx, &step, 5);
            hold_silently(&mut client).await;
            set_end(&cx, i);
        }
        Beh::Reject => {
            spawn_local(&cx, &step, 5);
            let mut head = vec![];
            let mut buf = [0u8; 4096];
            while !find(&head, b"\r\n\r\n") {
                match client.read(&mut buf).await {
                    Ok(n) if n > 0 => head.extend_from_slice(&buf[..n]),
                    _ => break,
                }
            }
            let _ = client
                .write_all(b"HTTP/1.1 404 Not Found\r\ncontent-length: 0\r\nconnection: close\r\n\r\n")
                .await;
            let _ = client.shutdown().await;
            set_end(&cx, i);
            let _ = tokio::time::timeout(Duration::from_millis(500), client.read(&mut buf)).await;
        }
        Beh::Abrupt(_) | Beh::Orderly(_) | Beh::Mute | Beh::MuteCut(_) | Beh::Healthy => {
            let Ok(upstream) = TcpStream::connect(cx.server_addr).await else {
                cx.obs.lock().unwrap().infra = Some("cannot reach the real server".into());
                return;
            };
            let _ = upstream.set_nodelay(true);
            let (mut cr, mut cw) = tokio::io::split(client);
            let (mut sr, mut sw) = upstream.into_split();
            let mut cbuf = vec![0u8; 16384];
            let mut sbuf = vec![0u8; 16384];
            let mut head: Vec<u8> = vec![];
            let mut hs_done = false;
            let mut discard = false;
            let mut deadline: Option<tokio::time::Instant> = None;
            let far = tokio::time::Instant::now() + Duration::from_secs(3600);
            loop {
                tokio::select! {
                    r = cr.read(&mut cbuf) => match r {
                        Ok(n) if n > 0 => {
                            if !discard && sw.write_all(&cbuf[..n]).await.is_err() { break; }
                        }
                        _ => break, // the client closed
                    },
                    r = sr.read(&mut sbuf) => match r {
                        Ok(n) if n > 0 => {
                            if cw.write_all(&sbuf[..n]).await.is_err() { break; }
                            if cw.flush().await.is_err() { break; }
                            if !hs_done {
                                head.extend_from_slice(&sbuf[..n]);
                                if find(&head, b"\r\n\r\n") {
                                    hs_done = true;
                                    if !head.starts_with(b"HTTP/1.1 101") {
                                        cx.obs.lock().unwrap().infra =
                                            Some(format!("real server did not upgrade: {}", String::from_utf8_lossy(&head[..head.len().min(40)])));
                                    }
                                    let t = ms_since(cx.t0);
                                    cx.obs.lock().unwrap().hs_done[i] = Some(t);
                                    spawn_local(&cx, &step, 10);
                                    match step.beh {
                                        Beh::Mute => discard = true,
                                        Beh::MuteCut(d) => {
                                            discard = true;
                                            deadline = Some(tokio::time::Instant::now() + Duration::from_millis(d));
                                        }
                                        Beh::Abrupt(d) | Beh::Orderly(d) => {
                                            deadline = Some(tokio::time::Instant::now() + Duration::from_millis(d));
                                        }
                                        _ => {}
                                    }
                                }
                            }
                        }
                        _ => break, // the real server closed
                    },
                    () = tokio::time::sleep_until(deadline.unwrap_or(far)) => {
                        if matches!(step.beh, Beh::Orderly(_)) {
                            // WebSocket Close, status 1000, unmasked (server to client)
                            let _ = cw.write_all(&[0x88, 0x02, 0x03, 0xE8]).await;
                            let _ = cw.flush().await;
                            // the client's Close reply (or its EOF), then close the connection (over TLS:
                            // with close_notify, as an orderly server does)
                            let _ = tokio::time::timeout(Duration::from_millis(500), cr.read(&mut cbuf)).await;
                            let _ = tokio::time::timeout(Duration::from_millis(100), cw.shutdown()).await;
                        }
                        // (abrupt, mutecut: the TCP connection goes without a TLS close_notify)
                        break;
                    }
                }
            }
            drop((cr, cw, sr, sw));
            set_end(&cx, i);
        }
        Beh::Refuse | Beh::Stall | Beh::TlsStall | Beh::Plain400 => unreachable!("handled below TLS"),
    }
}

async fn run_scenario_async(sc: Scenario) -> Obs {
    let t0 = Instant::now();
    let obs: Shared = Arc::new(Mutex::new(Obs::default()));
    // echo server = the tunnel's target
    let echo = TcpListener::bind("127.0.0.1:0").await.expect("bind echo");
    let echo_port = echo.local_addr().unwrap().port();
    tokio::spawn(async move {
        loop {
            let Ok((mut s, _)) = echo.accept().await else { continue };
            tokio::spawn(async move {
                let mut buf = [0u8; 4096];
                loop {
                    match s.read(&mut buf).await {
                        Ok(n) if n > 0 => {
                            if s.write_all(&buf[..n]).await.is_err() {
                                break;
                            }
                        }
                        _ => break,
                    }
                }
            });
        }
    });
    // the real server
    let srv = TcpListener::bind("127.0.0.1:0").await.expect("bind server");
    let server_addr = srv.local_addr().unwrap();
    let state = match State::new().await {
        Ok(s) => s,
        Err(e) => {
            obs.lock().unwrap().infra = Some(format!("State::new failed: {e}"));
            return obs.lock().unwrap().clone();
        }
    };
    tokio::spawn(run_listener(srv, None, state));
    // the scripted server
    let front = TcpListener::bind("127.0.0.1:0").await.expect("bind scripted server");
    let front_addr = front.local_addr().unwrap();
    let local_ports: std::collections::BTreeMap<u32, u16> = sc.requests().into_iter().map(|r| (r, pick_port())).collect();
    let mut remotes: Vec<Remote> =
        local_ports.values().map(|p| Remote::from_str(&format!("127.0.0.1:{p}:127.0.0.1:{echo_port}")).expect("remote")).collect();
    if remotes.is_empty() {
        // a client needs a remote; nothing connects to this one
        remotes.push(Remote::from_str(&format!("127.0.0.1:{}:127.0.0.1:{echo_port}", pick_port())).expect("remote"));
    }
    let cx = Arc::new(Ctx { t0, obs: obs.clone(), local_ports, server_addr, sc: sc.clone() });
    {
        let cx = cx.clone();
        tokio::spawn(async move {
            let mut i = 0usize;
            loop {
                let Ok((sock, _)) = front.accept().await else { continue };
                {
                    let mut o = cx.obs.lock().unwrap();
                    o.accepts.push(ms_since(cx.t0));
                    o.hs_done.push(None);
                    o.ends.push(None);
                }
                tokio::spawn(scripted_connection(cx.clone(), i, sock));
                i += 1;
            }
        });
    }
    // the real client
    let args: &'static ClientArgs = Box::leak(Box::new(ClientArgs {
        server: ServerUrl::from_str(&format!("{}://{front_addr}/ws", if sc.tr.tls() { "wss" } else { "ws" })).expect("server url"),
        tls_ca: (sc.tr == Transport::WssCa).then(|| pki().ca_file.clone()),
        tls_skip_verify: sc.tr == Transport::WssInsecure,
        remote: remotes,
        keepalive: OptionalDuration::NONE,
        max_retry_count: sc.count,
        max_retry_interval: sc.max_interval,
        handshake_timeout: OptionalDuration::from(Duration::from_millis(sc.hs)),
        channel_timeout: OptionalDuration::from(Duration::from_millis(sc.ch)),
        ..Default::default()
    }));
    let (hr, stream_command_rx, datagram_rx) = HandlerResources::create();
    let hr: &'static HandlerResources = Box::leak(Box::new(hr));
    let client = {
        let obs = obs.clone();
        tokio::spawn(async move {
            let r = client_main_inner(args, hr, stream_command_rx, datagram_rx).await;
            let t = ms_since(t0);
            obs.lock().unwrap().client_result = Some((t, result_class(&r)));
        })
    };
    // wait for the scenario to play out
    let exp = oracle(&sc);
    let nominal: u64 = sc.steps.iter().take(exp.attempts).map(|s| nominal_duration(&sc, s)).sum::<u64>()
        + exp.sleeps.iter().sum::<u64>();
    let hard_deadline = t0 + Duration::from_millis(nominal + 1500);
    let mut settle_from: Option<Instant> = None;
    loop {
        tokio::time::sleep(Duration::from_millis(15)).await;
        let now = Instant::now();
        let done = {
            let o = obs.lock().unwrap();
            if o.infra.is_some() {
                true
            } else if o.client_result.is_some() {
                true
            } else if exp.fin == "stays" && o.accepts.len() >= exp.attempts {
                // last attempt reached; all expected echoes back?
                let last_beh = &sc.steps[exp.attempts - 1].beh;
                let established = *last_beh != Beh::Healthy || o.hs_done.get(exp.attempts - 1).copied().flatten().is_some();
                let echoes = exp.served.iter().all(|(r, _)| o.locals.iter().any(|l| l.req == *r && l.echoed_ms.is_some()));
                established && echoes
            } else {
                false
            }
        };
        if done && settle_from.is_none() {
            settle_from = Some(now);
        }
        if let Some(s) = settle_from {
            // keep watching for attempts that should not happen
            if now.duration_since(s) >= Duration::from_millis(450) {
                break;
            }
        }
        if now >= hard_deadline {
            break;
        }
    }
    client.abort();
    let _ = client.await;
    let o = obs.lock().unwrap().clone();
    o
}

fn run_scenario(sc: &Scenario) -> Obs {
    let rt = tokio::runtime::Builder::new_current_thread().enable_all().build().expect("runtime");
    let o = rt.block_on(run_scenario_async(sc.clone()));
    rt.shutdown_timeout(Duration::from_millis(200));
    o
}

// ---------------------------------------------------------------------------------------------
// Comparison
// ---------------------------------------------------------------------------------------------

/// Compare a prediction with what was observed. Returns (canonical key, description) per mismatch.
fn compare(sc: &Scenario, p: &Pred, o: &Obs) -> Vec<(String, String)> {
    let mut bad = vec![];
    let n_obs = o.accepts.len();
    // "Local listeners stay open throughout": no script step gives a listener a reason to end, so
    // `RemoteHandlerExited` means a listener task was made to exit (e.g. its stream request was
    // dropped instead of parked or left in the channel)
    if let Some((t, c)) = &o.client_result
        && c.contains("remote-handler-exited")
        && !p.fin.contains("remote-handler-exited")
    {
        let waiting: Vec<u32> = o.locals.iter().filter(|l| l.echoed_ms.is_none() && l.opened_ms < *t).map(|l| l.req).collect();
        bad.push((
            "listener-exited".to_string(),
            format!(
                "client_main_inner returned RemoteHandlerExited at {t} ms (during attempt {}): a local listener ended although listeners must \
                 stay open throughout; local connection(s) {waiting:?} were waiting to be served by a later connection",
                n_obs.saturating_sub(1)
            ),
        ));
    }
    if n_obs != p.attempts {
        let what = if n_obs < p.attempts {
            let last = sc.steps.get(n_obs.saturating_sub(1)).map(Step::text).unwrap_or_default();
            format!(
                "no-reconnect-after {last}: {n_obs} connection attempt(s) observed, {} expected: after attempt {} ({last}) the client made no further attempt",
                p.attempts,
                n_obs.saturating_sub(1)
            )
        } else {
            format!("extra-attempts: {n_obs} connection attempts observed, {} expected", p.attempts)
        };
        let (k, d) = what.split_once(": ").unwrap();
        bad.push((k.to_string(), d.to_string()));
    }
    // delays between the end of attempt i and the start of attempt i+1
    for (i, want) in p.sleeps.iter().enumerate() {
        let (Some(Some(end)), Some(next)) = (o.ends.get(i), o.accepts.get(i + 1)) else { continue };
        let gap = next - end;
        let want = *want as i64;
        if gap < want - EARLY_MS {
            bad.push((format!("delay-too-short after attempt {i}"), format!("attempt {} started {gap} ms after attempt {i} ended; the back-off delay there is {want} ms", i + 1)));
        } else if gap > want + LATE_MS {
            bad.push((format!("late: delay after attempt {i}"), format!("attempt {} started {gap} ms after attempt {i} ended; the back-off delay there is {want} ms", i + 1)));
        }
    }
    // time-outs
    for (i, st) in sc.steps.iter().enumerate().take(n_obs) {
        let (Some(acc), Some(Some(end))) = (o.accepts.get(i), o.ends.get(i)) else { continue };
        match st.beh {
            Beh::Stall | Beh::TlsStall | Beh::UpStall => {
                let dur = end - acc;
                let want = sc.hs as i64;
                if dur < want - EARLY_MS {
                    bad.push((format!("handshake-timeout-too-short attempt {i}"), format!("stalled handshake given up after {dur} ms, handshake_timeout is {want} ms")));
                } else if dur > want + LATE_MS {
                    bad.push((format!("late: handshake-timeout attempt {i}"), format!("stalled handshake given up after {dur} ms, handshake_timeout is {want} ms")));
                }
            }
            Beh::Mute => {
                // the clock starts with the connection when a request was already waiting, else
                // when the local connection of this step arrives
                let own = st.local.iter().filter_map(|n| o.locals.iter().find(|l| l.req == *n)).map(|l| l.opened_ms).min();
                let waiting_before = sc.steps[..i]
                    .iter()
                    .flat_map(|s| s.local.iter())
                    .any(|r| !p.served.iter().any(|(q, a)| q == r && *a < i));
                let start = if waiting_before { o.hs_done.get(i).copied().flatten() } else { own };
                if let Some(start) = start {
                    let dur = end - start;
                    let want = sc.ch as i64;
                    if dur < want - EARLY_MS - 15 {
                        bad.push((format!("channel-timeout-too-short attempt {i}"), format!("stream request given up after {dur} ms, channel_timeout is {want} ms")));
                    } else if dur > want + LATE_CH_MS {
                        bad.push((format!("late: channel-timeout attempt {i}"), format!("stream request given up after {dur} ms, channel_timeout is {want} ms")));
                    }
                }
            }
            _ => {}
        }
    }
    // how the client ended
    let got_fin = match &o.client_result {
        Some((_, c)) => c.clone(),
        None => "stays".to_string(),
    };
    let want_fin = if p.fin == "gaveup:connected" { "gaveup:?".to_string() } else { p.fin.clone() };
    if got_fin != want_fin {
        bad.push((format!("final {want_fin}"), format!("client_main_inner: expected `{want_fin}`, observed `{got_fin}`")));
    }
    // local connections
    for l in &o.locals {
        // (a connection opened after client_main_inner has returned finds no listener, rightly)
        let client_running = o.client_result.as_ref().is_none_or(|(t, _)| l.opened_ms + 3 < *t);
        if l.connect_ok == Some(false) && client_running {
            bad.push((format!("listener-closed request {}", l.req), format!("local connection {} (opened at {} ms) was refused: the client's listener is not open", l.req, l.opened_ms)));
        }
    }
    for (req, att) in &p.served {
        let Some(l) = o.locals.iter().find(|l| l.req == *req) else {
            if *att >= n_obs {
                continue; // the attempt during which it would be opened was never made (reported above)
            }
            bad.push((format!("request-not-opened {req}"), format!("local connection {req} was never opened by the harness (attempt {att} not reached)")));
            continue;
        };
        match l.echoed_ms {
            None => bad.push((
                format!("request-dropped {req}"),
                format!(
                    "local connection {req} (opened at {} ms) got no echo{}; it should have been served by attempt {att}",
                    l.opened_ms,
                    if l.closed_without_echo { " and was closed" } else { "" }
                ),
            )),
            Some(t) => {
                // which attempt was connected at that time?
                let serving = (0..n_obs).rev().find(|j| o.hs_done.get(*j).copied().flatten().is_some_and(|h| h <= t));
                if serving != Some(*att) {
                    bad.push((format!("request-served-by-other-attempt {req}"), format!("local connection {req} was served during attempt {serving:?}, expected attempt {att}")));
                }
            }
        }
    }
    bad
}

fn parse_model(resp: &str) -> Option<Pred> {
    let mut p = Pred { sleeps: vec![], attempts: 0, fin: String::new(), served: vec![] };
    for tok in resp.split_whitespace() {
        let (k, v) = tok.split_once('=')?;
        match k {
            "sleeps" => {
                if v != "-" {
                    p.sleeps = v.split(',').map(|x| x.parse().ok()).collect::<Option<Vec<_>>>()?;
                }
            }
            "attempts" => p.attempts = v.parse().ok()?,
            "final" => p.fin = v.to_string(),
            "served" => {
                if v != "-" {
                    for e in v.split(',') {
                        let (r, a) = e.split_once('@')?;
                        p.served.push((r.parse().ok()?, a.parse().ok()?));
                    }
                }
            }
            "parked" | "queued" => {}
            "lost" => {
                if v != "-" {
                    p.fin = format!("{} lost={v}", p.fin);
                }
            }
            _ => return None,
        }
    }
    Some(p)
}

/// The oracle knows the class of the last error only as far as the property text goes.
fn normalise(mut p: Pred) -> Pred {
    if p.fin == "gaveup:connected" {
        p.fin = "gaveup:?".into();
    }
    p
}

struct Outcome {
    obs: Obs,
    impl_bad: Vec<(String, String)>,
}

fn evaluate(sc: &Scenario) -> Outcome {
    let obs = run_scenario(sc);
    let impl_bad = if let Some(why) = &obs.infra { vec![(format!("infra {why}"), why.clone())] } else { compare(sc, &normalise(oracle(sc)), &obs) };
    Outcome { obs, impl_bad }
}

fn obs_json(o: &Obs) -> pvhf::Value {
    json!({
        "attempt_started_ms": o.accepts, "handshake_done_ms": o.hs_done, "attempt_ended_ms": o.ends,
        "client_result": o.client_result.as_ref().map(|(t, c)| json!({"at_ms": t, "result": c})),
        "locals": o.locals.iter().map(|l| json!({"req": l.req, "opened_ms": l.opened_ms, "connected": l.connect_ok,
            "echoed_ms": l.echoed_ms, "closed_without_echo": l.closed_without_echo})).collect::<Vec<_>>(),
    })
}

// ---------------------------------------------------------------------------------------------
// Generation
// ---------------------------------------------------------------------------------------------

fn st(beh: Beh, local: Option<u32>) -> Step {
    Step { beh, local: local.into_iter().collect() }
}

fn stv(beh: Beh, local: &[u32]) -> Step {
    Step { beh, local: local.to_vec() }
}

fn fixed_scenarios() -> Vec<Scenario> {
    use Beh::*;
    vec![
        // retry limit: 3 retries, capped delays 200, 400, 500
        Scenario { tr: Transport::Ws, count: 3, max_interval: 500, hs: 300, ch: 300, steps: vec![st(Refuse, None), st(Refuse, None), st(Refuse, None), st(Refuse, None)] },
        // stalled handshakes
        Scenario { tr: Transport::Ws, count: 1, max_interval: 1000, hs: 300, ch: 300, steps: vec![st(Stall, Some(1)), st(Stall, None)] },
        // a connection opened while down is served by the next connection; back-off restarts after it
        Scenario { tr: Transport::Ws, count: 0, max_interval: 1000, hs: 300, ch: 300, steps: vec![st(Refuse, None), st(Refuse, Some(1)), st(Abrupt(300), None), st(Refuse, None), st(Healthy, Some(2))] },
        // orderly close by the server must also lead to a reconnect
        Scenario { tr: Transport::Ws, count: 2, max_interval: 1000, hs: 300, ch: 300, steps: vec![st(Orderly(200), Some(1)), st(Refuse, None), st(Orderly(200), None), st(Healthy, Some(2))] },
        // a stream request that timed out is parked and served first by the next connection
        Scenario { tr: Transport::Ws, count: 0, max_interval: 1000, hs: 300, ch: 300, steps: vec![st(Mute, Some(1)), st(Refuse, None), st(Healthy, Some(2))] },
        // a non-retryable error ends the client at once
        Scenario { tr: Transport::Ws, count: 0, max_interval: 500, hs: 300, ch: 300, steps: vec![st(Refuse, None), st(Reject, None), st(Refuse, None)] },
        // a backlog: two local connections accepted while the tunnel was down are both waiting when a
        // connection comes up and goes silent; the first request times out (parked), the second must
        // still be there for the next connection
        Scenario { tr: Transport::Ws, count: 0, max_interval: 1000, hs: 300, ch: 300, steps: vec![st(Refuse, Some(1)), st(Refuse, Some(2)), st(Mute, None), st(Healthy, Some(3))] },
        // three at once during a stalled handshake; the connection that picks them up is cut under the
        // first request, the next one is silent, then a refusal, then a healthy one serves all
        Scenario { tr: Transport::Ws, count: 0, max_interval: 500, hs: 300, ch: 300, steps: vec![stv(Stall, &[1, 2, 3]), st(MuteCut(120), None), st(Mute, Some(4)), st(Refuse, None), st(Healthy, Some(5))] },
    ]
}

/// The transport dimension: every fixed scenario once more over `wss` (certificate verification
/// against the CA / switched off, alternating), and scenarios for the faults that only exist there.
fn fixed_tls_scenarios() -> Vec<Scenario> {
    use Beh::*;
    use Transport::{WssCa, WssInsecure};
    let mut v: Vec<Scenario> = fixed_scenarios()
        .into_iter()
        .enumerate()
        .map(|(i, sc)| Scenario { tr: if i % 2 == 0 { WssCa } else { WssInsecure }, ..sc })
        .collect();
    v.extend([
        // the TLS handshake stalls at each of its stages, then the upgrade; retry limit 3
        Scenario { tr: WssInsecure, count: 3, max_interval: 500, hs: 250, ch: 300, steps: vec![st(Stall, None), st(TlsStall, Some(1)), st(UpStall, None), st(Stall, None)] },
        // a server that is a black hole for a while and then recovers: the connection accepted meanwhile is served
        Scenario { tr: WssCa, count: 0, max_interval: 1000, hs: 300, ch: 300, steps: vec![st(Stall, Some(1)), st(TlsStall, None), st(Healthy, Some(2))] },
        // connections closed under the ClientHello are retried and given up (the error is a TLS one)
        Scenario { tr: WssCa, count: 2, max_interval: 1000, hs: 300, ch: 300, steps: vec![st(Refuse, None), st(Refuse, Some(1)), st(Refuse, None)] },
        // clear text where TLS is expected ends the client at once, also after a working connection
        Scenario { tr: WssInsecure, count: 0, max_interval: 500, hs: 300, ch: 300, steps: vec![st(Refuse, Some(1)), st(Abrupt(200), None), st(Plain400, None), st(Healthy, None)] },
        // the same server behaviour over ws is an HTTP error
        Scenario { tr: Transport::Ws, count: 0, max_interval: 500, hs: 300, ch: 300, steps: vec![st(UpStall, None), st(Plain400, None), st(Healthy, None)] },
    ]);
    v
}

fn random_scenario(r: &mut Rng) -> Scenario {
    loop {
        // the transport: about half of the scenarios over wss
        let tr = *r.pick(&[Transport::Ws, Transport::Ws, Transport::WssCa, Transport::WssInsecure]);
        // where a stalling server stalls (over ws there is only the upgrade to stall)
        let stall = |r: &mut Rng| -> Beh {
            if !tr.tls() {
                return if r.chance(1, 4) { Beh::UpStall } else { Beh::Stall };
            }
            match r.below(5) {
                0 | 1 => Beh::Stall,
                2 | 3 => Beh::TlsStall,
                _ => Beh::UpStall,
            }
        };
        let count = *r.pick(&[0u32, 0, 1, 2, 3]);
        let max_interval = *r.pick(&[120u64, 250, 500, 1000]);
        let hs = *r.pick(&[200u64, 300]);
        let ch = *r.pick(&[250u64, 350]);
        let mut steps = vec![];
        let mut next_req = 1u32;
        let mut pending = 0u32;
        let take = |n: u64, next_req: &mut u32| -> Vec<u32> {
            (0..n).map(|_| {
                *next_req += 1;
                *next_req - 1
            }).collect()
        };
        // one scenario in three starts with a backlog: 2-4 local connections accepted while the tunnel
        // is down (refused / stalled attempts), picked up by a connection that fails the first of them
        let backlog = r.chance(1, 3);
        if backlog {
            let downs = r.range(1, 2);
            let mut total = r.range(2, 4);
            for i in 0..downs {
                let n = if i + 1 == downs { total } else { r.range(1, total - 1) };
                total -= n;
                let beh = if r.chance(1, 3) { stall(r) } else { Beh::Refuse };
                steps.push(Step { beh, local: take(n, &mut next_req) });
                pending += n as u32;
            }
            let beh = if r.chance(1, 2) { Beh::Mute } else { Beh::MuteCut(*r.pick(&[60u64, 120])) };
            steps.push(Step { beh, local: take(r.below(2), &mut next_req) });
        }
        let len = if backlog { r.range(0, 3) } else { r.range(2, 6) } as usize;
        for _ in 0..len {
            let beh = match r.below(11) {
                0..=2 => Beh::Refuse,
                3 | 4 => stall(r),
                5 | 6 => Beh::Abrupt(*r.pick(&[150u64, 300])),
                7 | 8 => Beh::Orderly(*r.pick(&[150u64, 250])),
                9 => Beh::MuteCut(*r.pick(&[60u64, 120])),
                _ => Beh::Mute,
            };
            let n = match r.below(10) {
                0..=5 => 0,
                6..=8 => 1,
                _ => 2,
            };
            let mut local = take(n, &mut next_req);
            if beh == Beh::Mute && pending == 0 && local.is_empty() {
                local = take(1, &mut next_req);
            }
            pending += local.len() as u32;
            match beh {
                Beh::Abrupt(_) | Beh::Orderly(_) => pending = 0,
                _ => {}
            }
            steps.push(Step { beh, local });
        }
        let last = match r.below(10) {
            0 => {
                if r.chance(1, 2) {
                    Beh::Reject
                } else {
                    Beh::Plain400
                }
            }
            1 | 2 => Beh::Refuse,
            _ => Beh::Healthy,
        };
        steps.push(Step { beh: last, local: if r.chance(1, 2) { take(1, &mut next_req) } else { vec![] } });
        let mut sc = Scenario { tr, count, max_interval, hs, ch, steps };
        // keep what is executed; make the end determinate
        let p = oracle(&sc);
        sc.steps.truncate(p.attempts);
        if p.fin == "script-end" {
            sc.steps.push(Step { beh: Beh::Healthy, local: vec![] });
        }
        let p = oracle(&sc);
        let nominal: u64 = sc.steps.iter().map(|s| nominal_duration(&sc, s)).sum::<u64>() + p.sleeps.iter().sum::<u64>();
        if nominal <= 6000 && p.attempts >= 2 {
            return sc;
        }
    }
}

// ---------------------------------------------------------------------------------------------
// Main
// ---------------------------------------------------------------------------------------------

/// `width` workers take the scenarios in order (longest first would not be reproducible in its
/// timing either; the order is the list's).
fn run_parallel(scs: &[Scenario], width: usize) -> Vec<Outcome> {
    let next = std::sync::atomic::AtomicUsize::new(0);
    let out: Vec<Mutex<Option<Outcome>>> = (0..scs.len()).map(|_| Mutex::new(None)).collect();
    std::thread::scope(|s| {
        for w in 0..width.clamp(1, scs.len().max(1)) {
            let (next, out) = (&next, &out);
            s.spawn(move || {
                // the workers do not all start their first scenario (runtime, listeners, real server) in
                // the same millisecond
                std::thread::sleep(Duration::from_millis(35 * w as u64));
                loop {
                    let i = next.fetch_add(1, Ordering::Relaxed);
                    let Some(sc) = scs.get(i) else { break };
                    *out[i].lock().unwrap() = Some(evaluate(sc));
                }
            });
        }
    });
    out.into_iter().map(|o| o.into_inner().unwrap().expect("outcome")).collect()
}

fn replay(path: &str) -> i32 {
    let text = std::fs::read_to_string(path).expect("read replay file");
    let v: pvhf::Value = serde_json::from_str(&text).expect("replay json");
    let rp = if v.get("replay").is_some() { &v["replay"] } else { &v };
    let Some(sc) = rp["line"].as_str().and_then(Scenario::parse) else {
        println!("unknown replay");
        return 2;
    };
    if sc.tr.tls() {
        let _ = pki();
    }
    println!("scenario   {}", sc.line());
    println!("expected   {:?}", normalise(oracle(&sc)));
    let mut out = evaluate(&sc);
    if !out.impl_bad.is_empty() {
        println!("first run fails ({}); running once more", out.impl_bad[0].0);
        out = evaluate(&sc);
    }
    println!("observed   {}", obs_json(&out.obs));
    remove_scratch();
    if out.impl_bad.is_empty() {
        println!("holds on this input");
        0
    } else {
        for (k, d) in &out.impl_bad {
            println!("FAILS [{k}]: {d}");
        }
        1
    }
}

fn remove_scratch() {
    if let Some(p) = PKI.get() {
        let _ = std::fs::remove_dir_all(&p.dir);
    }
}

fn main() {
    let args = Args::parse();
    rusty_penguin_lib::tls::init_crypto_provider();
    if let Some(p) = &args.replay {
        std::process::exit(replay(p));
    }
    let rule = "scenario = (transport ws / wss verified against a CA / wss unverified, max_retry_count, max_retry_interval, \
handshake_timeout, channel_timeout, script of scripted-server behaviours per connection attempt with local connections \
opened at chosen attempts) run in real time on the real client_main_inner; non-trivial = at least two connection attempts \
(one retry); distinct by content";
    let mut rep = Report::new("client", &args, rule);
    let mut drv = args.driver.as_deref().map(|p| Driver::spawn(p, &[]).expect("start Lean driver"));
    let mut scs: Vec<Scenario> = vec![];
    for (_name, text) in pvhf::corpus_files(args.corpus.as_deref()) {
        scs.extend(text.lines().filter_map(Scenario::parse));
    }
    let n_corpus = scs.len();
    scs.extend(fixed_scenarios());
    scs.extend(fixed_tls_scenarios());
    let (n_random, width) = match args.tier {
        Tier::Quick => (4, 10),
        Tier::Thorough => (60, 12),
    };
    let mut rng = Rng::new(args.seed);
    for _ in 0..n_random {
        scs.push(random_scenario(&mut rng));
    }
    let width = args.opt("--width").and_then(|w| w.parse().ok()).unwrap_or(width);
    if scs.iter().any(|sc| sc.tr.tls()) {
        let _ = pki(); // key generation outside the timed runs
    }
    let mut outs = run_parallel(&scs, width);
    // a failing scenario is run once more on its own (real-time noise) before it is reported
    let mut reruns = 0;
    let mut first_run_failures: Vec<String> = vec![];
    for (sc, out) in scs.iter().zip(outs.iter_mut()) {
        if !out.impl_bad.is_empty() {
            reruns += 1;
            first_run_failures.push(format!("[{}] {}", out.impl_bad.iter().map(|(k, _)| k.as_str()).collect::<Vec<_>>().join("; "), sc.line()));
            let again = evaluate(sc);
            if again.impl_bad.is_empty() || !out.impl_bad.iter().any(|(k, _)| !k.starts_with("late")) {
                *out = again;
            } else {
                // keep the run whose failure is not a mere lateness, prefer the fresh one if it fails too
                if !again.impl_bad.is_empty() {
                    *out = again;
                }
            }
        }
    }
    rep.notes.push(format!("{} scenario(s), {n_corpus} from the corpus; {reruns} re-run once because the first run failed; parallel width {width}", scs.len()));
    if !first_run_failures.is_empty() {
        rep.notes.push(format!("first-run failures that led to a re-run: {}", first_run_failures.join(" || ")));
    }
    let model: Option<Vec<String>> = drv.as_mut().map(|d| d.batch(&scs.iter().map(Scenario::line).collect::<Vec<_>>()));
    for (i, (sc, out)) in scs.iter().zip(outs.iter()).enumerate() {
        let line = sc.line();
        let exp = normalise(oracle(sc));
        rep.case((exp.attempts >= 2).then(|| fnv(line.as_bytes())));
        rep.count(if sc.tr.tls() { "transport/wss" } else { "transport/ws" });
        if sc.tr.tls() {
            rep.count(&format!("transport/{}", sc.tr.token()));
        }
        for s in &sc.steps {
            let b = s.text();
            let b = b.split([':', '+']).next().unwrap_or("?");
            rep.count(&format!("behaviour/{b}"));
            if sc.tr.tls() {
                rep.count(&format!("behaviour-over-wss/{b}"));
            }
            rep.count_n("local-connection", s.local.len() as u64);
        }
        rep.count(&format!("final/{}", exp.fin.split(':').next().unwrap_or("?")));
        rep.count_n("attempts", out.obs.accepts.len() as u64);
        if i < n_corpus + 6 || (sc.tr.tls() && i % 4 == 0) {
            rep.sample(json!({"scenario": line, "expected": format!("{exp:?}"), "observed": obs_json(&out.obs)}));
        }
        for (k, d) in &out.impl_bad {
            rep.fail(
                FailKind::Impl,
                &format!("{k} :: {line}"),
                d,
                json!({"op": "scenario", "line": line, "expected": format!("{exp:?}"), "observed": obs_json(&out.obs)}),
            );
        }
        if let Some(m) = &model {
            rep.model_compared += 1;
            match parse_model(&m[i]) {
                None => rep.fail(FailKind::Model, &format!("model-answer {line}"), &format!("unreadable model answer `{}`", m[i]), json!({"op": "scenario", "line": line})),
                Some(mp) => {
                    // the model against the real client's observation …
                    let bad = if out.obs.infra.is_some() { vec![] } else { compare(sc, &mp, &out.obs) };
                    if out.impl_bad.is_empty() {
                        for (k, d) in bad {
                            rep.fail(
                                FailKind::Model,
                                &format!("model {k} :: {line}"),
                                &format!("model `{}` vs implementation: {d}", m[i]),
                                json!({"op": "scenario", "line": line, "model": m[i], "observed": obs_json(&out.obs)}),
                            );
                        }
                    }
                    // … and against the property-statement oracle, exactly
                    let mut mpn = mp.clone();
                    if exp.fin == "gaveup:?" && mpn.fin.starts_with("gaveup:") {
                        mpn.fin = "gaveup:?".into();
                    }
                    if mpn != exp && out.impl_bad.is_empty() {
                        rep.fail(
                            FailKind::Model,
                            &format!("model-vs-statement {line}"),
                            &format!("model predicts {mpn:?}, the property statement gives {exp:?}"),
                            json!({"op": "scenario", "line": line, "model": m[i]}),
                        );
                    }
                }
            }
        }
    }
    if let Some(d) = &drv {
        rep.notes.push(format!("driver lines: {}", d.lines));
    }
    rep.notes.push(format!("time tolerance: -{EARLY_MS} ms / +{LATE_MS} ms on back-off delays and the handshake time-out, +{LATE_CH_MS} ms on the channel time-out"));
    rep.finish(&args);
    remove_scratch();
    std::process::exit(i32::from(rep.has_failures()));
}
